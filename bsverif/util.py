"""Small syntax-tree helpers shared by the rules."""
import ast

from .front import AnalysisError, src


def walk_no_nested_defs(node):
    """ast.walk that does not descend into nested function/class definitions."""
    todo = list(ast.iter_child_nodes(node))
    while todo:
        n = todo.pop()
        yield n
        if isinstance(n, (ast.FunctionDef, ast.ClassDef, ast.Lambda)):
            continue
        todo.extend(ast.iter_child_nodes(n))


def calls_in(node, name=None, suffix=None):
    out = []
    for n in ast.walk(node):
        if isinstance(n, ast.Call):
            t = src(n.func)
            if name is not None and t != name:
                continue
            if suffix is not None and not (t == suffix or t.endswith('.' + suffix)):
                continue
            out.append(n)
    out.sort(key=lambda c: (c.lineno, c.col_offset))
    return out


def call_name(call):
    return src(call.func)


def last_attr(call):
    f = call.func
    if isinstance(f, ast.Attribute):
        return f.attr
    if isinstance(f, ast.Name):
        return f.id
    return None


def strip_cast(n):
    while isinstance(n, ast.Call) and isinstance(n.func, ast.Name) and n.func.id == '__cast__' and len(n.args) == 2:
        n = n.args[1]
    return n


def is_const(n, value=None):
    if not isinstance(n, ast.Constant):
        return False
    return value is None or (n.value == value and type(n.value) is type(value))


def const_num(n):
    """numeric value of a (possibly negated) constant, else None"""
    if isinstance(n, ast.Constant) and isinstance(n.value, (int, float)) and not isinstance(n.value, bool):
        return n.value
    if isinstance(n, ast.UnaryOp) and isinstance(n.op, ast.USub):
        v = const_num(n.operand)
        return -v if v is not None else None
    return None


def if_chain(stmt):
    """Flatten if/elif/else: list of (test or None, body)."""
    out = []
    cur = stmt
    while True:
        out.append((cur.test, cur.body))
        if len(cur.orelse) == 1 and isinstance(cur.orelse[0], ast.If):
            cur = cur.orelse[0]
            continue
        if cur.orelse:
            out.append((None, cur.orelse))
        break
    return out


def string_dispatch(stmts, var):
    """For an if/elif chain testing `var == 'lit'` (or `var in [..]`): {literal: body}; '' -> else body.

    Returns (table, else_body or None, the If node) for the first such chain in stmts, or None."""
    for s in stmts:
        if isinstance(s, ast.If):
            table = {}
            other = None
            ok = False
            for test, body in if_chain(s):
                if test is None:
                    other = body
                    continue
                lits = eq_literals(test, var)
                if lits is None:
                    continue
                ok = True
                for l in lits:
                    table.setdefault(l, body)
            if ok:
                return table, other, s
    return None


def eq_literals(test, var):
    """`var == 'a'`, `var in ['a','b']`, `var == 'a' or var == 'b'` -> list of literals, else None."""
    if isinstance(test, ast.Compare) and len(test.ops) == 1 and src(test.left) == var:
        c = test.comparators[0]
        if isinstance(test.ops[0], ast.Eq) and isinstance(c, ast.Constant):
            return [c.value]
        if isinstance(test.ops[0], ast.In) and isinstance(c, (ast.List, ast.Tuple, ast.Set)) \
                and all(isinstance(e, ast.Constant) for e in c.elts):
            return [e.value for e in c.elts]
    if isinstance(test, ast.Compare) and len(test.ops) == 1 and isinstance(test.ops[0], ast.Eq) \
            and src(test.comparators[0]) == var and isinstance(test.left, ast.Constant):
        return [test.left.value]
    if isinstance(test, ast.BoolOp) and isinstance(test.op, ast.Or):
        out = []
        for v in test.values:
            l = eq_literals(v, var)
            if l is None:
                return None
            out.extend(l)
        return out
    return None


def assigned_names(node):
    out = set()
    for n in ast.walk(node):
        if isinstance(n, (ast.Assign,)):
            for t in n.targets:
                for x in ast.walk(t):
                    if isinstance(x, ast.Name):
                        out.add(x.id)
        elif isinstance(n, (ast.AugAssign, ast.AnnAssign)):
            if isinstance(n.target, ast.Name) and (not isinstance(n, ast.AnnAssign) or n.value is not None):
                out.add(n.target.id)
        elif isinstance(n, ast.For):
            for x in ast.walk(n.target):
                if isinstance(x, ast.Name):
                    out.add(x.id)
    return out


def find_loops(fdef, over=None):
    out = []
    for n in walk_no_nested_defs(fdef):
        if isinstance(n, (ast.For, ast.While)):
            if over is None or (isinstance(n, ast.For) and src(n.iter) == over):
                out.append(n)
    out.sort(key=lambda c: c.lineno)
    return out


def names_in(node):
    return {n.id for n in ast.walk(node) if isinstance(n, ast.Name)}


def need(cond, msg):
    if not cond:
        raise AnalysisError(msg)


def stmt_key(node):
    """Position-free key for a statement / expression (normalised text)."""
    return ' '.join(src(node).split())
