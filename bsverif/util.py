"""Small syntax-tree helpers shared by the rules."""
import ast

from .front import AnalysisError, src


def walk_no_nested_defs(node):
    """ast.walk that does not descend into nested function/class definitions."""
    todo = list(ast.iter_child_nodes(node))
    while todo:
        n = todo.pop()
        yield n
        if isinstance(n, (ast.FunctionDef, ast.ClassDef, ast.Lambda)):
            continue
        todo.extend(ast.iter_child_nodes(n))


def calls_in(node, name=None, suffix=None):
    out = []
    for n in ast.walk(node):
        if isinstance(n, ast.Call):
            t = src(n.func)
            if name is not None and t != name:
                continue
            if suffix is not None and not (t == suffix or t.endswith('.' + suffix)):
                continue
            out.append(n)
    out.sort(key=lambda c: (c.lineno, c.col_offset))
    return out


def call_name(call):
    return src(call.func)


def last_attr(call):
    f = call.func
    if isinstance(f, ast.Attribute):
        return f.attr
    if isinstance(f, ast.Name):
        return f.id
    return None


def strip_cast(n):
    while isinstance(n, ast.Call) and isinstance(n.func, ast.Name) and n.func.id == '__cast__' and len(n.args) == 2:
        n = n.args[1]
    return n


def is_const(n, value=None):
    if not isinstance(n, ast.Constant):
        return False
    return value is None or (n.value == value and type(n.value) is type(value))


def const_num(n):
    """numeric value of a (possibly negated) constant, else None"""
    if isinstance(n, ast.Constant) and isinstance(n.value, (int, float)) and not isinstance(n.value, bool):
        return n.value
    if isinstance(n, ast.UnaryOp) and isinstance(n.op, ast.USub):
        v = const_num(n.operand)
        return -v if v is not None else None
    return None


def if_chain(stmt):
    """Flatten if/elif/else: list of (test or None, body)."""
    out = []
    cur = stmt
    while True:
        out.append((cur.test, cur.body))
        if len(cur.orelse) == 1 and isinstance(cur.orelse[0], ast.If):
            cur = cur.orelse[0]
            continue
        if cur.orelse:
            out.append((None, cur.orelse))
        break
    return out


def string_dispatch(stmts, var):
    """For an if/elif chain testing `var == 'lit'` (or `var in [..]`): {literal: body}; '' -> else body.

    Returns (table, else_body or None, the If node) for the first such chain in stmts, or None."""
    for s in stmts:
        if isinstance(s, ast.If):
            table = {}
            other = None
            ok = False
            for test, body in if_chain(s):
                if test is None:
                    other = body
                    continue
                lits = eq_literals(test, var)
                if lits is None:
                    continue
                ok = True
                for l in lits:
                    table.setdefault(l, body)
            if ok:
                return table, other, s
    return None


def eq_literals(test, var):
    """`var == 'a'`, `var in ['a','b']`, `var == 'a' or var == 'b'` -> list of literals, else None."""
    if isinstance(test, ast.Compare) and len(test.ops) == 1 and src(test.left) == var:
        c = test.comparators[0]
        if isinstance(test.ops[0], ast.Eq) and isinstance(c, ast.Constant):
            return [c.value]
        if isinstance(test.ops[0], ast.In) and isinstance(c, (ast.List, ast.Tuple, ast.Set)) \
                and all(isinstance(e, ast.Constant) for e in c.elts):
            return [e.value for e in c.elts]
    if isinstance(test, ast.Compare) and len(test.ops) == 1 and isinstance(test.ops[0], ast.Eq) \
            and src(test.comparators[0]) == var and isinstance(test.left, ast.Constant):
        return [test.left.value]
    if isinstance(test, ast.BoolOp) and isinstance(test.op, ast.Or):
        out = []
        for v in test.values:
            l = eq_literals(v, var)
            if l is None:
                return None
            out.extend(l)
        return out
    return None


def assigned_names(node):
    out = set()
    for n in ast.walk(node):
        if isinstance(n, (ast.Assign,)):
            for t in n.targets:
                for x in ast.walk(t):
                    if isinstance(x, ast.Name):
                        out.add(x.id)
        elif isinstance(n, (ast.AugAssign, ast.AnnAssign)):
            if isinstance(n.target, ast.Name) and (not isinstance(n, ast.AnnAssign) or n.value is not None):
                out.add(n.target.id)
        elif isinstance(n, ast.For):
            for x in ast.walk(n.target):
                if isinstance(x, ast.Name):
                    out.add(x.id)
    return out


def find_loops(fdef, over=None):
    out = []
    for n in walk_no_nested_defs(fdef):
        if isinstance(n, (ast.For, ast.While)):
            if over is None or (isinstance(n, ast.For) and src(n.iter) == over):
                out.append(n)
    out.sort(key=lambda c: c.lineno)
    return out


def names_in(node):
    return {n.id for n in ast.walk(node) if isinstance(n, ast.Name)}


def need(cond, msg):
    if not cond:
        raise AnalysisError(msg)


def stmt_key(node):
    """Position-free key for a statement / expression (normalised text)."""
    return ' '.join(src(node).split())


# ---------------------------------------------------------------------------------------
# canonical forms (so that harmless rewrites compare equal)
# ---------------------------------------------------------------------------------------

_FLIP = {ast.Gt: ast.Lt, ast.GtE: ast.LtE, ast.Lt: ast.Gt, ast.LtE: ast.GtE, ast.Eq: ast.Eq, ast.NotEq: ast.NotEq}
_SYM = {ast.Lt: '<', ast.LtE: '<=', ast.Eq: '==', ast.NotEq: '!=', ast.Gt: '>', ast.GtE: '>=', ast.In: 'in', ast.NotIn: 'not in',
        ast.Is: 'is', ast.IsNot: 'is not'}


def canon_test(n):
    """Canonical text of a condition: comparisons oriented with < / <= (a >= b is written b <= a), == and != with sorted operands,
    operands of and/or sorted, `not` pushed into comparisons.  Blank-free."""
    if isinstance(n, ast.BoolOp):
        parts = sorted(canon_test(v) for v in n.values)
        return '(' + (' and ' if isinstance(n.op, ast.And) else ' or ').join(parts) + ')'
    if isinstance(n, ast.UnaryOp) and isinstance(n.op, ast.Not):
        o = n.operand
        if isinstance(o, ast.UnaryOp) and isinstance(o.op, ast.Not):
            return canon_test(o.operand)
        if isinstance(o, ast.Compare) and len(o.ops) == 1:
            neg = {ast.Lt: ast.GtE, ast.LtE: ast.Gt, ast.Gt: ast.LtE, ast.GtE: ast.Lt, ast.Eq: ast.NotEq, ast.NotEq: ast.Eq, ast.In: ast.NotIn,
                   ast.NotIn: ast.In, ast.Is: ast.IsNot, ast.IsNot: ast.Is}.get(type(o.ops[0]))
            if neg is not None:
                return canon_test(ast.Compare(left=o.left, ops=[neg()], comparators=o.comparators))
        return 'not ' + canon_test(o)
    if isinstance(n, ast.Compare) and len(n.ops) == 1:
        op = type(n.ops[0])
        l, r = src(n.left).replace(' ', ''), src(n.comparators[0]).replace(' ', '')
        if op in (ast.Gt, ast.GtE):
            l, r, op = r, l, _FLIP[op]
        if op in (ast.Eq, ast.NotEq) and r < l:
            l, r = r, l
        return '%s%s%s' % (l, _SYM.get(op, '?'), r)
    return src(n).replace(' ', '')


def aug_form(stmt):
    """(target node, op class, value node) for `t op= v`, `t = t op v` and (commutative op) `t = v op t`; else None."""
    if isinstance(stmt, ast.AugAssign):
        return stmt.target, type(stmt.op), stmt.value
    if isinstance(stmt, ast.Assign) and len(stmt.targets) == 1 and isinstance(stmt.value, ast.BinOp):
        t, v = stmt.targets[0], stmt.value
        if src(v.left) == src(t):
            return t, type(v.op), v.right
        if src(v.right) == src(t) and isinstance(v.op, (ast.Add, ast.Mult)):
            return t, type(v.op), v.left
    return None


def single_defs(fdef):
    """name -> value node for locals assigned at exactly one site (by a plain assignment)"""
    sites = {}
    for n in walk_no_nested_defs(fdef):
        if isinstance(n, ast.Assign):
            for t in n.targets:
                for x in ast.walk(t):
                    if isinstance(x, ast.Name) and isinstance(x.ctx, ast.Store):
                        sites.setdefault(x.id, []).append(n.value if isinstance(t, ast.Name) and len(n.targets) == 1 else None)
        elif isinstance(n, ast.AnnAssign) and n.value is not None and isinstance(n.target, ast.Name):
            sites.setdefault(n.target.id, []).append(n.value)
        elif isinstance(n, ast.AugAssign) and isinstance(n.target, ast.Name):
            sites.setdefault(n.target.id, []).append(None)
        elif isinstance(n, ast.For):
            for x in ast.walk(n.target):
                if isinstance(x, ast.Name):
                    sites.setdefault(x.id, []).append(None)
    out = {}
    for k, v in sites.items():
        if any(x is None for x in v):
            continue
        real = [x for x in v if not isinstance(x, ast.Constant)]      # a constant initialiser of a C declaration is not a second definition
        if len(real) == 1:
            out[k] = real[0]
        elif len(v) == 1:
            out[k] = v[0]
    return out


def resolve_alias(node, defs, depth=3):
    """follow a Name through single-site definitions (and casts) to the expression it stands for"""
    n = strip_cast(node)
    while depth > 0 and isinstance(n, ast.Name) and n.id in defs:
        n = strip_cast(defs[n.id])
        depth -= 1
    return n


def _always_exits(stmts):
    return bool(stmts) and isinstance(stmts[-1], (ast.Return, ast.Raise, ast.Break, ast.Continue))


def guards_of(node, stop):
    """Canonical conditions that hold whenever `node` executes inside `stop` (a FunctionDef or loop): tests of enclosing ifs (negated for
    the else side) and negations of earlier guard clauses (`if c: return/raise/break/continue`) in the enclosing blocks."""
    out = set()

    def add(t, positive):
        # a conjunction that holds contributes its conjuncts; a disjunction that fails contributes the negations of its disjuncts
        if positive and isinstance(t, ast.BoolOp) and isinstance(t.op, ast.And):
            for v in t.values:
                add(v, True)
        elif not positive and isinstance(t, ast.BoolOp) and isinstance(t.op, ast.Or):
            for v in t.values:
                add(v, False)
        elif isinstance(t, ast.UnaryOp) and isinstance(t.op, ast.Not):
            add(t.operand, not positive)
        else:
            out.add(canon_test(t if positive else ast.UnaryOp(op=ast.Not(), operand=t)))
    cur = node
    while cur is not stop and cur is not None:
        par = getattr(cur, '_parent', None)
        if par is None:
            break
        for fld in ('body', 'orelse', 'finalbody'):
            blk = getattr(par, fld, None)
            if isinstance(blk, list) and cur in blk:
                if isinstance(par, ast.If):
                    add(par.test, fld == 'body')
                for prev in blk[:blk.index(cur)]:
                    if isinstance(prev, ast.If) and _always_exits(prev.body) and not prev.orelse:
                        add(prev.test, False)
                    elif isinstance(prev, ast.If) and prev.orelse and _always_exits(prev.orelse) and not _always_exits(prev.body):
                        add(prev.test, True)
        cur = par
    return out


def inline(node, defs, depth=3):
    """copy of `node` with every Name that has a single-site definition replaced by that definition (recursively, bounded)"""
    import copy

    class T(ast.NodeTransformer):
        def __init__(self, d):
            self.d = d

        def visit_Name(self, n):
            if isinstance(n.ctx, ast.Load) and n.id in defs and self.d > 0:
                return T(self.d - 1).visit(copy.deepcopy(strip_cast(defs[n.id])))
            return n
    return T(depth).visit(copy.deepcopy(node))


def canon_expr(n):
    """blank-free text of an arithmetic expression with the operands of + chains and * chains sorted"""
    def flat(x, op):
        if isinstance(x, ast.BinOp) and isinstance(x.op, op):
            return flat(x.left, op) + flat(x.right, op)
        return [x]
    if isinstance(n, ast.BinOp) and isinstance(n.op, (ast.Add, ast.Mult)):
        parts = sorted(canon_expr(p) for p in flat(n, type(n.op)))
        return '(' + ('+' if isinstance(n.op, ast.Add) else '*').join(parts) + ')'
    return src(n).replace(' ', '')


PURE_METHODS = ('keys', 'values', 'items', 'size', 'lower', 'upper', 'strip')     # argument-free reads
PURE_CALLS = ('__cast__', 'len', 'int', 'float', 'abs', 'min', 'max', 'str', 'bool')    # no side effect, no new mutable object


def inline_pure_temps(fdef):
    """Copy of a function in which single-site local temporaries that merely name a side-effect-free expression
    (`coef = U[s, r] + D[s, r]`, `amount = self.queue[r, t]`) are replaced by that expression and their definitions dropped.
    Only done when it cannot change the meaning: the temporary is bound exactly once, by a plain assignment whose value contains no
    call (casts aside); all its uses lie in the innermost loop body (or the function body) that contains the definition; and nothing
    the value reads (names, attribute chains, subscripted arrays) is stored to inside that block.  Rules that compare statement
    texts call this first, so that naming a sub-expression is not mistaken for a change."""
    import copy
    defs = single_defs(fdef)
    txt = lambda x: ast.unparse(x).replace(' ', '')

    def stores_in(block, skip):
        out = set()
        for n in ast.walk(block):
            if n is skip:
                continue
            if isinstance(n, (ast.Assign, ast.AugAssign, ast.AnnAssign)) and not (isinstance(n, ast.AnnAssign) and n.value is None):
                for t in (n.targets if isinstance(n, ast.Assign) else [n.target]):
                    for el in (t.elts if isinstance(t, (ast.Tuple, ast.List)) else [t]):
                        b_ = el
                        while isinstance(b_, ast.Subscript):     # only the stored-into object, not what its index expression reads
                            b_ = b_.value
                            out.add(txt(b_))
                        if isinstance(el, (ast.Name, ast.Attribute)):
                            out.add(txt(el))
            elif isinstance(n, ast.For) and n is not block:
                for x in ast.walk(n.target):
                    if isinstance(x, (ast.Name, ast.Attribute)):
                        out.add(txt(x))
        return out
    chosen = {}
    for n in walk_no_nested_defs(fdef):
        if not (isinstance(n, ast.Assign) and len(n.targets) == 1 and isinstance(n.targets[0], ast.Name)):
            continue
        name = n.targets[0].id
        if defs.get(name) is not n.value:
            continue
        v = strip_cast(n.value)
        if isinstance(v, (ast.Constant, ast.List, ast.Dict, ast.Set, ast.Name)):
            continue
        if any(isinstance(x, ast.Name) and x.id == name for x in ast.walk(v)):
            continue        # defined in terms of itself (an argument that is normalised in place)
        def pure_call(x):
            if isinstance(x.func, ast.Name):
                return x.func.id in PURE_CALLS
            if isinstance(x.func, ast.Attribute) and not x.keywords:
                a_ = x.func.attr
                return (a_ in PURE_METHODS and not x.args) or a_.startswith('get_') or a_.startswith('py_get_')
            return False
        if any(isinstance(x, ast.Call) and not pure_call(x) for x in ast.walk(v)):
            continue
        blk = getattr(n, '_parent', None)
        while blk is not None and blk is not fdef and not isinstance(blk, (ast.For, ast.While)):
            blk = getattr(blk, '_parent', None)
        if blk is None:
            blk = fdef
        uses_all = [x for x in walk_no_nested_defs(fdef) if isinstance(x, ast.Name) and x.id == name and isinstance(x.ctx, ast.Load)]
        uses_in = [x for x in ast.walk(blk) if isinstance(x, ast.Name) and x.id == name and isinstance(x.ctx, ast.Load)]
        if not uses_all or len(uses_all) != len(uses_in):
            continue
        reads = set()
        for x in ast.walk(v):
            if isinstance(x, ast.Subscript):
                reads.add(txt(x.value))
            elif isinstance(x, (ast.Name, ast.Attribute)):
                reads.add(txt(x))
        # stores that matter: those that can run between the definition and a use.  When the definition and all uses sit in one
        # statement list, only the statements from the definition to the last use count (simple use statements cannot store before
        # they read); otherwise the whole block counts.
        span_stores = None
        par = getattr(n, '_parent', None)
        for fld in ('body', 'orelse', 'finalbody'):
            lst = getattr(par, fld, None)
            if isinstance(lst, list) and n in lst:
                idxs = []
                for u in uses_all:
                    a_ = u
                    while a_ is not None and a_ not in lst:
                        a_ = getattr(a_, '_parent', None)
                    if a_ is None:
                        idxs = None
                        break
                    idxs.append(lst.index(a_))
                if idxs and min(idxs) > lst.index(n):
                    span_stores = set()
                    for st_ in lst[lst.index(n) + 1:max(idxs) + 1]:
                        simple_use = lst.index(st_) in idxs and isinstance(st_, (ast.Assign, ast.AugAssign, ast.Expr, ast.Return, ast.AnnAssign))
                        if simple_use:
                            continue
                        span_stores |= stores_in(st_, n)
        conflict = reads & (span_stores if span_stores is not None else stores_in(blk, n))
        # a local that is itself bound exactly once cannot change between this definition and its uses
        if conflict - {nm for nm, vv in defs.items() if vv is not None}:
            continue
        chosen[name] = n.value
    if not chosen:
        return fdef
    new = copy.deepcopy(fdef)

    class T(ast.NodeTransformer):
        def visit_Name(self, n):
            if isinstance(n.ctx, ast.Load) and n.id in chosen:
                return T().visit(copy.deepcopy(strip_cast(chosen[n.id])))
            return n

        def generic_visit(self, node):
            for field, old in ast.iter_fields(node):
                if isinstance(old, list):
                    keep = []
                    for x in old:
                        if isinstance(x, ast.Assign) and len(x.targets) == 1 and isinstance(x.targets[0], ast.Name) and x.targets[0].id in chosen:
                            continue
                        if isinstance(x, ast.AnnAssign) and isinstance(x.target, ast.Name) and x.target.id in chosen and x.value is None:
                            continue
                        if isinstance(x, ast.AST):
                            x = self.visit(x)
                        keep.append(x)
                    if field in ('body', 'orelse') and not keep and old and field == 'body':
                        keep = [ast.Pass()]
                    setattr(node, field, keep)
                elif isinstance(old, ast.AST):
                    setattr(node, field, self.visit(old))
            return node
    new = T().visit(new)
    ast.fix_missing_locations(new)
    for node in ast.walk(new):
        for ch in ast.iter_child_nodes(node):
            ch._parent = node
    new._parent = getattr(fdef, '_parent', None)
    return new


def self_stores(fn):
    """assignments to attributes of `self` (or entries of them) and global declarations inside a method"""
    out = []
    for node in ast.walk(fn):
        if isinstance(node, (ast.Assign, ast.AugAssign, ast.AnnAssign)):
            for t in (node.targets if isinstance(node, ast.Assign) else [node.target]):
                base = t
                while isinstance(base, ast.Subscript):
                    base = base.value
                if isinstance(base, ast.Attribute) and ast.unparse(base).startswith('self.'):
                    out.append(node)
        elif isinstance(node, ast.Global):
            out.append(node)
    return out


def _src(n):
    return ast.unparse(n)


def complete_memo(fn, store):
    """None if `store` (an assignment to an attribute inside an evaluation method) is part of a memo whose key is complete:
    it sits under `if <input> != self.<saved> or ...:` and every argument-derived value that the stored expression reads is compared
    in that test (directly or as the saved copy being refreshed).  Otherwise the reason why it is not."""
    defs = {n_: v_ for n_, v_ in single_defs(fn).items() if v_ is not None}
    guard = getattr(store, '_parent', None)
    while guard is not None and not isinstance(guard, ast.If):
        if isinstance(guard, (ast.For, ast.While, ast.FunctionDef)):
            guard = None
            break
        guard = getattr(guard, '_parent', None)
    if guard is None or store not in guard.body:
        return 'not part of a guarded memo'
    test = inline(guard.test, defs)
    disj = test.values if isinstance(test, ast.BoolOp) and isinstance(test.op, ast.Or) else [test]
    keyed = set()
    for d in disj:
        if not (isinstance(d, ast.Compare) and len(d.ops) == 1 and isinstance(d.ops[0], ast.NotEq)):
            return 'the guard `%s` is not a disjunction of input != saved-copy tests' % _src(guard.test)
        for side in (d.left, d.comparators[0]):
            if not _src(side).startswith('self.'):
                keyed.add(_src(side).replace(' ', ''))
    args = {a.arg for a in fn.args.args[1:]}
    val = inline(store.value, defs) if isinstance(store, ast.Assign) else None
    if val is None:
        return 'not a plain assignment'
    needs = set()
    for n_ in ast.walk(val):
        if isinstance(n_, ast.Subscript) and isinstance(n_.value, ast.Name) and n_.value.id in args:
            needs.add(_src(n_).replace(' ', ''))
        elif isinstance(n_, ast.Name) and n_.id in args and not isinstance(getattr(n_, '_parent', None), ast.Subscript):
            needs.add(n_.id)
    # a saved copy (self.last_x = x) needs only itself in the key
    missing = sorted(x for x in needs if not any(x == k_ or x in k_ for k_ in keyed))
    if missing:
        return 'the stored value depends on %s, which the guard does not compare' % ', '.join(missing)
    return None




def hidden_state_stores(fn):
    """self-stores and global declarations of a method that are not part of a memo with a complete key"""
    out = []
    for st in self_stores(fn):
        if isinstance(st, ast.Global) or complete_memo(fn, st) is not None:
            out.append(st)
    return out


def inline_tail_self_calls(f, methods, depth=2):
    """`return self.m(a, b)` where m is another method of the same class -> m's body with its parameters replaced by the argument
    expressions (names or constants only) and its locals renamed.  A tail call: whatever m returns is what f returns there."""
    import copy

    def subst(body, mapping, prefix, local):
        class R(ast.NodeTransformer):
            def visit_Name(self, n):
                if n.id in mapping and isinstance(n.ctx, ast.Load):
                    return ast.copy_location(copy.deepcopy(mapping[n.id]), n)
                if n.id in local:
                    return ast.copy_location(ast.Name(id=prefix + n.id, ctx=n.ctx), n)
                return n
        return [R().visit(copy.deepcopy(st)) for st in body]

    def rewrite(stmts, level):
        out = []
        for st in stmts:
            if isinstance(st, ast.Return) and isinstance(st.value, ast.Call) and isinstance(st.value.func, ast.Attribute) \
                    and src(st.value.func.value) == 'self' and st.value.func.attr in methods and st.value.func.attr != f.name \
                    and not st.value.keywords and level < depth and all(isinstance(a, (ast.Name, ast.Constant)) for a in st.value.args):
                g = methods[st.value.func.attr]
                params = [a.arg for a in g.args.args[1:]]
                if len(params) == len(st.value.args) and not g.args.vararg and not g.args.kwarg:
                    mapping = dict(zip(params, st.value.args))
                    local = {n.id for n in ast.walk(g) if isinstance(n, ast.Name) and isinstance(n.ctx, ast.Store)} - set(params)
                    stores_param = any(isinstance(n, ast.Name) and isinstance(n.ctx, ast.Store) and n.id in params for n in ast.walk(g))
                    if not stores_param:
                        body = subst(g.body, mapping, '_%s_' % g.name, local)
                        for b_ in body:
                            for x in ast.walk(b_):
                                if not hasattr(x, 'lineno'):
                                    ast.copy_location(x, st)
                        out.extend(rewrite(body, level + 1))
                        continue
            for fld in ('body', 'orelse', 'finalbody'):
                if hasattr(st, fld) and isinstance(getattr(st, fld), list) and getattr(st, fld) and isinstance(getattr(st, fld)[0], ast.stmt):
                    st = copy.copy(st)
                    setattr(st, fld, rewrite(getattr(st, fld), level))
            out.append(st)
        return out
    if not any(isinstance(n, ast.Return) and isinstance(n.value, ast.Call) and isinstance(n.value.func, ast.Attribute)
               and src(n.value.func.value) == 'self' and n.value.func.attr in methods for n in ast.walk(f)):
        return f
    g = copy.copy(f)
    g.body = rewrite(f.body, 0)
    ast.fix_missing_locations(g)
    return g


def _expand_elements(rv, consts, k):
    """`X[lo:hi]`, `tuple(E for i in range(lo, hi))`, `[E for i in range(lo, hi)]` with integer bounds that are constant once the
    names in `consts` are replaced -> ast.Tuple of the k elements; None if the expression is of another form or another length."""
    import copy

    class Sub(ast.NodeTransformer):
        def __init__(self, m):
            self.m = m

        def visit_Name(self, n):
            if isinstance(n.ctx, ast.Load) and n.id in self.m:
                return ast.copy_location(copy.deepcopy(self.m[n.id]), n)
            return n

    def const_int(e):
        e = Sub(consts).visit(copy.deepcopy(e))
        if any(not isinstance(x, (ast.Expression, ast.BinOp, ast.UnaryOp, ast.Constant, ast.operator, ast.unaryop, ast.expr_context)) for x in ast.walk(e)):
            return None
        try:
            v = eval(compile(ast.fix_missing_locations(ast.Expression(body=e)), '<const>', 'eval'), {'__builtins__': {}})
        except Exception:
            return None
        return v if isinstance(v, int) and not isinstance(v, bool) else None
    if isinstance(rv, ast.Subscript) and isinstance(rv.slice, ast.Slice) and rv.slice.step is None and rv.slice.lower is not None and rv.slice.upper is not None:
        lo, hi = const_int(rv.slice.lower), const_int(rv.slice.upper)
        if lo is None or hi is None or lo < 0 or hi - lo != k:
            return None
        return ast.Tuple(elts=[ast.Subscript(value=copy.deepcopy(rv.value), slice=ast.Constant(value=i), ctx=ast.Load()) for i in range(lo, hi)], ctx=ast.Load())
    gen = None
    if isinstance(rv, ast.Call) and isinstance(rv.func, ast.Name) and rv.func.id in ('tuple', 'list') and len(rv.args) == 1 and not rv.keywords \
            and isinstance(rv.args[0], (ast.GeneratorExp, ast.ListComp)):
        gen = rv.args[0]
    elif isinstance(rv, ast.ListComp):
        gen = rv
    if gen is not None and len(gen.generators) == 1 and not gen.generators[0].ifs and isinstance(gen.generators[0].target, ast.Name):
        it = gen.generators[0].iter
        if isinstance(it, ast.Call) and isinstance(it.func, ast.Name) and it.func.id == 'range' and 1 <= len(it.args) <= 2 and not it.keywords:
            b = [const_int(a_) for a_ in it.args]
            if any(x is None for x in b):
                return None
            lo, hi = (0, b[0]) if len(b) == 1 else b
            if hi - lo != k:
                return None
            var = gen.generators[0].target.id
            return ast.Tuple(elts=[Sub({var: ast.Constant(value=i)}).visit(copy.deepcopy(gen.elt)) for i in range(lo, hi)], ctx=ast.Load())
    return None


def inline_helper_calls(f, methods, depth=2):
    """`t = self.h(a, *b[1:3])` / `t1, t2 = self.h(...)` where h is another method of the same class whose body ends in its only
    `return` -> h's body in place (parameters bound to the arguments, locals renamed), then the assignment from the returned
    expression(s).  Only statement-level calls with positional arguments are rewritten."""
    import copy

    def expand_args(call):
        out = []
        for a in call.args:
            if isinstance(a, ast.Starred):
                v = a.value
                if isinstance(v, ast.Subscript) and isinstance(v.slice, ast.Slice) and v.slice.step is None and \
                        isinstance(v.slice.lower, ast.Constant) and isinstance(v.slice.upper, ast.Constant):
                    for i in range(v.slice.lower.value, v.slice.upper.value):
                        out.append(ast.Subscript(value=copy.deepcopy(v.value), slice=ast.Constant(value=i), ctx=ast.Load()))
                else:
                    return None
            else:
                out.append(a)
        return out

    def rewrite(stmts, level):
        out = []
        for st in stmts:
            done = False
            if isinstance(st, ast.Assign) and len(st.targets) == 1 and isinstance(st.value, ast.Call) and isinstance(st.value.func, ast.Attribute) \
                    and src(st.value.func.value) == 'self' and st.value.func.attr in methods and st.value.func.attr != f.name and not st.value.keywords \
                    and level < depth:
                g = methods[st.value.func.attr]
                rets = [n for n in ast.walk(g) if isinstance(n, ast.Return)]
                args = expand_args(st.value)
                params = [a.arg for a in g.args.args[1:]]
                if len(rets) == 1 and g.body and g.body[-1] is rets[0] and args is not None and len(args) <= len(params) \
                        and not g.args.vararg and not g.args.kwarg:
                    n_def = len(g.args.defaults)
                    bound = list(args)
                    ok = True
                    for i in range(len(args), len(params)):
                        j = i - (len(params) - n_def)
                        if j < 0:
                            ok = False
                            break
                        bound.append(copy.deepcopy(g.args.defaults[j]))
                    tg = st.targets[0]
                    rv = rets[0].value
                    if ok and isinstance(tg, (ast.Tuple, ast.List)) and not (isinstance(rv, ast.Tuple) and len(rv.elts) == len(tg.elts)):
                        # a slice with constant bounds / a tuple or list built from a generator over a constant range, once the
                        # constant arguments are put in: the elements are written out
                        rv = _expand_elements(rv, {pn: a for pn, a in zip(params, bound) if isinstance(a, ast.Constant)}, len(tg.elts))
                        if rv is None:
                            ok = False
                    if ok:
                        prefix = '_%s_' % g.name
                        local = {n.id for n in ast.walk(g) if isinstance(n, ast.Name) and isinstance(n.ctx, ast.Store)} | set(params)

                        class R(ast.NodeTransformer):
                            def visit_Name(self, n):
                                if n.id in local:
                                    return ast.copy_location(ast.Name(id=prefix + n.id, ctx=n.ctx), n)
                                return n
                        new = []
                        for pn, a in zip(params, bound):
                            new.append(ast.Assign(targets=[ast.Name(id=prefix + pn, ctx=ast.Store())], value=copy.deepcopy(a), type_comment=None))
                        body = [R().visit(copy.deepcopy(x)) for x in g.body[:-1] if not (isinstance(x, ast.Expr) and isinstance(x.value, ast.Constant))]
                        new.extend(rewrite(body, level + 1))
                        rv2 = R().visit(copy.deepcopy(rv))
                        if isinstance(tg, (ast.Tuple, ast.List)):
                            for t_, e_ in zip(tg.elts, rv2.elts):
                                new.append(ast.Assign(targets=[copy.deepcopy(t_)], value=e_, type_comment=None))
                        else:
                            new.append(ast.Assign(targets=[copy.deepcopy(tg)], value=rv2, type_comment=None))
                        for x in new:
                            ast.copy_location(x, st)
                            for y in ast.walk(x):
                                if not hasattr(y, 'lineno'):
                                    ast.copy_location(y, st)
                        out.extend(new)
                        done = True
            if not done:
                for fld in ('body', 'orelse', 'finalbody'):
                    if hasattr(st, fld) and isinstance(getattr(st, fld), list) and getattr(st, fld) and isinstance(getattr(st, fld)[0], ast.stmt):
                        st = copy.copy(st)
                        setattr(st, fld, rewrite(getattr(st, fld), level))
                out.append(st)
        return out
    if not any(isinstance(n, ast.Assign) and isinstance(n.value, ast.Call) and isinstance(n.value.func, ast.Attribute) and src(n.value.func.value) == 'self'
               and n.value.func.attr in methods for n in ast.walk(f)):
        return f
    g2 = copy.copy(f)
    g2.body = rewrite(f.body, 0)
    ast.fix_missing_locations(g2)
    return g2


def structure_continues(body):
    """Loop body without `continue`: the same control flow with the jump removed.  A `continue` ends the statement list it stands in; an
    `if` that contains one (at any depth, but not inside a nested loop of its own) takes the statements that follow it into both of its
    branches.  For analyses that execute a body as a block."""
    import copy

    def has_continue(st):
        if isinstance(st, ast.Continue):
            return True
        if isinstance(st, (ast.For, ast.While, ast.FunctionDef)):
            return False        # a continue in there belongs to that loop
        for fld in ('body', 'orelse', 'finalbody', 'handlers'):
            for x in getattr(st, fld, None) or []:
                if has_continue(x):
                    return True
        return False

    def elim(stmts):
        out = []
        for i, st in enumerate(stmts):
            if isinstance(st, ast.Continue):
                return out or [ast.Pass()]
            if isinstance(st, ast.If) and has_continue(st):
                rest = stmts[i + 1:]
                new = ast.If(test=st.test, body=elim(list(st.body) + [copy.deepcopy(r) for r in rest]) or [ast.Pass()],
                             orelse=elim(list(st.orelse) + list(rest)) or [ast.Pass()])
                ast.copy_location(new, st)
                out.append(new)
                return out
            if has_continue(st):
                return list(stmts)      # a continue inside try / with: left as it is (the caller reports what it cannot execute)
            out.append(st)
        return out
    return elim(list(body))


def delegation(f, target, n_args=None):
    """Is the body of `f` nothing but one call  self.<target>(p1, p2, ...)  with its own parameters, in order (through C casts, `.data`
    buffers and single-site pure temporaries)?  Returns (ok, detail)."""
    g = inline_pure_temps(f)
    body = [st for st in g.body if not (isinstance(st, ast.Expr) and isinstance(st.value, ast.Constant))
            and not (isinstance(st, ast.AnnAssign) and st.value is None) and not isinstance(st, ast.Pass)]
    if len(body) != 1 or not isinstance(body[0], (ast.Expr, ast.Return)) or not isinstance(body[0].value, ast.Call):
        return False, 'the body is not a single call (%d statements: %s)' % (len(body), '; '.join(stmt_key(b) for b in body[:4]))
    call = body[0].value
    if _src(call.func).replace(' ', '') != 'self.%s' % target:
        return False, 'calls %s, not self.%s' % (_src(call.func), target)
    params = [a.arg for a in g.args.args[1:]]
    if n_args is not None:
        params = params[:n_args]
    if call.keywords or len(call.args) != len(params):
        return False, 'passes %d arguments for the %d parameters %s' % (len(call.args), len(params), params)
    for a, pname in zip(call.args, params):
        a = strip_cast(a)
        if isinstance(a, ast.Attribute) and a.attr == 'data':
            a = a.value
        a = strip_cast(a)
        if not (isinstance(a, ast.Name) and a.id == pname):
            return False, 'argument %s is passed where parameter %s belongs' % (_src(a), pname)
    return True, ''


def split_parallel_assigns(f):
    """Copy of a function in which `a, b = x, y` (same length, no target read by any of the values) is written as `a = x; b = y`."""
    import copy

    class T(ast.NodeTransformer):
        def visit_Assign(self, n):
            if len(n.targets) == 1 and isinstance(n.targets[0], (ast.Tuple, ast.List)) and isinstance(n.value, (ast.Tuple, ast.List)) \
                    and len(n.targets[0].elts) == len(n.value.elts) and all(isinstance(t, ast.Name) for t in n.targets[0].elts):
                names = {t.id for t in n.targets[0].elts}
                if len(names) == len(n.value.elts) and not any(isinstance(x, ast.Name) and x.id in names for v in n.value.elts for x in ast.walk(v)):
                    return [ast.copy_location(ast.Assign(targets=[t], value=v, type_comment=None), n) for t, v in zip(n.targets[0].elts, n.value.elts)]
            return n
    g = T().visit(copy.deepcopy(f))
    ast.fix_missing_locations(g)
    for a_ in ('cy_kind', '_class', '_module', 'cy_cdef'):
        if hasattr(f, a_):
            setattr(g, a_, getattr(f, a_))
    for node in ast.walk(g):
        for ch in ast.iter_child_nodes(node):
            ch._parent = node
    g._parent = getattr(f, '_parent', None)
    return g
