"""Shared model of the stochastic simulator main loops (used by C05 C06 C09 C10 C11 C19)."""
import ast

from . import paths, util
from .front import AnalysisError, src

SIMULATORS = {
    'SSASimulator': ('simulator', 'SSASimulator', 'simulate'),
    'DelaySSASimulator': ('simulator', 'DelaySSASimulator', 'delay_simulate'),
    'VolumeSSASimulator': ('simulator', 'VolumeSSASimulator', 'volume_simulate'),
    'DelayVolumeSSASimulator': ('simulator', 'DelayVolumeSSASimulator', 'delay_volume_simulate'),
}
LINEAGE = ('lineage', 'LineageSSASimulator', 'SimulateSingleCell')


class SimLoop:
    def __init__(self, ctx, key):
        mod, cls, meth = SIMULATORS.get(key) or LINEAGE
        self.key = key
        self.mod = mod
        self.spec = '%s:%s.%s' % (mod, cls, meth)
        self.f = ctx.fn(self.spec, raw=True)      # the loop models follow assignments along paths: analysed as written
        self.ctx = ctx
        loops = [s for s in self.f.body if isinstance(s, ast.While)]
        if len(loops) != 1:
            raise AnalysisError('%s: expected exactly one top-level while loop, found %d' % (self.spec, len(loops)))
        self.loop = loops[0]
        self.pre = self.f.body[:self.f.body.index(self.loop)]
        self.post = self.f.body[self.f.body.index(self.loop) + 1:]
        self.where = ctx.loc(mod, self.loop)
        self._paths = None

    def loc(self, node):
        return self.ctx.loc(self.mod, node)

    def iteration_paths(self):
        """All acyclic paths through one iteration of the main loop (snapshots kept)."""
        if self._paths is None:
            en = paths.Enumerator(assume_nonneg=('Lambda',), snapshot=True,
                                  for_nonempty=('range(num_species)', 'range(num_reactions)'))
            st = paths.State()
            self._paths = en.run(self.loop.body, st, depth=1)
            self.ctx.paths += len(self._paths)
        return self._paths

    def prelude_aliases(self):
        """locals that merely name, once and at the top level of the set-up code, what a getter of the interface / volume / queue
        object returns (`initial_time = sim.get_initial_time()`, `initial_state = sim.get_initial_state()`): reading such a name is
        reading the getter"""
        if getattr(self, '_aliases', None) is None:
            single = util.single_defs(self.f)
            out = {}
            for s in self.pre:
                if isinstance(s, ast.AnnAssign) and isinstance(s.target, ast.Name) and s.value is not None:
                    nm, val = s.target.id, s.value
                elif isinstance(s, ast.Assign) and len(s.targets) == 1 and isinstance(s.targets[0], ast.Name):
                    nm, val = s.targets[0].id, s.value
                else:
                    continue
                v = util.strip_cast(val)
                if single.get(nm) is val and isinstance(v, ast.Call) and isinstance(v.func, ast.Attribute) and isinstance(v.func.value, ast.Name) \
                        and (v.func.attr.startswith('get_') or v.func.attr.startswith('py_get_')) and not v.args and not v.keywords:
                    out[nm] = val
            self._aliases = out
        return self._aliases

    def prelude_assign(self, name, resolve=False):
        """The expression a local is initialised with before the loop (last assignment), or None; with resolve=True getter aliases are read through."""
        val = self._prelude_assign(name)
        if val is None or not resolve or name in self.prelude_aliases():
            return val
        al = self.prelude_aliases()
        if any(isinstance(n, ast.Name) and n.id in al for n in ast.walk(val)):
            new = util.inline(val, al)
            ast.copy_location(new, val)
            return new
        return val

    def _prelude_assign(self, name):
        val = None
        for s in self.pre:
            if isinstance(s, ast.AnnAssign) and isinstance(s.target, ast.Name) and s.target.id == name and s.value is not None:
                val = s.value
            elif isinstance(s, ast.Assign) and any(isinstance(t, ast.Name) and t.id == name for t in s.targets):
                val = s.value
        return val

    def state_name(self):
        """the working state array: the local bound to sim.get_initial_state().copy() (or similar)"""
        for cand in ('c_current_state',):
            if self.prelude_assign(cand) is not None:
                return cand
        raise AnalysisError('%s: working state array not found' % self.spec)


def lambda_rel(ev):
    """relation set between Lambda and 0 recorded at an event ('<','=','>' subset)."""
    st = ev.state
    if st is None:
        raise AnalysisError('snapshots missing')
    for (l, r), v in st.rel.items():
        if l == 'Lambda' and r == '0':
            return v
        if l == '0' and r == 'Lambda':
            return frozenset({'<': '>', '>': '<', '=': '='}[x] for x in v)
    return frozenset('=>')


def is_state_store(stmt, state_name):
    """statement (possibly a loop nest) containing a store into the state array"""
    for n in ast.walk(stmt):
        if isinstance(n, (ast.Assign, ast.AugAssign)):
            tg = n.targets if isinstance(n, ast.Assign) else [n.target]
            for t in tg:
                if isinstance(t, ast.Subscript) and src(t.value) == state_name:
                    return True
    return False


def state_stores(node, state_name):
    out = []
    for n in ast.walk(node):
        if isinstance(n, (ast.Assign, ast.AugAssign)):
            tg = n.targets if isinstance(n, ast.Assign) else [n.target]
            for t in tg:
                if isinstance(t, ast.Subscript) and src(t.value) == state_name:
                    out.append(n)
    return out


def _func_of(node):
    cur = node
    while cur is not None and not isinstance(cur, ast.FunctionDef):
        cur = getattr(cur, '_parent', None)
    return cur


def enclosing_fors(node, stop):
    out = []
    cur = getattr(node, '_parent', None)
    while cur is not None and cur is not stop:
        if isinstance(cur, ast.For):
            out.append(cur)
        cur = getattr(cur, '_parent', None)
    return out


def classify_store(store, state_name, loop, species_bound='num_species', reaction_bound='num_reactions'):
    """Classify a store into the state array.

    returns (kind, detail): kind in 'immediate' / 'delayed' / 'queue' / 'other'."""
    af = util.aug_form(store)
    if af is None or af[1] is not ast.Add:
        return 'other', 'not an accumulation: %s' % util.stmt_key(store)
    target, _, value = af
    fdef = _func_of(store)
    defs = util.single_defs(fdef) if fdef is not None else {}
    idx = src(target.slice)
    fors = enclosing_fors(store, loop)
    frange = {src(f.target): src(f.iter) for f in fors}
    if frange.get(idx) != 'range(%s)' % species_bound:
        return 'other', 'species index %s does not range over range(%s)' % (idx, species_bound)
    v = value
    if isinstance(v, ast.Subscript) and isinstance(v.slice, ast.Tuple) and len(v.slice.elts) == 2:
        m, (i, r) = src(v.value), [src(e) for e in v.slice.elts]
        if i != idx:
            return 'other', 'row index %s differs from the species index %s' % (i, idx)
        if r in frange:
            return 'other', 'column %s is a loop variable' % r
        return ('immediate' if 'delay' not in m else 'delayed'), (m, r)
    if isinstance(v, ast.BinOp) and isinstance(v.op, ast.Mult):
        a, b = v.left, v.right
        # an amount read into a temporary (`amt = buf[r]` at one site) stands for that read
        a, b = util.resolve_alias(a, defs), util.resolve_alias(b, defs)
        if isinstance(a, ast.Subscript) and isinstance(b, ast.Subscript) and isinstance(a.slice, ast.Tuple):
            a, b = b, a
        if isinstance(b, ast.Subscript) and isinstance(b.slice, ast.Tuple) and isinstance(a, ast.Subscript):
            m, (i, r) = src(b.value), [src(e) for e in b.slice.elts]
            amt, ar = src(a.value), src(a.slice)
            if i == idx and r == ar and frange.get(r) == 'range(%s)' % reaction_bound:
                return 'queue', (m, amt, r)
            return 'other', 'queue update indices do not match: %s' % util.stmt_key(store)
    return 'other', 'unrecognised state update: %s' % util.stmt_key(store)


def single_precision_decls(f):
    """C declarations of single-precision type (`cdef float x`, `float*`, a float argument) inside a function: values that pass through
    such a variable are rounded to 24 bits"""
    out = []
    for a in f.args.args:
        if isinstance(a.annotation, ast.Constant) and str(a.annotation.value).replace(' ', '') in ('float', 'float*'):
            out.append((a.arg, f))
    for n in ast.walk(f):
        if isinstance(n, ast.AnnAssign) and isinstance(n.annotation, ast.Constant) and isinstance(n.target, ast.Name) and \
                str(n.annotation.value).replace(' ', '') in ('float', 'float*', 'float[:]', 'np.ndarray[np.float32_t,ndim=1]'):
            out.append((n.target.id, n))
        if isinstance(n, ast.Call) and isinstance(n.func, ast.Name) and n.func.id == '__cast__' and isinstance(n.args[0], ast.Constant) and \
                str(n.args[0].value).replace(' ', '') in ('float', 'float*'):
            out.append(('<float> cast', n))
    return out


def event_race(sl):
    """One pass of a simulator main loop evaluated (templates.StrExec) on a table of values: clock c, next requested time point tp,
    total propensity L, sampled waiting time E, next delay-queue time Q, next volume-step time V.  The loop is an event race: the new
    clock is the earliest candidate (the sampled reaction if L > 0; the time point where the loop stops there; the queue; the volume
    clock), and what happens - a reaction is drawn (sample_discrete), a queue slot is delivered (advance_time), a volume step is taken
    (get_volume_step) or nothing - is the candidate that won.  How ties are broken is left open.  Returns (problems, evaluations)."""
    from .templates import StrExec, UNKNOWN
    key = sl.key
    has_q = key in ('DelaySSASimulator', 'DelayVolumeSSASimulator')
    has_v = key in ('VolumeSSASimulator', 'DelayVolumeSSASimulator')
    problems = []
    n = 0
    c = 2.0
    for tp in (2.5, 4.0):
        for L in (0.0, 3.0):
            for E in ((0.1, 1.0, 5.0) if L > 0 else (None,)):
                for Q in ((2.2, 3.0, 9.0) if has_q else (None,)):
                    for V in ((2.3, 3.5, 8.0) if has_v else (None,)):
                        seen = []

                        def hook(nd, ex):
                            nm = src(nd.func).split('.')[-1]
                            if nm == 'array_sum':
                                return L
                            if nm == 'exponential_rv':
                                return E if E is not None else UNKNOWN
                            if nm == 'get_next_queue_time':
                                return Q if Q is not None else UNKNOWN
                            if nm == 'sample_discrete':
                                seen.append('reaction')
                                return 0
                            if nm == 'advance_time':
                                seen.append('queue')
                                return UNKNOWN
                            if nm == 'get_volume_step':
                                seen.append('volume')
                                return 0.0
                            return None
                        # the requested grid is not evenly spaced (supported input): 0, 1, tp, 50 with rows 0 and 1 already recorded
                        grid = [0.0, 1.0, tp, 50.0]
                        env = {'current_time': c, 'c_timepoints': list(grid), 'timepoints': list(grid), 'current_index': 2, 'num_timepoints': 4, 'num_species': 1,
                               'num_reactions': 1, 'delta_t': 1.0, 'dt': 1.0, 'Lambda': 0.0, 'proposed_time': 0.0, 'reaction_fired': 0, 'rule_step': 1,
                               'move_to_queued_time': 0, 'step_type': 0, 'current_volume': 1.0, 'cell_divided': 0, 'final_time': 50.0,
                               'next_queue_time': V if V is not None else 0.0, 'next_vol_time': V if V is not None else 0.0,
                               'next_queued_reaction_time': 0.0, 'computed_delay': 0.0, 'reaction_choice': 0}
                        ex = StrExec(env, tracked=set(), call_hook=hook)
                        try:
                            ex.run(sl.loop.body)
                        except Exception as e:      # _Break / _Continue at the top level of the body: the pass is over
                            if type(e).__name__ not in ('_Break', '_Continue'):
                                raise
                        n += 1
                        new = ex.env.get('current_time')
                        tag = 'clock %s, next time point %s, Lambda %s%s%s%s' % (c, tp, L, '' if E is None else ', waiting time %s' % E,
                                                                              '' if Q is None else ', queue at %s' % Q, '' if V is None else ', volume step at %s' % V)
                        if ex.aborted or not isinstance(new, float):
                            # the pass reads a local carried over from the set-up code or from the pass before: not evaluable in isolation
                            # (event_race_run evaluates the function from its first statement)
                            return None, n
                        cand = {}
                        if L > 0:
                            cand['reaction'] = c + E
                        if L == 0 or key in ('SSASimulator', 'DelaySSASimulator'):
                            cand['timepoint'] = tp
                        if has_q:
                            cand['queue'] = Q
                        if has_v:
                            cand['volume'] = V
                        best = min(cand.values())
                        winners = {k_ for k_, v_ in cand.items() if abs(v_ - best) < 1e-12}
                        acts = [a_ for a_ in seen]
                        if abs(new - best) > 1e-9:
                            problems.append('%s: the clock goes to %s, the earliest event is %s at %s' % (tag, new, '/'.join(sorted(winners)), best))
                        elif len(acts) > 1:
                            problems.append('%s: more than one event is carried out in one pass (%s)' % (tag, acts))
                        elif acts and acts[0] not in winners:
                            problems.append('%s: %s is carried out although %s came first' % (tag, acts[0], '/'.join(sorted(winners))))
                        elif not acts and 'timepoint' not in winners:
                            problems.append('%s: nothing happens although %s is due' % (tag, '/'.join(sorted(winners))))
    return problems, n


def event_race_run(sl, max_passes=14):
    """The simulator function evaluated from its first statement (templates.StrExec): the set-up code, then pass after pass of the main
    loop, on an unevenly spaced grid with a scripted sequence of total propensities and waiting times; the delay queue and the volume
    object are modelled by their clocks.  After every pass the new clock must be the earliest pending event and the event carried out the
    one that won (see event_race).  Returns (problems, passes evaluated)."""
    from .templates import StrExec, UNKNOWN
    key = sl.key
    has_q = key in ('DelaySSASimulator', 'DelayVolumeSSASimulator')
    has_v = key in ('VolumeSSASimulator', 'DelayVolumeSSASimulator')
    grid = [0.0, 1.0, 2.5, 3.0, 6.0]
    Ls = [3.0, 3.0, 0.0, 3.0, 3.0, 3.0, 0.0, 3.0, 3.0, 0.0, 3.0, 3.0, 3.0, 3.0]
    Es = [0.4, 0.3, None, 5.0, 0.2, 0.05, None, 1.7, 0.6, None, 0.15, 2.2, 0.35, 0.9]
    st = {'pass': 0, 'Q': None, 'seen': []}

    def hook(nd, ex):
        nm = src(nd.func).split('.')[-1]
        if nm == 'array_sum':
            return Ls[st['pass']]
        if nm == 'exponential_rv':
            e_ = Es[st['pass']]
            return e_ if e_ is not None else UNKNOWN
        if nm == 'get_initial_time':
            return 0.0
        if nm == 'get_dt':
            return 1.0
        if nm == 'get_volume':
            return 1.0
        if nm == 'cell_divided':
            return 0
        if nm == 'set_current_time' and nd.args:
            t_ = ex.ev(nd.args[0])
            st['Q'] = (t_ + 1.0) if isinstance(t_, float) else UNKNOWN
            return UNKNOWN
        if nm == 'get_next_queue_time':
            return st['Q'] if st['Q'] is not None else UNKNOWN
        if nm == 'sample_discrete':
            st['seen'].append('reaction')
            return 0
        if nm == 'advance_time':
            st['seen'].append('queue')
            if isinstance(st['Q'], float):
                st['Q'] += 1.0
            return UNKNOWN
        if nm == 'get_volume_step':
            st['seen'].append('volume')
            return 0.0
        if nm == 'compute_delay':
            return 0.7
        return None
    params = [a.arg for a in sl.f.args.args]
    env = {}
    for p_ in params:
        if 'timepoints' in p_:
            env[p_] = list(grid)
    ex = StrExec(env, tracked=set(), call_hook=hook)
    ex.run(sl.pre)
    if ex.aborted:
        raise AnalysisError('%s: set-up code not evaluated (%s)' % (key, ex.aborted))
    if has_q and st['Q'] is None:
        st['Q'] = 1.0
    tp_name = 'c_timepoints' if isinstance(ex.env.get('c_timepoints'), list) else [p_ for p_ in params if 'timepoints' in p_][0]
    vname = 'next_queue_time' if key == 'VolumeSSASimulator' else 'next_vol_time'
    problems = []
    n = 0
    for i in range(max_passes):
        st['pass'] = i
        st['seen'] = []
        t = ex.ev(sl.loop.test)
        if t is UNKNOWN:
            raise AnalysisError('%s: loop condition not evaluated at pass %d' % (key, i))
        if not t:
            break
        c, idx = ex.env.get('current_time'), ex.env.get('current_index')
        V = ex.env.get(vname) if has_v else None
        Q = st['Q'] if has_q else None
        if not isinstance(c, float) or not isinstance(idx, int) or (has_v and not isinstance(V, float)) or (has_q and not isinstance(Q, float)):
            raise AnalysisError('%s: state not determined before pass %d (clock %r, row %r, volume clock %r, queue %r)' % (key, i, c, idx, V, Q))
        tp = grid[idx]
        L, E = Ls[i], Es[i]
        try:
            ex.run(sl.loop.body)
        except Exception as e:
            if type(e).__name__ == '_Break':
                break
            if type(e).__name__ != '_Continue':
                raise
        n += 1
        new = ex.env.get('current_time')
        tag = 'pass %d (clock %s, next time point %s, Lambda %s%s%s%s)' % (i, c, tp, L, '' if E is None else ', waiting time %s' % E,
                                                                          '' if Q is None else ', queue at %s' % Q, '' if V is None else ', volume step at %s' % V)
        if ex.aborted or not isinstance(new, float):
            raise AnalysisError('%s: %s not evaluated (%s, clock %r)' % (key, tag, ex.aborted, new))
        cand = {}
        if L > 0:
            cand['reaction'] = c + E
        if L == 0 or key in ('SSASimulator', 'DelaySSASimulator'):
            cand['timepoint'] = tp
        if has_q:
            cand['queue'] = Q
        if has_v:
            cand['volume'] = V
        best = min(cand.values())
        winners = {k_ for k_, v_ in cand.items() if abs(v_ - best) < 1e-12}
        acts = list(st['seen'])
        if abs(new - best) > 1e-9:
            problems.append('%s: the clock goes to %s, the earliest event is %s at %s' % (tag, new, '/'.join(sorted(winners)), best))
            break
        elif len(acts) > 1:
            problems.append('%s: more than one event is carried out in one pass (%s)' % (tag, acts))
        elif acts and acts[0] not in winners:
            problems.append('%s: %s is carried out although %s came first' % (tag, acts[0], '/'.join(sorted(winners))))
        elif not acts and 'timepoint' not in winners:
            problems.append('%s: nothing happens although %s is due' % (tag, '/'.join(sorted(winners))))
        idx2 = ex.env.get('current_index')
        if isinstance(idx2, int):
            want_idx = len([g_ for g_ in grid if g_ <= new + 1e-12])
            if idx2 != max(idx, want_idx):
                problems.append('%s: %d rows are recorded up to time %s, the grid has %d time points up to there' % (tag, idx2, new, want_idx))
                break
    return problems, n
