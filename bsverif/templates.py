"""A10: string-template extraction - which strings a function can build.

A small evaluator for the statement subset that string-building code uses (assignment,
concatenation, f-strings, if/elif over option values, loops over concrete ranges).  Inputs the
scenario fixes (option values, the shape of the reactant multiset) are concrete; everything that
comes from the model is a *hole*: a named identifier that stands for "whatever id/value the model
supplies here".  The result is the built string with holes written as identifiers, so it can be
parsed as a formula and compared.
A statement that writes a tracked variable under a condition the evaluator cannot decide is an
AnalysisError (never silently skipped).
"""
import ast

from .front import AnalysisError, src


class Hole(str):
    """an identifier-valued unknown; behaves like its own name in string context"""

    def replace(self, *a):
        return self


class Unknown:
    def __repr__(self):
        return 'UNKNOWN'


UNKNOWN = Unknown()


class StrExec:
    def __init__(self, env, tracked, hole_for_subscript=None, call_hook=None, frozen=()):
        self.frozen = set(frozen)
        self.env = dict(env)
        self.tracked = set(tracked)
        self.hole_for_subscript = hole_for_subscript
        self.call_hook = call_hook
        self.defs = {}      # name -> expression text that last defined it
        self.aborted = None

    # -- expressions
    def ev(self, n):
        if isinstance(n, ast.Constant):
            return n.value
        if isinstance(n, ast.Name):
            return self.env.get(n.id, UNKNOWN)
        if isinstance(n, ast.JoinedStr):
            parts = []
            for v in n.values:
                if isinstance(v, ast.Constant):
                    parts.append(str(v.value))
                else:
                    x = self.ev(v.value)
                    if x is UNKNOWN:
                        return UNKNOWN
                    parts.append(str(x))
            return ''.join(parts)
        if isinstance(n, ast.BinOp) and isinstance(n.op, ast.Add):
            a, b = self.ev(n.left), self.ev(n.right)
            if a is UNKNOWN or b is UNKNOWN:
                return UNKNOWN
            if isinstance(a, str) != isinstance(b, str):
                return UNKNOWN
            return a + b
        if isinstance(n, ast.BinOp) and isinstance(n.op, (ast.Sub, ast.Mult)):
            a, b = self.ev(n.left), self.ev(n.right)
            if isinstance(a, (int, float)) and isinstance(b, (int, float)):
                return a - b if isinstance(n.op, ast.Sub) else a * b
            return UNKNOWN
        if isinstance(n, ast.Subscript):
            if self.hole_for_subscript is not None:
                h = self.hole_for_subscript(n, self)
                if h is not None:
                    return h
            if isinstance(n.slice, ast.Slice):
                b = self.ev(n.value)
                lo = self.ev(n.slice.lower) if n.slice.lower is not None else None
                hi = self.ev(n.slice.upper) if n.slice.upper is not None else None
                if isinstance(b, (str, list)) and all(x is None or isinstance(x, int) for x in (lo, hi)) and n.slice.step is None:
                    return b[lo:hi]
                return UNKNOWN
            base, idx = self.ev(n.value), self.ev(n.slice)
            if isinstance(base, (list, tuple, str)) and not isinstance(base, Hole) and isinstance(idx, int):
                return base[idx] if -len(base) <= idx < len(base) else UNKNOWN
            if isinstance(base, dict) and idx in base:
                return base[idx]
            return UNKNOWN
        if isinstance(n, ast.Call):
            if self.call_hook is not None:
                r = self.call_hook(n, self)
                if r is not None:
                    return r
            name = src(n.func)
            if name == 'str' and len(n.args) == 1:
                v = self.ev(n.args[0])
                if v is UNKNOWN or isinstance(v, (str, list, dict)):
                    return v
                return str(v)
            if isinstance(n.func, ast.Attribute) and n.func.attr in ('items', 'keys', 'values') and not n.args:
                d = self.ev(n.func.value)
                if isinstance(d, dict):
                    return [[a, b] for a, b in d.items()] if n.func.attr == 'items' else (list(d) if n.func.attr == 'keys' else list(d.values()))
                return UNKNOWN
            if isinstance(n.func, ast.Attribute) and n.func.attr == 'join' and len(n.args) == 1:
                sep = self.ev(n.func.value)
                seq = self.ev(n.args[0])
                if isinstance(seq, dict):
                    seq = list(seq)
                if isinstance(sep, str) and isinstance(seq, list) and all(isinstance(x, str) for x in seq):
                    return sep.join(seq)
                return UNKNOWN
            if name in ('OrderedDict.fromkeys', 'dict.fromkeys', 'collections.OrderedDict.fromkeys') and len(n.args) >= 1:
                v = self.ev(n.args[0])
                if isinstance(v, dict):
                    v = list(v)
                if isinstance(v, list) and all(isinstance(x, (str, int, float)) for x in v):
                    return {x: None for x in v}
                return UNKNOWN
            if name in ('set', 'frozenset', 'sorted') and len(n.args) == 1 and not n.keywords:
                v = self.ev(n.args[0])
                if isinstance(v, dict):
                    v = list(v)
                if isinstance(v, list) and all(isinstance(x, (str, int, float)) for x in v):
                    u = list(dict.fromkeys(v))
                    return sorted(u) if name == 'sorted' and not any(isinstance(x, Hole) for x in u) else (sorted(v) if name == 'sorted' else u)
                return UNKNOWN
            if name in ('list', 'tuple') and len(n.args) == 1:
                v = self.ev(n.args[0])
                return list(v) if isinstance(v, (list, dict)) else UNKNOWN
            if name == 'len' and len(n.args) == 1:
                v = self.ev(n.args[0])
                return len(v) if isinstance(v, (list, tuple, str, dict)) else UNKNOWN
            if name == 'range':
                a = [self.ev(x) for x in n.args]
                return list(range(*a)) if all(isinstance(x, int) for x in a) else UNKNOWN
            if isinstance(n.func, ast.Attribute) and n.func.attr == 'replace' and len(n.args) == 2:
                v = self.ev(n.func.value)
                a, b = self.ev(n.args[0]), self.ev(n.args[1])
                if isinstance(v, Hole):
                    return v
                if isinstance(v, str) and isinstance(a, str) and isinstance(b, str):
                    return v.replace(a, b)
                return UNKNOWN
            return UNKNOWN
        if isinstance(n, ast.Compare) and len(n.ops) == 1:
            a, b = self.ev(n.left), self.ev(n.comparators[0])
            op = type(n.ops[0])
            if op in (ast.Is, ast.IsNot):
                if b is None and a is not UNKNOWN:
                    return (a is None) if op is ast.Is else (a is not None)
                if a is not UNKNOWN and b is UNKNOWN and src(n.comparators[0]) in ('np.nan',):
                    return op is ast.IsNot
                return UNKNOWN
            if a is UNKNOWN or b is UNKNOWN:
                return UNKNOWN
            try:
                return {ast.Eq: lambda: a == b, ast.NotEq: lambda: a != b, ast.Lt: lambda: a < b, ast.LtE: lambda: a <= b,
                        ast.Gt: lambda: a > b, ast.GtE: lambda: a >= b, ast.In: lambda: a in b, ast.NotIn: lambda: a not in b}[op]()
            except Exception:
                return UNKNOWN
        if isinstance(n, ast.BoolOp):
            vals = [self.ev(v) for v in n.values]
            if isinstance(n.op, ast.And):
                if any(v is False for v in vals):
                    return False
                return UNKNOWN if any(v is UNKNOWN for v in vals) else all(bool(v) for v in vals)
            if any(v is True for v in vals):
                return True
            return UNKNOWN if any(v is UNKNOWN for v in vals) else any(bool(v) for v in vals)
        if isinstance(n, ast.UnaryOp) and isinstance(n.op, ast.Not):
            v = self.ev(n.operand)
            return UNKNOWN if v is UNKNOWN else (not v)
        if isinstance(n, ast.UnaryOp) and isinstance(n.op, ast.USub):
            v = self.ev(n.operand)
            return -v if isinstance(v, (int, float)) else UNKNOWN
        if isinstance(n, (ast.List, ast.Tuple)):
            return [self.ev(e) for e in n.elts]
        if isinstance(n, (ast.ListComp, ast.GeneratorExp)) and len(n.generators) == 1 and not n.generators[0].ifs:
            g = n.generators[0]
            it = self.ev(g.iter)
            if isinstance(it, dict):
                it = list(it)
            if not isinstance(it, list):
                return UNKNOWN
            out = []
            saved = dict(self.env)
            for v in it:
                self.bind(g.target, v)
                out.append(self.ev(n.elt))
            self.env = saved
            return out
        if isinstance(n, ast.Dict):
            if any(k is None for k in n.keys):
                return UNKNOWN
            ks = [self.ev(k) for k in n.keys]
            if any(k is UNKNOWN or isinstance(k, (list, dict)) for k in ks):
                return UNKNOWN
            return {k: self.ev(v) for k, v in zip(ks, n.values)}
        return UNKNOWN

    def bind(self, target, v):
        if isinstance(target, ast.Name):
            self.env[target.id] = v
        elif isinstance(target, (ast.Tuple, ast.List)) and isinstance(v, (list, tuple)) and len(v) == len(target.elts):
            for t, x in zip(target.elts, v):
                self.bind(t, x)

    # -- statements
    def writes_tracked(self, stmts):
        for s in stmts:
            for n in ast.walk(s):
                if isinstance(n, (ast.Assign, ast.AugAssign, ast.AnnAssign)):
                    tg = n.targets if isinstance(n, ast.Assign) else [n.target]
                    for t in tg:
                        if isinstance(t, ast.Name) and t.id in self.tracked:
                            return True
        return False

    def run(self, stmts):
        for s in stmts:
            if self.aborted:
                return
            self.stmt(s)

    def stmt(self, s):
        if isinstance(s, ast.Assign) and len(s.targets) == 1 and isinstance(s.targets[0], ast.Name):
            if s.targets[0].id in self.frozen:
                return
            self.env[s.targets[0].id] = self.ev(s.value)
            self.defs[s.targets[0].id] = src(s.value)
            return
        if isinstance(s, ast.AugAssign) and isinstance(s.target, ast.Name) and isinstance(s.op, ast.Add):
            cur = self.env.get(s.target.id, UNKNOWN)
            v = self.ev(s.value)
            if cur is UNKNOWN or v is UNKNOWN or isinstance(cur, str) != isinstance(v, str):
                if s.target.id in self.tracked:
                    raise AnalysisError('cannot evaluate `%s` (line %s)' % (src(s), s.lineno))
                self.env[s.target.id] = UNKNOWN
            else:
                self.env[s.target.id] = cur + v
            return
        if isinstance(s, ast.If):
            t = self.ev(s.test)
            if t is UNKNOWN:
                if self.writes_tracked(s.body) or self.writes_tracked(s.orelse):
                    raise AnalysisError('a tracked string is written under a condition the template evaluator cannot decide: %s (line %s)'
                                        % (src(s.test), s.lineno))
                return
            self.run(s.body if t else s.orelse)
            return
        if isinstance(s, ast.For):
            it = self.ev(s.iter)
            if isinstance(it, dict):
                it = list(it)
            if it is UNKNOWN or not isinstance(it, (list, tuple)):
                if self.writes_tracked(s.body):
                    raise AnalysisError('a tracked string is written in a loop over an unknown sequence: %s (line %s)' % (src(s.iter), s.lineno))
                return
            for v in it:
                self.bind(s.target, v)
                self.run(s.body)
            return
        if isinstance(s, ast.Raise):
            self.aborted = src(s)
            return
        if isinstance(s, (ast.Expr, ast.Pass, ast.Import, ast.ImportFrom, ast.Return, ast.Assert)):
            return
        if isinstance(s, ast.Assign) and len(s.targets) == 1 and isinstance(s.targets[0], ast.Subscript) and isinstance(s.targets[0].value, ast.Name):
            base = self.env.get(s.targets[0].value.id, UNKNOWN)
            key = self.ev(s.targets[0].slice)
            if isinstance(base, dict) and key is not UNKNOWN and not isinstance(key, (list, dict)):
                base[key] = self.ev(s.value)     # item store into a dict built by this code
            return
        if isinstance(s, (ast.Assign, ast.AugAssign, ast.AnnAssign)):
            return      # other stores into attributes / subscripts are irrelevant to the tracked strings
        if isinstance(s, (ast.While, ast.Try, ast.With)):
            if self.writes_tracked([s]):
                raise AnalysisError('tracked string written inside unsupported statement at line %s' % s.lineno)
            return
