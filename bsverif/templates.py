"""A10: string-template extraction - which strings a function can build.

A small evaluator for the statement subset that string-building code uses (assignment,
concatenation, f-strings, if/elif over option values, loops over concrete ranges).  Inputs the
scenario fixes (option values, the shape of the reactant multiset) are concrete; everything that
comes from the model is a *hole*: a named identifier that stands for "whatever id/value the model
supplies here".  The result is the built string with holes written as identifiers, so it can be
parsed as a formula and compared.
A statement that writes a tracked variable under a condition the evaluator cannot decide is an
AnalysisError (never silently skipped).
"""
import ast

from .front import AnalysisError, src


class Hole(str):
    """an identifier-valued unknown; behaves like its own name in string context"""

    def replace(self, *a):
        return self


class Unknown:
    def __repr__(self):
        return 'UNKNOWN'


UNKNOWN = Unknown()


class StrExec:
    def __init__(self, env, tracked, hole_for_subscript=None, call_hook=None, frozen=()):
        self.frozen = set(frozen)
        self.env = dict(env)
        self.tracked = set(tracked)
        self.hole_for_subscript = hole_for_subscript
        self.call_hook = call_hook
        self.defs = {}      # name -> expression text that last defined it
        self.aborted = None

    # -- expressions
    def ev(self, n):
        if isinstance(n, ast.Constant):
            return n.value
        if isinstance(n, ast.Name):
            return self.env.get(n.id, UNKNOWN)
        if isinstance(n, ast.JoinedStr):
            parts = []
            for v in n.values:
                if isinstance(v, ast.Constant):
                    parts.append(str(v.value))
                else:
                    x = self.ev(v.value)
                    if x is UNKNOWN:
                        return UNKNOWN
                    parts.append(str(x))
            return ''.join(parts)
        if isinstance(n, ast.BinOp) and isinstance(n.op, ast.Add):
            a, b = self.ev(n.left), self.ev(n.right)
            if a is UNKNOWN or b is UNKNOWN:
                return UNKNOWN
            if isinstance(a, str) != isinstance(b, str):
                return UNKNOWN
            return a + b
        if isinstance(n, ast.BinOp) and isinstance(n.op, (ast.Sub, ast.Mult)):
            a, b = self.ev(n.left), self.ev(n.right)
            if isinstance(a, (int, float)) and isinstance(b, (int, float)):
                return a - b if isinstance(n.op, ast.Sub) else a * b
            return UNKNOWN
        if isinstance(n, ast.Subscript):
            if self.hole_for_subscript is not None:
                h = self.hole_for_subscript(n, self)
                if h is not None:
                    return h
            base, idx = self.ev(n.value), self.ev(n.slice) if not isinstance(n.slice, ast.Slice) else UNKNOWN
            if isinstance(base, (list, tuple)) and isinstance(idx, int):
                return base[idx] if -len(base) <= idx < len(base) else UNKNOWN
            if isinstance(base, dict) and idx in base:
                return base[idx]
            return UNKNOWN
        if isinstance(n, ast.Call):
            if self.call_hook is not None:
                r = self.call_hook(n, self)
                if r is not None:
                    return r
            name = src(n.func)
            if name == 'str' and len(n.args) == 1:
                return self.ev(n.args[0])
            if name == 'len' and len(n.args) == 1:
                v = self.ev(n.args[0])
                return len(v) if isinstance(v, (list, tuple, str, dict)) else UNKNOWN
            if name == 'range':
                a = [self.ev(x) for x in n.args]
                return list(range(*a)) if all(isinstance(x, int) for x in a) else UNKNOWN
            if isinstance(n.func, ast.Attribute) and n.func.attr == 'replace' and len(n.args) == 2:
                v = self.ev(n.func.value)
                a, b = self.ev(n.args[0]), self.ev(n.args[1])
                if isinstance(v, Hole):
                    return v
                if isinstance(v, str) and isinstance(a, str) and isinstance(b, str):
                    return v.replace(a, b)
                return UNKNOWN
            return UNKNOWN
        if isinstance(n, ast.Compare) and len(n.ops) == 1:
            a, b = self.ev(n.left), self.ev(n.comparators[0])
            op = type(n.ops[0])
            if op in (ast.Is, ast.IsNot):
                if b is None and a is not UNKNOWN:
                    return (a is None) if op is ast.Is else (a is not None)
                if a is not UNKNOWN and b is UNKNOWN and src(n.comparators[0]) in ('np.nan',):
                    return op is ast.IsNot
                return UNKNOWN
            if a is UNKNOWN or b is UNKNOWN:
                return UNKNOWN
            try:
                return {ast.Eq: lambda: a == b, ast.NotEq: lambda: a != b, ast.Lt: lambda: a < b, ast.LtE: lambda: a <= b,
                        ast.Gt: lambda: a > b, ast.GtE: lambda: a >= b, ast.In: lambda: a in b, ast.NotIn: lambda: a not in b}[op]()
            except Exception:
                return UNKNOWN
        if isinstance(n, ast.BoolOp):
            vals = [self.ev(v) for v in n.values]
            if isinstance(n.op, ast.And):
                if any(v is False for v in vals):
                    return False
                return UNKNOWN if any(v is UNKNOWN for v in vals) else all(bool(v) for v in vals)
            if any(v is True for v in vals):
                return True
            return UNKNOWN if any(v is UNKNOWN for v in vals) else any(bool(v) for v in vals)
        if isinstance(n, ast.UnaryOp) and isinstance(n.op, ast.Not):
            v = self.ev(n.operand)
            return UNKNOWN if v is UNKNOWN else (not v)
        if isinstance(n, (ast.List, ast.Tuple)):
            return [self.ev(e) for e in n.elts]
        if isinstance(n, ast.Dict):
            return UNKNOWN
        return UNKNOWN

    # -- statements
    def writes_tracked(self, stmts):
        for s in stmts:
            for n in ast.walk(s):
                if isinstance(n, (ast.Assign, ast.AugAssign, ast.AnnAssign)):
                    tg = n.targets if isinstance(n, ast.Assign) else [n.target]
                    for t in tg:
                        if isinstance(t, ast.Name) and t.id in self.tracked:
                            return True
        return False

    def run(self, stmts):
        for s in stmts:
            if self.aborted:
                return
            self.stmt(s)

    def stmt(self, s):
        if isinstance(s, ast.Assign) and len(s.targets) == 1 and isinstance(s.targets[0], ast.Name):
            if s.targets[0].id in self.frozen:
                return
            self.env[s.targets[0].id] = self.ev(s.value)
            self.defs[s.targets[0].id] = src(s.value)
            return
        if isinstance(s, ast.AugAssign) and isinstance(s.target, ast.Name) and isinstance(s.op, ast.Add):
            cur = self.env.get(s.target.id, UNKNOWN)
            v = self.ev(s.value)
            if cur is UNKNOWN or v is UNKNOWN or isinstance(cur, str) != isinstance(v, str):
                if s.target.id in self.tracked:
                    raise AnalysisError('cannot evaluate `%s` (line %s)' % (src(s), s.lineno))
                self.env[s.target.id] = UNKNOWN
            else:
                self.env[s.target.id] = cur + v
            return
        if isinstance(s, ast.If):
            t = self.ev(s.test)
            if t is UNKNOWN:
                if self.writes_tracked(s.body) or self.writes_tracked(s.orelse):
                    raise AnalysisError('a tracked string is written under a condition the template evaluator cannot decide: %s (line %s)'
                                        % (src(s.test), s.lineno))
                return
            self.run(s.body if t else s.orelse)
            return
        if isinstance(s, ast.For):
            it = self.ev(s.iter)
            if it is UNKNOWN or not isinstance(it, (list, tuple)):
                if self.writes_tracked(s.body):
                    raise AnalysisError('a tracked string is written in a loop over an unknown sequence: %s (line %s)' % (src(s.iter), s.lineno))
                return
            for v in it:
                if isinstance(s.target, ast.Name):
                    self.env[s.target.id] = v
                self.run(s.body)
            return
        if isinstance(s, ast.Raise):
            self.aborted = src(s)
            return
        if isinstance(s, (ast.Expr, ast.Pass, ast.Import, ast.ImportFrom, ast.Return, ast.Assert)):
            return
        if isinstance(s, (ast.Assign, ast.AugAssign, ast.AnnAssign)):
            return      # stores into attributes / subscripts are irrelevant to the tracked strings
        if isinstance(s, (ast.While, ast.Try, ast.With)):
            if self.writes_tracked([s]):
                raise AnalysisError('tracked string written inside unsupported statement at line %s' % s.lineno)
            return
