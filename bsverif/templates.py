"""A10: string-template extraction - which strings a function can build.

A small evaluator for the statement subset that string-building code uses (assignment,
concatenation, f-strings, if/elif over option values, loops over concrete ranges).  Inputs the
scenario fixes (option values, the shape of the reactant multiset) are concrete; everything that
comes from the model is a *hole*: a named identifier that stands for "whatever id/value the model
supplies here".  The result is the built string with holes written as identifiers, so it can be
parsed as a formula and compared.
A statement that writes a tracked variable under a condition the evaluator cannot decide is an
AnalysisError (never silently skipped).
"""
import ast

from .front import AnalysisError, src


class Hole(str):
    """an identifier-valued unknown; behaves like its own name in string context"""

    def replace(self, *a):
        return self


class Unknown:
    def __repr__(self):
        return 'UNKNOWN'


UNKNOWN = Unknown()
# pure methods of str, applied to concrete text
STR_METHODS = ('find', 'rfind', 'index', 'count', 'split', 'rsplit', 'strip', 'lstrip', 'rstrip', 'startswith', 'endswith', 'isdigit', 'isnumeric',
               'isdecimal', 'isalpha', 'isalnum', 'isidentifier', 'lower', 'upper', 'partition', 'rpartition', 'title', 'capitalize',
               'splitlines', 'removeprefix', 'removesuffix')


class EvalRaise(Exception):
    """the evaluated code raises a Python exception of this class name"""

    def __init__(self, name):
        Exception.__init__(self, name)
        self.name = name


class _Return(Exception):
    def __init__(self, value):
        self.value = value


class _Continue(Exception):
    pass


class _Break(Exception):
    pass


def assigned_names(stmts):
    out = set()
    for s in stmts:
        for n in ast.walk(s):
            if isinstance(n, (ast.Assign, ast.AugAssign, ast.AnnAssign)):
                for t_ in (n.targets if isinstance(n, ast.Assign) else [n.target]):
                    if isinstance(t_, ast.Attribute) and isinstance(t_.value, ast.Name) and t_.value.id == 'self':
                        out.add('self.' + t_.attr)
            tg = []
            if isinstance(n, ast.Assign):
                tg = list(n.targets)
            elif isinstance(n, (ast.AugAssign, ast.AnnAssign)):
                tg = [n.target]
            elif isinstance(n, ast.For):
                tg = [n.target]
            elif isinstance(n, ast.Call) and isinstance(n.func, ast.Attribute) and n.func.attr in ('append', 'extend', 'update', 'pop', 'insert', 'remove', 'clear', 'setdefault'):
                tg = [n.func.value]
            while tg:
                t = tg.pop()
                if isinstance(t, (ast.Tuple, ast.List)):
                    tg = tg + list(t.elts)
                    continue
                if isinstance(t, ast.Starred):
                    tg = tg + [t.value]
                    continue
                for m in ast.walk(t):
                    if isinstance(m, ast.Name):
                        out.add(m.id)
                        break
    return out


class StrExec:
    def __init__(self, env, tracked, hole_for_subscript=None, call_hook=None, frozen=(), functions=None, is_sub=False):
        self.functions = functions or {}    # module-level helpers that calls are followed into
        self.methods = {}                   # methods of the class under evaluation: `self.m(...)` is followed into them
        self.is_sub = is_sub
        self.frozen = set(frozen)
        self.env = dict(env)
        self.tracked = set(tracked)
        self.hole_for_subscript = hole_for_subscript
        self.call_hook = call_hook
        self.defs = {}      # name -> expression text that last defined it
        self.aborted = None
        self.in_try = 0
        self.finished = False
        self.local_names = set()    # names that are local variables of the evaluated function: reading one before any store raises
        self.returned = UNKNOWN
        self.depth = 0
        self.module_names = set()   # names of module-level constants present in env (visible inside helpers)

    # -- expressions
    def ev(self, n):
        if isinstance(n, ast.Constant):
            return n.value
        if isinstance(n, ast.Name):
            if n.id not in self.env and n.id in self.local_names:
                raise EvalRaise('UnboundLocalError')
            return self.env.get(n.id, UNKNOWN)
        if isinstance(n, ast.Attribute) and isinstance(n.value, ast.Name) and n.value.id == 'self':
            return self.env.get('self.' + n.attr, UNKNOWN)
        if isinstance(n, ast.IfExp):
            t = self.ev(n.test)
            if t is UNKNOWN:
                return UNKNOWN
            return self.ev(n.body if t else n.orelse)
        if isinstance(n, ast.JoinedStr):
            parts = []
            for v in n.values:
                if isinstance(v, ast.Constant):
                    parts.append(str(v.value))
                else:
                    x = self.ev(v.value)
                    if x is UNKNOWN:
                        return UNKNOWN
                    parts.append(str(x))
            return ''.join(parts)
        if isinstance(n, ast.BinOp) and isinstance(n.op, ast.Add):
            a, b = self.ev(n.left), self.ev(n.right)
            if a is UNKNOWN or b is UNKNOWN:
                return UNKNOWN
            if isinstance(a, str) != isinstance(b, str):
                other = b if isinstance(a, str) else a
                if isinstance(other, (int, float, list, dict)) or other is None:
                    raise EvalRaise('TypeError')        # text + number
                return UNKNOWN
            return a + b
        if isinstance(n, ast.BinOp) and isinstance(n.op, (ast.Sub, ast.Mult)):
            a, b = self.ev(n.left), self.ev(n.right)
            if isinstance(a, (int, float)) and isinstance(b, (int, float)):
                return a - b if isinstance(n.op, ast.Sub) else a * b
            if isinstance(n.op, ast.Mult) and isinstance(a, list) and isinstance(b, int) and not isinstance(b, bool):
                return list(a) * b
            return UNKNOWN
        if isinstance(n, ast.Subscript) and isinstance(n.value, ast.Attribute) and n.value.attr == 'shape' and isinstance(n.slice, ast.Constant) \
                and n.slice.value == 0 and isinstance(self.ev(n.value.value), list):
            return len(self.ev(n.value.value))      # the length of a sequence that stands for a one-dimensional array
        if isinstance(n, ast.Subscript):
            if self.hole_for_subscript is not None:
                h = self.hole_for_subscript(n, self)
                if h is not None:
                    return h
            if isinstance(n.slice, ast.Slice):
                b = self.ev(n.value)
                lo = self.ev(n.slice.lower) if n.slice.lower is not None else None
                hi = self.ev(n.slice.upper) if n.slice.upper is not None else None
                if isinstance(b, (str, list)) and all(x is None or isinstance(x, int) for x in (lo, hi)) and n.slice.step is None:
                    return b[lo:hi]
                return UNKNOWN
            base, idx = self.ev(n.value), self.ev(n.slice)
            if isinstance(base, (list, tuple, str)) and not isinstance(base, Hole) and isinstance(idx, int):
                return base[idx] if -len(base) <= idx < len(base) else UNKNOWN
            if isinstance(base, dict) and idx is not UNKNOWN and not isinstance(idx, (list, dict)):
                if idx in base:
                    return base[idx]
                raise EvalRaise('KeyError')
            return UNKNOWN
        if isinstance(n, ast.Call):
            if self.call_hook is not None:
                r = self.call_hook(n, self)
                if r is not None:
                    return r
            name = src(n.func)
            if name == 'str' and len(n.args) == 1:
                v = self.ev(n.args[0])
                if v is UNKNOWN or isinstance(v, (str, list, dict)):
                    return v
                return str(v)
            if isinstance(n.func, ast.Attribute) and n.func.attr in ('items', 'keys', 'values') and not n.args:
                d = self.ev(n.func.value)
                if isinstance(d, dict):
                    return [[a, b] for a, b in d.items()] if n.func.attr == 'items' else (list(d) if n.func.attr == 'keys' else list(d.values()))
                return UNKNOWN
            if isinstance(n.func, ast.Attribute) and n.func.attr == 'join' and len(n.args) == 1:
                sep = self.ev(n.func.value)
                seq = self.ev(n.args[0])
                if isinstance(seq, dict):
                    seq = list(seq)
                if isinstance(sep, str) and isinstance(seq, list) and all(isinstance(x, str) for x in seq):
                    return sep.join(seq)
                return UNKNOWN
            if name in ('OrderedDict.fromkeys', 'dict.fromkeys', 'collections.OrderedDict.fromkeys') and len(n.args) >= 1:
                v = self.ev(n.args[0])
                if isinstance(v, dict):
                    v = list(v)
                if isinstance(v, list) and all(isinstance(x, (str, int, float)) for x in v):
                    return {x: None for x in v}
                return UNKNOWN
            if name in ('set', 'frozenset', 'sorted') and len(n.args) == 1 and not n.keywords:
                v = self.ev(n.args[0])
                if isinstance(v, dict):
                    v = list(v)
                if isinstance(v, list) and all(isinstance(x, (str, int, float)) for x in v):
                    u = list(dict.fromkeys(v))
                    return sorted(u) if name == 'sorted' and not any(isinstance(x, Hole) for x in u) else (sorted(v) if name == 'sorted' else u)
                return UNKNOWN
            if isinstance(n.func, ast.Attribute) and n.func.attr == 'copy' and not n.args and not n.keywords:
                v = self.ev(n.func.value)
                if isinstance(v, (list, dict)) and not isinstance(v, Hole):
                    return type(v)(v)
                return UNKNOWN
            if name in ('np.array', 'numpy.array', 'np.asarray', 'np.ascontiguousarray') and len(n.args) >= 1 and isinstance(self.ev(n.args[0]), list):
                return list(self.ev(n.args[0]))     # an array made from a sequence: the same values
            if name in ('math.factorial', 'factorial', 'np.math.factorial', 'scipy.special.factorial', 'math.comb', 'abs', 'min', 'max', 'round') \
                    and n.args and not n.keywords:
                a_ = [self.ev(x_) for x_ in n.args]
                if all(isinstance(x_, (int, float)) and not isinstance(x_, bool) for x_ in a_):
                    import math as _m
                    try:
                        if name.endswith('factorial'):
                            return _m.factorial(int(a_[0])) if len(a_) == 1 and float(a_[0]).is_integer() and a_[0] >= 0 else UNKNOWN
                        if name == 'math.comb':
                            return _m.comb(int(a_[0]), int(a_[1])) if len(a_) == 2 else UNKNOWN
                        return {'abs': abs, 'min': min, 'max': max, 'round': round}[name](*a_)
                    except Exception:
                        return UNKNOWN
            if name in ('np.exp', 'numpy.exp', 'np.log', 'numpy.log') and len(n.args) == 1 and isinstance(self.ev(n.args[0]), list) \
                    and all(isinstance(x_, (int, float)) and not isinstance(x_, bool) for x_ in self.ev(n.args[0])):
                return [Hole('%s(%r)' % (name.split('.')[-1], float(x_))) for x_ in self.ev(n.args[0])]     # elementwise, kept symbolic
            if name in ('list', 'tuple') and len(n.args) == 1:
                v = self.ev(n.args[0])
                return list(v) if isinstance(v, (list, dict)) else UNKNOWN
            if isinstance(n.func, ast.Attribute) and isinstance(n.func.value, ast.Name) and n.func.value.id == 'self' and n.func.attr in self.methods \
                    and not n.keywords:
                return self.call_function(self.methods[n.func.attr], [self.ev(a) for a in n.args], bound=True)
            if name == 'isinstance' and len(n.args) == 2 and not n.keywords:
                v = self.ev(n.args[0])
                tnames = [src(t_) for t_ in (n.args[1].elts if isinstance(n.args[1], ast.Tuple) else [n.args[1]])]
                kinds = {'dict': dict, 'list': list, 'tuple': list, 'str': str, 'int': int, 'float': float, 'bool': bool}
                if v is UNKNOWN or isinstance(v, Hole) or any(t_ not in kinds for t_ in tnames):
                    return UNKNOWN
                return any(isinstance(v, kinds[t_]) and not (kinds[t_] is int and isinstance(v, bool) and t_ == 'int' and False) for t_ in tnames)
            if name == 'zip' and len(n.args) == 2 and not n.keywords:
                a_, b_ = self.ev(n.args[0]), self.ev(n.args[1])
                if isinstance(a_, dict):
                    a_ = list(a_)
                if isinstance(b_, dict):
                    b_ = list(b_)
                if isinstance(a_, list) and isinstance(b_, list):
                    return [[x_, y_] for x_, y_ in zip(a_, b_)]
                return UNKNOWN
            if name == 'enumerate' and len(n.args) == 1 and not n.keywords:
                a_ = self.ev(n.args[0])
                if isinstance(a_, dict):
                    a_ = list(a_)
                return [[i_, x_] for i_, x_ in enumerate(a_)] if isinstance(a_, list) else UNKNOWN
            if name == 'dict' and len(n.args) <= 1:
                d_ = {}
                if n.args:
                    a_ = self.ev(n.args[0])
                    if isinstance(a_, dict):
                        d_ = dict(a_)
                    elif isinstance(a_, list) and all(isinstance(x_, list) and len(x_) == 2 and not isinstance(x_[0], (list, dict)) and x_[0] is not UNKNOWN for x_ in a_):
                        d_ = {x_[0]: x_[1] for x_ in a_}
                    else:
                        return UNKNOWN
                for kw in n.keywords:
                    if kw.arg is None:
                        extra = self.ev(kw.value)
                        if not isinstance(extra, dict):
                            return UNKNOWN
                        d_.update(extra)
                    else:
                        d_[kw.arg] = self.ev(kw.value)
                return d_
            if name in ('any', 'all') and len(n.args) == 1 and not n.keywords:
                v = self.ev(n.args[0])
                if not isinstance(v, list):
                    return UNKNOWN
                if name == 'any':
                    if any(x is True for x in v):
                        return True
                    return UNKNOWN if any(x is UNKNOWN for x in v) else any(bool(x) for x in v)
                if any(x is False for x in v):
                    return False
                return UNKNOWN if any(x is UNKNOWN for x in v) else all(bool(x) for x in v)
            if name == 'len' and len(n.args) == 1:
                v = self.ev(n.args[0])
                return len(v) if isinstance(v, (list, tuple, str, dict)) else UNKNOWN
            if name == 'range':
                a = [self.ev(x) for x in n.args]
                return list(range(*a)) if all(isinstance(x, int) for x in a) else UNKNOWN
            if isinstance(n.func, ast.Name) and n.func.id in self.functions and not n.keywords:
                return self.call_function(self.functions[n.func.id], [self.ev(a) for a in n.args])
            if name in ('float', 'int') and len(n.args) == 1:
                v = self.ev(n.args[0])
                if v is UNKNOWN:
                    return UNKNOWN
                if isinstance(v, Hole):
                    return UNKNOWN      # a model-supplied value: a number or a name
                if isinstance(v, (list, dict)) or v is None:
                    raise EvalRaise('TypeError')
                try:
                    return float(v) if name == 'float' else int(v)
                except ValueError:
                    raise EvalRaise('ValueError')
            if isinstance(n.func, ast.Attribute) and n.func.attr == 'pop' and isinstance(n.func.value, ast.Name) and not n.keywords \
                    and len(n.args) in (1, 2) and isinstance(self.env.get(n.func.value.id, UNKNOWN), dict) and n.func.value.id not in self.frozen:
                d_ = self.env[n.func.value.id]
                k_ = self.ev(n.args[0])
                if k_ is UNKNOWN or isinstance(k_, (list, dict)):
                    self.env[n.func.value.id] = UNKNOWN
                    return UNKNOWN
                if k_ in d_:
                    return d_.pop(k_)
                if len(n.args) == 2:
                    return self.ev(n.args[1])
                raise EvalRaise('KeyError')
            if isinstance(n.func, ast.Attribute) and n.func.attr in STR_METHODS + ('get',) and not n.keywords:
                v = self.ev(n.func.value)
                a = [self.ev(x) for x in n.args]
                if v is UNKNOWN or any(x is UNKNOWN for x in a):
                    return UNKNOWN
                at = n.func.attr
                if at == 'get' and isinstance(v, dict) and len(a) in (1, 2) and not isinstance(a[0], (list, dict)):
                    return v.get(a[0], a[1] if len(a) == 2 else None)
                if isinstance(v, str) and all(isinstance(x, str) for x in a):
                    if isinstance(v, Hole):
                        # a model-supplied identifier: it has no separator characters in it
                        if at == 'split' and len(a) == 1 and not a[0].isidentifier():
                            return [v]
                        if at == 'strip' and not a:
                            return v
                        return UNKNOWN
                    if at in STR_METHODS:
                        try:
                            r = getattr(str(v), at)(*a)
                        except ValueError:
                            raise EvalRaise('ValueError')
                        except TypeError:
                            return UNKNOWN
                        return list(r) if isinstance(r, tuple) else r
                return UNKNOWN
            if isinstance(n.func, ast.Attribute) and n.func.attr == 'replace' and len(n.args) == 2:
                v = self.ev(n.func.value)
                a, b = self.ev(n.args[0]), self.ev(n.args[1])
                if isinstance(v, Hole):
                    return v
                if isinstance(v, str) and isinstance(a, str) and isinstance(b, str):
                    return v.replace(a, b)
                return UNKNOWN
            return UNKNOWN
        if isinstance(n, ast.Compare) and len(n.ops) == 1:
            a, b = self.ev(n.left), self.ev(n.comparators[0])
            op = type(n.ops[0])
            if op in (ast.Is, ast.IsNot, ast.Eq, ast.NotEq) and isinstance(n.left, ast.Call) and src(n.left.func) == 'type' and len(n.left.args) == 1 \
                    and isinstance(n.comparators[0], ast.Name) and n.comparators[0].id in ('dict', 'list', 'tuple', 'str', 'int', 'float') \
                    and n.comparators[0].id not in self.env:
                # `type(x) is dict` on a value the evaluator holds concretely
                v_ = self.ev(n.left.args[0])
                if v_ is UNKNOWN or isinstance(v_, Hole) or isinstance(v_, bool):
                    return UNKNOWN
                same = type(v_).__name__ == n.comparators[0].id or (v_ is None and False)
                return same if op in (ast.Is, ast.Eq) else not same
            if op in (ast.Is, ast.IsNot):
                if b is None and a is not UNKNOWN:
                    return (a is None) if op is ast.Is else (a is not None)
                if a is not UNKNOWN and b is UNKNOWN and src(n.comparators[0]) in ('np.nan',):
                    return op is ast.IsNot
                return UNKNOWN
            if a is UNKNOWN or b is UNKNOWN:
                return UNKNOWN
            try:
                return {ast.Eq: lambda: a == b, ast.NotEq: lambda: a != b, ast.Lt: lambda: a < b, ast.LtE: lambda: a <= b,
                        ast.Gt: lambda: a > b, ast.GtE: lambda: a >= b, ast.In: lambda: a in b, ast.NotIn: lambda: a not in b}[op]()
            except Exception:
                return UNKNOWN
        if isinstance(n, ast.BoolOp):
            # Python semantics: operands left to right, only as far as needed; the value is the deciding operand itself
            is_and = isinstance(n.op, ast.And)
            unknown = False
            last = UNKNOWN
            for v_ in n.values:
                try:
                    v = self.ev(v_)
                except EvalRaise:
                    if unknown:
                        return UNKNOWN      # whether this operand is reached at all is not known
                    raise
                last = v
                if v is UNKNOWN or isinstance(v, Hole):
                    unknown = True          # (a model-supplied value: its truth is not known)
                    continue
                truth = bool(v)
                if is_and and not truth:
                    return UNKNOWN if unknown else v
                if not is_and and truth:
                    return UNKNOWN if unknown else v
            return UNKNOWN if unknown else last
        if isinstance(n, ast.UnaryOp) and isinstance(n.op, ast.Not):
            v = self.ev(n.operand)
            return UNKNOWN if v is UNKNOWN else (not v)
        if isinstance(n, ast.UnaryOp) and isinstance(n.op, ast.USub):
            v = self.ev(n.operand)
            return -v if isinstance(v, (int, float)) else UNKNOWN
        if isinstance(n, (ast.List, ast.Tuple, ast.Set)):
            return [self.ev(e) for e in n.elts]
        if isinstance(n, (ast.ListComp, ast.GeneratorExp)) and len(n.generators) == 1:
            g = n.generators[0]
            it = self.ev(g.iter)
            if isinstance(it, dict):
                it = list(it)
            if not isinstance(it, list):
                return UNKNOWN
            out = []
            saved = dict(self.env)
            for v in it:
                self.bind(g.target, v)
                conds = [self.ev(c) for c in g.ifs]
                if any(c is UNKNOWN for c in conds):
                    self.env = saved
                    return UNKNOWN
                if all(bool(c) for c in conds):
                    out.append(self.ev(n.elt))
            self.env = saved
            return out
        if isinstance(n, ast.DictComp) and len(n.generators) == 1:
            g = n.generators[0]
            it = self.ev(g.iter)
            if isinstance(it, dict):
                it = list(it)
            if not isinstance(it, list):
                return UNKNOWN
            out = {}
            saved = dict(self.env)
            for v in it:
                self.bind(g.target, v)
                conds = [self.ev(c) for c in g.ifs]
                if any(c is UNKNOWN for c in conds):
                    self.env = saved
                    return UNKNOWN
                if all(bool(c) for c in conds):
                    k_ = self.ev(n.key)
                    if k_ is UNKNOWN or isinstance(k_, (list, dict)):
                        self.env = saved
                        return UNKNOWN
                    out[k_] = self.ev(n.value)
            self.env = saved
            return out
        if isinstance(n, ast.Dict):
            if any(k is None for k in n.keys):
                # {**a, **b, key: value}
                out = {}
                for k_, v_ in zip(n.keys, n.values):
                    if k_ is None:
                        d_ = self.ev(v_)
                        if not isinstance(d_, dict):
                            return UNKNOWN
                        out.update(d_)
                    else:
                        kk = self.ev(k_)
                        if kk is UNKNOWN or isinstance(kk, (list, dict)):
                            return UNKNOWN
                        out[kk] = self.ev(v_)
                return out
            ks = [self.ev(k) for k in n.keys]
            if any(k is UNKNOWN or isinstance(k, (list, dict)) for k in ks):
                return UNKNOWN
            return {k: self.ev(v) for k, v in zip(ks, n.values)}
        return UNKNOWN

    def bind(self, target, v):
        if isinstance(target, ast.Name):
            self.env[target.id] = v
        elif isinstance(target, (ast.Tuple, ast.List)) and isinstance(v, (list, tuple)) and len(v) == len(target.elts):
            for t, x in zip(target.elts, v):
                self.bind(t, x)

    # -- statements
    def writes_tracked(self, stmts):
        for s in stmts:
            for n in ast.walk(s):
                if isinstance(n, (ast.Assign, ast.AugAssign, ast.AnnAssign)):
                    tg = n.targets if isinstance(n, ast.Assign) else [n.target]
                    for t in tg:
                        if isinstance(t, ast.Name) and t.id in self.tracked:
                            return True
        return False

    def run(self, stmts):
        for s in stmts:
            if self.aborted or self.finished:
                return
            try:
                self.stmt(s)
            except EvalRaise as e:
                if self.in_try or self.is_sub:
                    raise
                self.aborted = 'raises %s at `%s`' % (e.name, src(s)[:60])

    def forget(self, stmts):
        """what a skipped (undecidable) region may have assigned is unknown afterwards"""
        for nm in assigned_names(stmts):
            if nm not in self.frozen:
                self.env[nm] = UNKNOWN

    @staticmethod
    def leaves(stmts):
        return any(isinstance(n, (ast.Return, ast.Raise, ast.Continue, ast.Break)) for st in stmts for n in ast.walk(st))

    def call_function(self, f, args, bound=False):
        """follow a call into a module-level helper (or, bound, into a method of the same object): its body is evaluated on the argument values"""
        params = [a.arg for a in f.args.args][1 if bound else 0:]
        if len(args) > len(params) or f.args.vararg or f.args.kwarg:
            return UNKNOWN
        env = {k: v for k, v in self.env.items() if k in self.module_names or (bound and isinstance(k, str) and k.startswith('self.'))}
        defaults = f.args.defaults
        for i, pn in enumerate(params):
            if i < len(args):
                env[pn] = args[i]
            else:
                j = i - (len(params) - len(defaults))
                if j < 0:
                    return UNKNOWN
                env[pn] = self.ev(defaults[j])
        sub = StrExec(env, tracked=assigned_names(f.body), hole_for_subscript=self.hole_for_subscript, call_hook=self.call_hook,
                      functions=self.functions, is_sub=True)
        sub.module_names = self.module_names
        sub.methods = self.methods
        sub.local_names = assigned_names(f.body) - set(env)
        sub.depth = self.depth + 1
        if sub.depth > 4:
            return UNKNOWN
        try:
            sub.run(f.body)
        except _Return as r:
            return r.value
        except AnalysisError:
            return UNKNOWN      # the helper's result depends on something the evaluator does not know
        if sub.aborted:
            raise EvalRaise('Exception')
        return None

    def stmt(self, s):
        if isinstance(s, ast.Assign) and len(s.targets) > 1 and all(isinstance(t, ast.Name) for t in s.targets):
            v = self.ev(s.value)        # a = b = value
            for t in s.targets:
                if t.id not in self.frozen:
                    self.env[t.id] = v
                    self.defs[t.id] = src(s.value)
            return
        if isinstance(s, ast.Assign) and len(s.targets) == 1 and isinstance(s.targets[0], ast.Attribute) and isinstance(s.targets[0].value, ast.Name) \
                and s.targets[0].value.id == 'self':
            self.env['self.' + s.targets[0].attr] = self.ev(s.value)     # a field of the object under construction
            return
        if isinstance(s, ast.Assign) and len(s.targets) == 1 and isinstance(s.targets[0], ast.Name):
            if s.targets[0].id in self.frozen:
                return
            self.env[s.targets[0].id] = self.ev(s.value)
            self.defs[s.targets[0].id] = src(s.value)
            return
        if isinstance(s, ast.AnnAssign) and isinstance(s.target, ast.Name) and s.value is not None:
            if s.target.id not in self.frozen:
                self.env[s.target.id] = self.ev(s.value)        # cdef T x = value
                self.defs[s.target.id] = src(s.value)
            return
        if isinstance(s, ast.AugAssign) and isinstance(s.target, ast.Name) and isinstance(s.op, ast.Add):
            cur = self.env.get(s.target.id, UNKNOWN)
            v = self.ev(s.value)
            if cur is UNKNOWN or v is UNKNOWN or isinstance(cur, str) != isinstance(v, str):
                if s.target.id in self.tracked:
                    raise AnalysisError('cannot evaluate `%s` (line %s)' % (src(s), s.lineno))
                self.env[s.target.id] = UNKNOWN
            else:
                self.env[s.target.id] = cur + v
            return
        if isinstance(s, ast.AugAssign) and isinstance(s.target, (ast.Subscript, ast.Name)) and isinstance(s.op, (ast.Add, ast.Sub, ast.Mult, ast.Div)) \
                and not (isinstance(s.target, ast.Name) and isinstance(s.op, ast.Add)):
            # `x[k] += v`, `x -= v`: the same as the plain assignment of the binary operation (index expressions here have no effects)
            import copy
            load = copy.deepcopy(s.target)
            load.ctx = ast.Load()
            return self.stmt(ast.copy_location(ast.Assign(targets=[s.target], value=ast.copy_location(ast.BinOp(left=load, op=s.op, right=s.value), s),
                                                          type_comment=None), s))
        if isinstance(s, ast.If):
            t = self.ev(s.test)
            if t is UNKNOWN:
                if self.writes_tracked(s.body) or self.writes_tracked(s.orelse) or (self.is_sub and self.leaves(s.body + s.orelse)):
                    raise AnalysisError('a tracked string is written under a condition the template evaluator cannot decide: %s (line %s)'
                                        % (src(s.test), s.lineno))
                self.forget(s.body + s.orelse)
                return
            self.run(s.body if t else s.orelse)
            return
        if isinstance(s, ast.For):
            it = self.ev(s.iter)
            if isinstance(it, dict):
                it = list(it)
            if it is UNKNOWN or not isinstance(it, (list, tuple)):
                if self.writes_tracked(s.body) or (self.is_sub and self.leaves(s.body)):
                    raise AnalysisError('a tracked string is written in a loop over an unknown sequence: %s (line %s)' % (src(s.iter), s.lineno))
                self.forget([s])
                return
            for v in it:
                self.bind(s.target, v)
                try:
                    self.run(s.body)
                except _Continue:
                    continue
                except _Break:
                    break
                if self.aborted or self.finished:
                    return
            else:
                self.run(s.orelse)
            return
        if isinstance(s, ast.Raise):
            if self.in_try:
                name = src(s.exc.func if isinstance(s.exc, ast.Call) else s.exc) if s.exc is not None else 'Exception'
                raise EvalRaise(name.split('.')[-1])
            self.aborted = src(s)
            return
        if isinstance(s, ast.Continue):
            raise _Continue()
        if isinstance(s, ast.Break):
            raise _Break()
        if isinstance(s, ast.Return):
            if self.is_sub:
                raise _Return(self.ev(s.value) if s.value is not None else None)
            self.returned = self.ev(s.value) if s.value is not None else None
            self.finished = True
            return
        if isinstance(s, ast.Try):
            self.in_try += 1
            try:
                try:
                    self.run(s.body)
                finally:
                    self.in_try -= 1
            except EvalRaise as e:
                for h in s.handlers:
                    names = [] if h.type is None else [src(x).split('.')[-1] for x in (h.type.elts if isinstance(h.type, ast.Tuple) else [h.type])]
                    if h.type is None or e.name in names or 'Exception' in names or 'BaseException' in names:
                        if h.name:
                            self.env[h.name] = UNKNOWN
                        self.run(h.body)
                        break
                else:
                    self.run(s.finalbody)
                    raise
            else:
                self.run(s.orelse)
            self.run(s.finalbody)
            return
        if isinstance(s, ast.Expr) and isinstance(s.value, ast.Call) and isinstance(s.value.func, ast.Attribute) \
                and isinstance(s.value.func.value, ast.Name) and s.value.func.attr in ('append', 'extend', 'update', 'pop', 'insert', 'remove', 'clear', 'setdefault'):
            c = s.value
            nm = c.func.value.id
            base = self.env.get(nm, UNKNOWN)
            if nm in self.frozen or base is UNKNOWN:
                return
            if c.func.attr == 'append' and isinstance(base, list) and len(c.args) == 1:
                base.append(self.ev(c.args[0]))
                return
            if c.func.attr == 'extend' and isinstance(base, list) and len(c.args) == 1 and isinstance(self.ev(c.args[0]), list):
                base.extend(self.ev(c.args[0]))
                return
            if c.func.attr == 'update' and isinstance(base, dict) and len(c.args) == 1 and not c.keywords and isinstance(self.ev(c.args[0]), dict):
                base.update(self.ev(c.args[0]))
                return
            if nm in self.tracked:
                raise AnalysisError('cannot evaluate `%s` (line %s)' % (src(s), s.lineno))
            self.env[nm] = UNKNOWN
            return
        if isinstance(s, ast.Expr) and isinstance(s.value, ast.Call):
            self.ev(s.value)        # for the call hook; the value is dropped
            return
        if isinstance(s, (ast.Expr, ast.Pass, ast.Import, ast.ImportFrom, ast.Assert)):
            return
        if isinstance(s, ast.Assign) and len(s.targets) == 1 and isinstance(s.targets[0], ast.Subscript) and isinstance(s.targets[0].value, ast.Name):
            base = self.env.get(s.targets[0].value.id, UNKNOWN)
            key = self.ev(s.targets[0].slice)
            if isinstance(base, dict) and key is not UNKNOWN and not isinstance(key, (list, dict)):
                base[key] = self.ev(s.value)     # item store into a dict built by this code
            return
        if isinstance(s, ast.Assign) and len(s.targets) == 1 and isinstance(s.targets[0], (ast.Tuple, ast.List)):
            v = self.ev(s.value)
            names = [t.id for t in ast.walk(s.targets[0]) if isinstance(t, ast.Name) and t.id not in self.frozen]
            if isinstance(v, (list, tuple)) and len(v) == len(s.targets[0].elts) and all(isinstance(t, ast.Name) for t in s.targets[0].elts):
                for t, x in zip(s.targets[0].elts, v):
                    if t.id not in self.frozen:
                        self.env[t.id] = x
            else:
                if any(nm in self.tracked for nm in names):
                    raise AnalysisError('cannot evaluate `%s` (line %s)' % (src(s)[:80], s.lineno))
                for nm in names:
                    self.env[nm] = UNKNOWN
            return
        if isinstance(s, (ast.Assign, ast.AugAssign, ast.AnnAssign)):
            self.forget([s])
            return      # other stores into attributes / subscripts are irrelevant to the tracked strings
        if isinstance(s, ast.While) and not self.writes_tracked([s]) and not s.orelse:
            # a few passes while the test is known to hold; once it is not known, whatever the loop assigns is unknown
            for _ in range(12):
                t = self.ev(s.test)
                if t is UNKNOWN or isinstance(t, Hole):
                    break
                if not t:
                    return
                try:
                    self.run(s.body)
                except _Continue:
                    continue
                except _Break:
                    return
                if self.aborted or self.finished:
                    return
            self.forget([s])
            return
        if isinstance(s, (ast.While, ast.With)):
            if self.writes_tracked([s]):
                raise AnalysisError('tracked string written inside unsupported statement at line %s' % s.lineno)
            return
        if isinstance(s, (ast.Global, ast.Nonlocal)):
            return
        if isinstance(s, ast.Delete):
            for t in s.targets:
                if isinstance(t, ast.Subscript) and isinstance(t.value, ast.Name) and isinstance(self.env.get(t.value.id, UNKNOWN), dict) \
                        and t.value.id not in self.frozen:
                    k_ = self.ev(t.slice)
                    if k_ is UNKNOWN or isinstance(k_, (list, dict)):
                        self.env[t.value.id] = UNKNOWN
                    elif k_ in self.env[t.value.id]:
                        del self.env[t.value.id][k_]
                    else:
                        raise EvalRaise('KeyError')
                else:
                    self.forget([s])
            return
