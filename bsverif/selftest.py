"""Self-test of the analyser (thorough tier): behaviour-changing and behaviour-preserving edits.

Each variant copies the analysed sources of the repository into a scratch directory outside /repo
and /verif, applies one textual edit (the `old` text must occur exactly once - a vanished anchor
is an error, not a pass), re-runs the property's rules with VERIF_REPO pointing at the copy and
requires: `fire` variants produce a violation whose id contains `expect`, `silent` variants
produce none.  The result is a test of the analyser, not of bioscrape.
"""
import json
import os
import shutil
import subprocess
import sys
import tempfile
import time
from concurrent.futures import ThreadPoolExecutor

VERIF = os.path.dirname(os.path.dirname(os.path.abspath(__file__)))
FILES = ['bioscrape/random.pyx', 'bioscrape/random.pxd', 'bioscrape/types.pyx', 'bioscrape/types.pxd',
         'bioscrape/simulator.pyx', 'bioscrape/simulator.pxd', 'bioscrape/inference.pyx', 'bioscrape/inference.pxd',
         'bioscrape/vector.pxd', 'bioscrape/__init__.py',
         'lineage/lineage.pyx', 'lineage/lineage.pxd', 'bioscrape/sbmlutil.py', 'bioscrape/pid_interfaces.py',
         'bioscrape/inference_setup.py', 'bioscrape/analysis.py']


def make_copy(repo, dest):
    for rel in FILES:
        src = os.path.join(repo, rel)
        if os.path.exists(src):
            os.makedirs(os.path.dirname(os.path.join(dest, rel)), exist_ok=True)
            shutil.copy(src, os.path.join(dest, rel))


def run_variant(pid, variant, repo):
    tmp = tempfile.mkdtemp(prefix='bsverif-selftest-')
    try:
        make_copy(repo, tmp)
        if 'patch' in variant:
            pr = subprocess.run(['git', 'apply', '-p1', os.path.join(VERIF, variant['patch'])], cwd=tmp, capture_output=True, text=True)
            if pr.returncode != 0:
                return {'name': variant['name'], 'status': 'anchor-error', 'detail': 'patch does not apply: %s' % pr.stderr.strip()[:120]}
        for ed in ([] if 'patch' in variant else variant.get('edits', [variant])):
            path = os.path.join(tmp, ed['file'])
            text = open(path, encoding='utf-8').read()
            n = text.count(ed['old'])
            want = ed.get('occurrences', 1)
            if n != want:
                return {'name': variant['name'], 'status': 'anchor-error', 'detail': 'old text occurs %d times in %s (expected %d)' % (n, ed['file'], want)}
            open(path, 'w', encoding='utf-8').write(text.replace(ed['old'], ed['new'], 1))
        env = dict(os.environ, VERIF_REPO=tmp, VERIF_EVIDENCE_DIR=os.path.join(tmp, '_evidence'), VERIF_TIER='quick')
        pr = subprocess.run([os.path.join(VERIF, 'check'), pid], env=env, capture_output=True, text=True, timeout=600)
        fails = [l.split()[1] for l in pr.stdout.splitlines() if l.strip().startswith('FAIL ')]
        kf = [l for l in pr.stdout.splitlines() if l.startswith('KNOWN-FINDING')]
        res = {'name': variant['name'], 'rc': pr.returncode, 'fails': fails}
        if pr.returncode == 2:
            res['status'] = 'analysis-error'
            res['detail'] = pr.stdout.strip().splitlines()[-1][:300] if pr.stdout.strip() else ''
        elif variant['kind'] == 'fire':
            hit = [f for f in fails if variant.get('expect', '') in f]
            res['status'] = 'ok' if (pr.returncode == 1 and hit) else 'missed'
        else:
            res['status'] = 'ok' if pr.returncode == 0 else 'false-alarm'
        return res
    finally:
        shutil.rmtree(tmp, ignore_errors=True)


def variants_for(pid):
    from .selftest_mutants import MUTANTS
    return [m for m in MUTANTS if m['prop'] == pid]


def run(pid, verbose=True):
    from . import front
    vs = variants_for(pid)
    if not vs:
        print('selftest %s: no variants defined' % pid)
        return 0
    t0 = time.time()
    with ThreadPoolExecutor(max_workers=16) as ex:
        results = list(ex.map(lambda v: run_variant(pid, v, front.REPO), vs))
    strict = os.environ.get('VERIF_SELFTEST_STRICT') == '1'
    skipped = [r for r in results if r['status'] == 'anchor-error']
    bad = [r for r in results if r['status'] != 'ok' and (strict or r['status'] != 'anchor-error')]
    for r in skipped:
        if not strict:
            print('  SELFTEST-SKIPPED %s: the text this variant edits is no longer present (%s)' % (r['name'], r.get('detail', '')))
    fired = sum(1 for r, v in zip(results, vs) if v['kind'] == 'fire' and r['status'] == 'ok')
    silent = sum(1 for r, v in zip(results, vs) if v['kind'] == 'silent' and r['status'] == 'ok')
    print('selftest %s: %d variants, fired %d, silent_ok %d, problems %d (%.1fs)' % (pid, len(vs), fired, silent, len(bad), time.time() - t0))
    for r in bad:
        print('  SELFTEST-PROBLEM %s: %s %s %s' % (r['name'], r['status'], r.get('fails', ''), r.get('detail', '')))
    # append to the evidence file written by the main run
    evp = os.path.join(os.environ.get('VERIF_EVIDENCE_DIR', os.path.join(VERIF, 'evidence')), '%s.json' % pid)
    try:
        ev = json.load(open(evp))
        ev['tier'] = 'thorough'
        ev['coverage']['selftest'] = {'variants': len(vs), 'fired': fired, 'silent_ok': silent,
                                      'problems': [r['name'] + ':' + r['status'] for r in bad],
                                      'samples': [{'name': v['name'], 'kind': v['kind'], 'edit': (v.get('old') or '')[:80] + ' -> ' + (v.get('new') or '')[:80]} for v in vs[:5]]}
        ev['wall_s'] = round(ev.get('wall_s', 0) + time.time() - t0, 3)
        json.dump(ev, open(evp, 'w'), indent=1, default=str)
    except Exception as e:
        print('selftest: could not update evidence: %r' % e)
    return 2 if bad else 0


if __name__ == '__main__':
    # python -m bsverif.selftest C05 [name-substring]
    pid = sys.argv[1]
    from . import front
    vs = variants_for(pid)
    if len(sys.argv) > 2:
        vs = [v for v in vs if sys.argv[2] in v['name']]
    with ThreadPoolExecutor(max_workers=16) as ex:
        for v, r in zip(vs, ex.map(lambda v: run_variant(pid, v, front.REPO), vs)):
            print(v['kind'], r)
