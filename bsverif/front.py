"""Front-ends: Cython (.pyx/.pxd) and Python sources -> one representation (Python `ast`).

Cython sources are parsed with the repository's own compiler (Cython from /venv used as a
library, the flags of setup.py) up to the `PostParse` stage, and the resulting syntax tree is
lowered to ordinary `ast` nodes.  C-level information that `ast` cannot express is attached as
extra attributes:

  FunctionDef.cy_kind   'def' | 'cdef' | 'cpdef'
  FunctionDef.cy_ret    C return type as a string (cdef functions) or None
  arg.annotation        ast.Constant(<C type string>) for typed arguments
  AnnAssign             `cdef T x [= v]`  ->  x: 'T' [= v]   (simple=1)
  ClassDef.cy_cdef      True for `cdef class`
  Call(Name('__cast__'), [Constant(type), operand])   <T>operand
  Call(Name('__addr__'), [operand])                   &operand

Nothing from bioscrape is imported or executed.
"""
import ast
import hashlib
import os
import sys

REPO = os.environ.get("VERIF_REPO", "/repo")


class AnalysisError(Exception):
    """Front-end failure, vanished anchor, unknown construct: exit code 2."""


# --------------------------------------------------------------------------------------
# Cython -> ast lowering
# --------------------------------------------------------------------------------------

_BINOPS = {
    '+': ast.Add, '-': ast.Sub, '*': ast.Mult, '/': ast.Div, '//': ast.FloorDiv, '%': ast.Mod,
    '**': ast.Pow, '|': ast.BitOr, '&': ast.BitAnd, '^': ast.BitXor, '<<': ast.LShift,
    '>>': ast.RShift, '@': ast.MatMult,
}
_CMPOPS = {
    '==': ast.Eq, '!=': ast.NotEq, '<': ast.Lt, '<=': ast.LtE, '>': ast.Gt, '>=': ast.GtE,
    'is': ast.Is, 'is_not': ast.IsNot, 'in': ast.In, 'not_in': ast.NotIn, '<>': ast.NotEq,
}


def _type_string(base_type, declarator=None):
    """C type of a declaration as a compact string; also returns the declared name."""
    def base(bt):
        k = type(bt).__name__
        if k == 'CSimpleBaseTypeNode':
            s = bt.name or ''
            if getattr(bt, 'module_path', None):
                s = '.'.join(list(bt.module_path) + [s])
            if getattr(bt, 'signed', 1) == 0:
                s = 'unsigned' if s in ('int', '') else 'unsigned ' + s
            lng = getattr(bt, 'longness', 0)
            if lng == 1:
                s = 'long' if s in ('int',) else 'long ' + s
            elif lng == 2:
                s = 'long long'
            elif lng == -1:
                s = 'short'
            return s
        if k == 'TemplatedTypeNode':
            args = ','.join(base(a) if hasattr(a, 'child_attrs') and type(a).__name__.startswith('C')
                            else _expr_text(a) for a in bt.positional_args)
            kw = ''
            kwargs = getattr(bt, 'keyword_args', None)
            if kwargs is not None and getattr(kwargs, 'key_value_pairs', None):
                kw = ',' + ','.join('%s=%s' % (_expr_text(p.key), _expr_text(p.value))
                                    for p in kwargs.key_value_pairs)
            return '%s[%s%s]' % (base(bt.base_type_node), args, kw)
        if k == 'CComplexBaseTypeNode':
            t, _ = _type_string(bt.base_type, bt.declarator)
            return t
        if k == 'MemoryViewSliceTypeNode':
            return base(bt.base_type_node) + '[' + ','.join(':' for _ in bt.axes) + ']'
        if k == 'CConstOrVolatileTypeNode':
            return 'const ' + base(bt.base_type)
        if k in ('NameNode', 'AttributeNode', 'IndexNode', 'IntNode'):
            return _expr_text(bt)
        raise AnalysisError('unknown base type node %s' % k)

    t = base(base_type)
    name = None
    d = declarator
    suffix = ''
    while d is not None:
        k = type(d).__name__
        if k == 'CNameDeclaratorNode':
            name = d.name
            break
        if k == 'CPtrDeclaratorNode':
            suffix = '*' + suffix
            d = d.base
        elif k == 'CReferenceDeclaratorNode':
            suffix = '&' + suffix
            d = d.base
        elif k == 'CArrayDeclaratorNode':
            suffix = suffix + '[]'
            d = d.base
        elif k == 'CFuncDeclaratorNode':
            suffix = suffix + '()'
            d = d.base
        else:
            raise AnalysisError('unknown declarator %s' % k)
    return (t + suffix), name


def _expr_text(n):
    try:
        return ast.unparse(Lower().expr(n))
    except Exception:
        return '<?>'


def _innermost(declarator):
    d = declarator
    while type(d).__name__ != 'CNameDeclaratorNode':
        d = d.base
    return d


class Lower:
    def __init__(self, filename='<cython>'):
        self.filename = filename

    # -- helpers
    def _pos(self, cn, an):
        pos = getattr(cn, 'pos', None)
        if pos:
            an.lineno = pos[1]
            an.col_offset = pos[2]
            an.end_lineno = pos[1]
            an.end_col_offset = pos[2]
        return an

    def stmts(self, n):
        if n is None:
            return []
        k = type(n).__name__
        if k == 'StatListNode':
            out = []
            for s in n.stats:
                out.extend(self.stmts(s))
            return out
        r = self.stmt(n)
        if r is None:
            return []
        if isinstance(r, list):
            return r
        return [r]

    def body(self, n):
        b = self.stmts(n)
        if not b:
            b = [self._pos(n, ast.Pass())] if n is not None else [ast.Pass()]
        return b

    # -- statements
    def stmt(self, n):
        k = type(n).__name__
        m = getattr(self, 's_' + k, None)
        if m is None:
            raise AnalysisError('%s:%s: unknown Cython statement node %s'
                                % (self.filename, n.pos[1] if n.pos else '?', k))
        r = m(n)
        if isinstance(r, ast.AST):
            self._pos(n, r)
        elif isinstance(r, list):
            for x in r:
                if not hasattr(x, 'lineno'):
                    self._pos(n, x)
        return r

    def s_PassStatNode(self, n):
        return ast.Pass()

    def s_BreakStatNode(self, n):
        return ast.Break()

    def s_ContinueStatNode(self, n):
        return ast.Continue()

    def s_ExprStatNode(self, n):
        return ast.Expr(value=self.expr(n.expr))

    def s_SingleAssignmentNode(self, n):
        if type(n.rhs).__name__ == 'ImportNode':
            mod = n.rhs.module_name.value
            asname = n.lhs.name
            return ast.Import(names=[ast.alias(name=str(mod), asname=str(asname))])
        return ast.Assign(targets=[self.expr(n.lhs, store=True)], value=self.expr(n.rhs))

    def s_CascadedAssignmentNode(self, n):
        return ast.Assign(targets=[self.expr(l, store=True) for l in n.lhs_list],
                          value=self.expr(n.rhs))

    def s_ParallelAssignmentNode(self, n):
        return [self.stmt(s) for s in n.stats]

    def s_InPlaceAssignmentNode(self, n):
        return ast.AugAssign(target=self.expr(n.lhs, store=True), op=_BINOPS[n.operator](),
                             value=self.expr(n.rhs))

    def s_ReturnStatNode(self, n):
        return ast.Return(value=self.expr(n.value) if n.value is not None else None)

    def s_RaiseStatNode(self, n):
        exc = None
        if n.exc_type is not None:
            exc = self.expr(n.exc_type)
            if n.exc_value is not None:
                exc = ast.Call(func=exc, args=[self.expr(n.exc_value)], keywords=[])
        return ast.Raise(exc=exc, cause=self.expr(n.cause) if getattr(n, 'cause', None) is not None else None)

    def s_ReraiseStatNode(self, n):
        return ast.Raise(exc=None, cause=None)

    def s_PrintStatNode(self, n):
        args = [self.expr(a) for a in n.arg_tuple.args]
        return ast.Expr(value=ast.Call(func=ast.Name(id='print', ctx=ast.Load()), args=args, keywords=[]))

    def s_AssertStatNode(self, n):
        cond = getattr(n, 'condition', None)
        if cond is None:
            cond = getattr(n, 'cond', None)
        val = getattr(n, 'value', None)
        return ast.Assert(test=self.expr(cond), msg=self.expr(val) if val is not None else None)

    def s_DelStatNode(self, n):
        return ast.Delete(targets=[self.expr(a, store=True) for a in n.args])

    def s_GlobalNode(self, n):
        return ast.Global(names=[str(x) for x in n.names])

    def s_IfStatNode(self, n):
        clauses = list(n.if_clauses)
        orelse = self.stmts(n.else_clause) if n.else_clause is not None else []
        node = None
        for c in reversed(clauses):
            node = ast.If(test=self.expr(c.condition), body=self.body(c.body), orelse=orelse)
            self._pos(c, node)
            orelse = [node]
        return node

    def s_WhileStatNode(self, n):
        return ast.While(test=self.expr(n.condition), body=self.body(n.body),
                         orelse=self.stmts(n.else_clause) if n.else_clause is not None else [])

    def s_ForInStatNode(self, n):
        seq = n.iterator.sequence if type(n.iterator).__name__ == 'IteratorNode' else n.iterator
        return ast.For(target=self.expr(n.target, store=True), iter=self.expr(seq),
                       body=self.body(n.body),
                       orelse=self.stmts(n.else_clause) if n.else_clause is not None else [])

    def s_TryExceptStatNode(self, n):
        handlers = []
        for c in n.except_clauses:
            typ = None
            if c.pattern:
                pats = [self.expr(p) for p in c.pattern]
                typ = pats[0] if len(pats) == 1 else ast.Tuple(elts=pats, ctx=ast.Load())
            name = None
            if c.target is not None:
                name = getattr(c.target, 'name', None)
            h = ast.ExceptHandler(type=typ, name=str(name) if name else None, body=self.body(c.body))
            self._pos(c, h)
            handlers.append(h)
        return ast.Try(body=self.body(n.body), handlers=handlers,
                       orelse=self.stmts(n.else_clause) if n.else_clause is not None else [],
                       finalbody=[])

    def s_TryFinallyStatNode(self, n):
        return ast.Try(body=self.body(n.body), handlers=[], orelse=[],
                       finalbody=self.body(n.finally_clause))

    def s_WithStatNode(self, n):
        item = ast.withitem(context_expr=self.expr(n.manager),
                            optional_vars=self.expr(n.target, store=True) if n.target is not None else None)
        return ast.With(items=[item], body=self.body(n.body))

    def s_CImportStatNode(self, n):
        imp = ast.Import(names=[ast.alias(name=str(n.module_name), asname=str(n.as_name) if n.as_name else None)])
        imp.cy_cimport = True
        return imp

    def s_FromCImportStatNode(self, n):
        names = []
        for item in n.imported_names:
            # (pos, name, as_name[, kind])
            nm, asn = item[1], item[2]
            names.append(ast.alias(name=str(nm), asname=str(asn) if asn else None))
        imp = ast.ImportFrom(module=str(n.module_name), names=names, level=0)
        imp.cy_cimport = True
        return imp

    def s_FromImportStatNode(self, n):
        mod = n.module.module_name.value
        names = []
        for nm, target in n.items:
            asn = getattr(target, 'name', None)
            names.append(ast.alias(name=str(nm), asname=str(asn) if asn and asn != nm else None))
        return ast.ImportFrom(module=str(mod), names=names, level=getattr(n.module, 'level', 0) or 0)

    def s_CVarDefNode(self, n):
        out = []
        for d in n.declarators:
            if type(d).__name__ == 'CFuncDeclaratorNode' or (
                    hasattr(d, 'base') and self._has_func(d)):
                # method / function forward declaration (pxd or class body)
                t, name = _type_string(n.base_type, d)
                fd = self._func_from_declarator(n.base_type, d, None, 'cdef-decl')
                out.append(self._pos(n, fd))
                continue
            t, name = _type_string(n.base_type, d)
            inner = _innermost(d)
            default = getattr(inner, 'default', None)
            a = ast.AnnAssign(target=ast.Name(id=str(name), ctx=ast.Store()),
                              annotation=ast.Constant(value=t),
                              value=self.expr(default) if default is not None else None, simple=1)
            a.cy_cdef = True
            out.append(self._pos(n, a))
        return out

    def _has_func(self, d):
        while d is not None and type(d).__name__ != 'CNameDeclaratorNode':
            if type(d).__name__ == 'CFuncDeclaratorNode':
                return True
            d = d.base
        return False

    def s_CTypeDefNode(self, n):
        return ast.Pass()

    def s_CEnumDefNode(self, n):
        return ast.Pass()

    def s_CStructOrUnionDefNode(self, n):
        return ast.Pass()

    def s_CDefExternNode(self, n):
        # `cdef extern from "x":` block; keep the declared functions
        return self.stmts(n.body)

    def s_CppClassNode(self, n):
        return ast.Pass()

    def _args(self, cargs, star=None, starstar=None):
        args, defaults = [], []
        for a in cargs:
            inner = _innermost(a.declarator)
            if inner.name == '' or inner.name is None:
                name = a.base_type.name
                ann = None
            else:
                t, name = _type_string(a.base_type, a.declarator)
                ann = ast.Constant(value=t)
            arg = ast.arg(arg=str(name), annotation=ann)
            self._pos(a, arg)
            args.append(arg)
            if a.default is not None:
                defaults.append(self.expr(a.default))
            elif defaults:
                defaults.append(ast.Constant(value=None))
        return ast.arguments(posonlyargs=[], args=args,
                             vararg=ast.arg(arg=str(star.name)) if star is not None else None,
                             kwonlyargs=[], kw_defaults=[],
                             kwarg=ast.arg(arg=str(starstar.name)) if starstar is not None else None,
                             defaults=defaults)

    def _func_from_declarator(self, base_type, declarator, body, kind):
        d = declarator
        while type(d).__name__ != 'CFuncDeclaratorNode':
            d = d.base
        name = _innermost(d).name
        # return type: base_type + pointer declarators outside the function declarator
        ret, _ = _type_string(base_type, None)
        o = declarator
        while type(o).__name__ != 'CFuncDeclaratorNode':
            if type(o).__name__ == 'CPtrDeclaratorNode':
                ret += '*'
            o = o.base
        # pointers inside (cdef double* f())
        i = d.base
        while type(i).__name__ != 'CNameDeclaratorNode':
            if type(i).__name__ == 'CPtrDeclaratorNode':
                ret += '*'
            i = i.base
        fd = ast.FunctionDef(name=str(name), args=self._args(d.args),
                             body=self.body(body) if body is not None else [ast.Expr(value=ast.Constant(value=Ellipsis))],
                             decorator_list=[], returns=ast.Constant(value=ret), type_params=[])
        fd.cy_kind = kind
        fd.cy_ret = ret
        return fd

    def s_CFuncDefNode(self, n):
        kind = 'cpdef' if getattr(n, 'overridable', False) else 'cdef'
        fd = self._func_from_declarator(n.base_type, n.declarator, n.body, kind)
        fd.decorator_list = [self.expr(d.decorator) for d in (n.decorators or [])]
        return fd

    def s_DefNode(self, n):
        fd = ast.FunctionDef(name=str(n.name), args=self._args(n.args, n.star_arg, n.starstar_arg),
                             body=self.body(n.body),
                             decorator_list=[self.expr(d.decorator) for d in (n.decorators or [])],
                             returns=None, type_params=[])
        fd.cy_kind = 'def'
        fd.cy_ret = None
        return fd

    def s_CClassDefNode(self, n):
        bases = []
        b = getattr(n, 'bases', None)
        if b is not None:
            bases = [self.expr(x) for x in b.args]
        cd = ast.ClassDef(name=str(n.class_name), bases=bases, keywords=[],
                          body=self.body(n.body) if n.body is not None else [ast.Pass()],
                          decorator_list=[self.expr(d.decorator) for d in (n.decorators or [])],
                          type_params=[])
        cd.cy_cdef = True
        return cd

    def s_PyClassDefNode(self, n):
        bases = [self.expr(x) for x in n.bases.args] if getattr(n, 'bases', None) is not None else []
        cd = ast.ClassDef(name=str(n.name), bases=bases, keywords=[], body=self.body(n.body),
                          decorator_list=[], type_params=[])
        cd.cy_cdef = False
        return cd

    # -- expressions
    def expr(self, n, store=False):
        k = type(n).__name__
        m = getattr(self, 'e_' + k, None)
        if m is None:
            if hasattr(n, 'operator') and hasattr(n, 'operand1') and n.operator in _BINOPS:
                r = ast.BinOp(left=self.expr(n.operand1), op=_BINOPS[n.operator](), right=self.expr(n.operand2))
                return self._pos(n, r)
            raise AnalysisError('%s:%s: unknown Cython expression node %s'
                                % (self.filename, n.pos[1] if getattr(n, 'pos', None) else '?', k))
        r = m(n, store) if k in ('NameNode', 'AttributeNode', 'IndexNode', 'SliceIndexNode',
                                 'TupleNode', 'ListNode') else m(n)
        return self._pos(n, r)

    def _ctx(self, store):
        return ast.Store() if store else ast.Load()

    def e_NameNode(self, n, store=False):
        return ast.Name(id=str(n.name), ctx=self._ctx(store))

    def e_AttributeNode(self, n, store=False):
        return ast.Attribute(value=self.expr(n.obj), attr=str(n.attribute), ctx=self._ctx(store))

    def e_IndexNode(self, n, store=False):
        return ast.Subscript(value=self.expr(n.base), slice=self.expr(n.index), ctx=self._ctx(store))

    def e_SliceIndexNode(self, n, store=False):
        sl = ast.Slice(lower=self.expr(n.start) if n.start is not None else None,
                       upper=self.expr(n.stop) if n.stop is not None else None, step=None)
        return ast.Subscript(value=self.expr(n.base), slice=sl, ctx=self._ctx(store))

    def e_SliceNode(self, n):
        def f(x):
            return None if x is None or type(x).__name__ == 'NoneNode' else self.expr(x)
        return ast.Slice(lower=f(n.start), upper=f(n.stop), step=f(n.step))

    def e_EllipsisNode(self, n):
        return ast.Constant(value=Ellipsis)

    def e_TupleNode(self, n, store=False):
        return ast.Tuple(elts=[self.expr(a, store) for a in n.args], ctx=self._ctx(store))

    def e_ListNode(self, n, store=False):
        return ast.List(elts=[self.expr(a, store) for a in n.args], ctx=self._ctx(store))

    def e_SetNode(self, n):
        return ast.Set(elts=[self.expr(a) for a in n.args])

    def e_DictNode(self, n):
        return ast.Dict(keys=[self.expr(p.key) for p in n.key_value_pairs],
                        values=[self.expr(p.value) for p in n.key_value_pairs])

    def e_SimpleCallNode(self, n):
        return ast.Call(func=self.expr(n.function), args=[self.expr(a) for a in n.args], keywords=[])

    def e_GeneralCallNode(self, n):
        args = [self.expr(a) for a in n.positional_args.args] if type(n.positional_args).__name__ == 'TupleNode' \
            else [ast.Starred(value=self.expr(n.positional_args), ctx=ast.Load())]
        kws = []
        kwa = n.keyword_args
        def add(d):
            if d is None:
                return
            if type(d).__name__ == 'DictNode':
                for p in d.key_value_pairs:
                    kws.append(ast.keyword(arg=str(p.key.value), value=self.expr(p.value)))
            elif type(d).__name__ == 'MergedDictNode':
                for x in d.keyword_args:
                    add(x)
            else:
                kws.append(ast.keyword(arg=None, value=self.expr(d)))
        add(kwa)
        return ast.Call(func=self.expr(n.function), args=args, keywords=kws)

    def e_MergedDictNode(self, n):
        keys, values = [], []
        for d in n.keyword_args:
            if type(d).__name__ == 'DictNode':
                for p in d.key_value_pairs:
                    keys.append(self.expr(p.key)); values.append(self.expr(p.value))
            else:
                keys.append(None); values.append(self.expr(d))
        return ast.Dict(keys=keys, values=values)

    def e_PrimaryCmpNode(self, n):
        ops, comps = [_CMPOPS[n.operator]()], [self.expr(n.operand2)]
        c = n.cascade
        while c is not None:
            ops.append(_CMPOPS[c.operator]())
            comps.append(self.expr(c.operand2))
            c = c.cascade
        return ast.Compare(left=self.expr(n.operand1), ops=ops, comparators=comps)

    def e_BoolBinopNode(self, n):
        op = ast.And() if n.operator == 'and' else ast.Or()
        l, r = self.expr(n.operand1), self.expr(n.operand2)
        vals = []
        for x in (l, r):
            if isinstance(x, ast.BoolOp) and type(x.op) is type(op):
                vals.extend(x.values)     # `a and b and c` is one n-ary operation, as in Python's ast
            else:
                vals.append(x)
        return ast.BoolOp(op=op, values=vals)

    def e_NotNode(self, n):
        return ast.UnaryOp(op=ast.Not(), operand=self.expr(n.operand))

    def e_UnaryMinusNode(self, n):
        return ast.UnaryOp(op=ast.USub(), operand=self.expr(n.operand))

    def e_UnaryPlusNode(self, n):
        return ast.UnaryOp(op=ast.UAdd(), operand=self.expr(n.operand))

    def e_TildeNode(self, n):
        return ast.UnaryOp(op=ast.Invert(), operand=self.expr(n.operand))

    def e_TypecastNode(self, n):
        t, _ = _type_string(n.base_type, n.declarator)
        return ast.Call(func=ast.Name(id='__cast__', ctx=ast.Load()),
                        args=[ast.Constant(value=t), self.expr(n.operand)], keywords=[])

    def e_AmpersandNode(self, n):
        return ast.Call(func=ast.Name(id='__addr__', ctx=ast.Load()), args=[self.expr(n.operand)], keywords=[])

    def e_SizeofTypeNode(self, n):
        return ast.Call(func=ast.Name(id='sizeof', ctx=ast.Load()), args=[], keywords=[])

    def e_IntNode(self, n):
        v = str(n.value)
        try:
            return ast.Constant(value=int(v, 0))
        except ValueError:
            return ast.Constant(value=int(v.rstrip('uUlL'), 0))

    def e_FloatNode(self, n):
        return ast.Constant(value=float(n.value))

    def e_BoolNode(self, n):
        return ast.Constant(value=bool(n.value))

    def e_NoneNode(self, n):
        return ast.Constant(value=None)

    def e_UnicodeNode(self, n):
        return ast.Constant(value=str(n.value))

    def e_StringNode(self, n):
        v = n.unicode_value if getattr(n, 'unicode_value', None) is not None else n.value
        return ast.Constant(value=str(v))

    def e_BytesNode(self, n):
        return ast.Constant(value=bytes(n.value, 'latin-1') if isinstance(n.value, str) else bytes(n.value))

    def e_IdentifierStringNode(self, n):
        return ast.Constant(value=str(n.value))

    def e_JoinedStrNode(self, n):
        return ast.JoinedStr(values=[self.expr(v) for v in n.values])

    def e_FormattedValueNode(self, n):
        conv = -1
        if getattr(n, 'conversion_char', None):
            conv = ord(n.conversion_char)
        fs = None
        if getattr(n, 'format_spec', None) is not None:
            f = self.expr(n.format_spec)
            fs = f if isinstance(f, ast.JoinedStr) else ast.JoinedStr(values=[f])
        return ast.FormattedValue(value=self.expr(n.value), conversion=conv, format_spec=fs)

    def e_CondExprNode(self, n):
        return ast.IfExp(test=self.expr(getattr(n, "condition", None) if hasattr(n, "condition") else n.test), body=self.expr(n.true_val), orelse=self.expr(n.false_val))

    def e_LambdaNode(self, n):
        return ast.Lambda(args=self._args(n.args, getattr(n, 'star_arg', None), getattr(n, 'starstar_arg', None)),
                          body=self.expr(n.result_expr))

    def e_StarredUnpackingNode(self, n):
        return ast.Starred(value=self.expr(n.target), ctx=ast.Load())

    def e_ImportNode(self, n):
        return ast.Call(func=ast.Name(id='__import__', ctx=ast.Load()),
                        args=[ast.Constant(value=str(n.module_name.value))], keywords=[])

    def e_ComprehensionNode(self, n):
        # loop: ForInStatNode [IfStatNode]* ... ComprehensionAppendNode
        gens = []
        cur = n.loop
        elt = None
        key = None
        while True:
            k = type(cur).__name__
            if k == 'ForInStatNode':
                seq = cur.iterator.sequence if type(cur.iterator).__name__ == 'IteratorNode' else cur.iterator
                gens.append(ast.comprehension(target=self.expr(cur.target, store=True), iter=self.expr(seq),
                                              ifs=[], is_async=0))
                cur = cur.body
            elif k == 'IfStatNode':
                gens[-1].ifs.append(self.expr(cur.if_clauses[0].condition))
                cur = cur.if_clauses[0].body
            elif k == 'StatListNode' and len(cur.stats) == 1:
                cur = cur.stats[0]
            elif k == 'ExprStatNode':
                cur = cur.expr
            elif k == 'ComprehensionAppendNode':
                elt = self.expr(cur.expr)
                break
            elif k == 'DictComprehensionAppendNode':
                key = self.expr(cur.dict_item.key)
                elt = self.expr(cur.dict_item.value)
                break
            else:
                raise AnalysisError('unknown comprehension shape %s' % k)
        if key is not None:
            return ast.DictComp(key=key, value=elt, generators=gens)
        tname = getattr(getattr(n, 'type', None), 'name', 'list')
        if tname == 'set':
            return ast.SetComp(elt=elt, generators=gens)
        return ast.ListComp(elt=elt, generators=gens)

    def e_GeneratorExpressionNode(self, n):
        # def_node.body: ForInStatNode [IfStatNode]* ... ExprStatNode(YieldExprNode(arg))
        gens = []
        cur = n.def_node.body
        while True:
            k = type(cur).__name__
            if k == 'ForInStatNode':
                seq = cur.iterator.sequence if type(cur.iterator).__name__ == 'IteratorNode' else cur.iterator
                gens.append(ast.comprehension(target=self.expr(cur.target, store=True), iter=self.expr(seq), ifs=[], is_async=0))
                cur = cur.body
            elif k == 'IfStatNode' and gens:
                gens[-1].ifs.append(self.expr(cur.if_clauses[0].condition))
                cur = cur.if_clauses[0].body
            elif k == 'StatListNode' and len(cur.stats) == 1:
                cur = cur.stats[0]
            elif k == 'ExprStatNode':
                cur = cur.expr
            elif k == 'YieldExprNode':
                return ast.GeneratorExp(elt=self.expr(cur.arg), generators=gens)
            else:
                raise AnalysisError('unknown generator expression shape %s' % k)


# --------------------------------------------------------------------------------------
# Loading
# --------------------------------------------------------------------------------------

_CY_READY = False


def _cython():
    global _CY_READY
    from Cython.Compiler import Main, Pipeline, Errors
    from Cython.Compiler.Main import CompilationOptions, default_options, Context
    return Main, Pipeline, Errors, CompilationOptions, default_options, Context


def cython_tree(path, modname, upto='PostParse', repo=None):
    """Run the repo's Cython on `path` up to (and including) the named pipeline stage."""
    repo = repo or REPO
    Main, Pipeline, Errors, CompilationOptions, default_options, Context = _cython()
    opts = CompilationOptions(default_options, include_path=[os.path.join(repo, 'bioscrape'), repo],
                              language_level=2, cplus=True)
    ctx = Context.from_options(opts)
    desc = Main.FileSourceDescriptor(path)
    src = Main.CompilationSource(desc, modname, repo)
    res = Main.create_default_resultobj(src, opts)
    pl = Pipeline.create_pyx_pipeline(ctx, opts, res)
    cut = None
    for i, p in enumerate(pl):
        if type(p).__name__ == upto or getattr(p, '__name__', '') == upto:
            cut = i
            break
    if cut is None:
        raise AnalysisError('Cython pipeline has no stage %s' % upto)
    Errors.init_thread()
    import io
    import contextlib
    buf = io.StringIO()
    with contextlib.redirect_stderr(buf):
        err, tree = Pipeline.run_pipeline(pl[:cut + 1], src)
    if err is not None or tree is None:
        raise AnalysisError('Cython front-end rejected %s: %s %s' % (path, err, buf.getvalue()[:2000]))
    return tree


def cython_pxd_tree(path, modname, repo=None):
    repo = repo or REPO
    Main, Pipeline, Errors, CompilationOptions, default_options, Context = _cython()
    from Cython.Compiler.ParseTreeTransforms import NormalizeTree, PostParse
    opts = CompilationOptions(default_options, include_path=[os.path.join(repo, 'bioscrape'), repo],
                              language_level=2, cplus=True)
    ctx = Context.from_options(opts)
    desc = Main.FileSourceDescriptor(path)
    Errors.init_thread()
    from Cython.Compiler.Symtab import ModuleScope
    scope = ctx.find_module(modname, pos=None, need_pxd=0) if False else ModuleScope(modname, None, ctx)
    import io
    import contextlib
    buf = io.StringIO()
    try:
        with contextlib.redirect_stderr(buf):
            tree = ctx.parse(desc, scope, pxd=1, full_module_name=modname)
            tree = NormalizeTree(ctx)(tree)
            tree = PostParse(ctx)(tree)
    except Exception as e:
        raise AnalysisError('Cython front-end rejected %s: %r %s' % (path, e, buf.getvalue()[:2000]))
    return tree


def normalise(tree):
    """Rewrites that never change what the code computes, applied to every loaded module so that the rules see one spelling:
    * `t = t op v` (and `t = v op t` for + and * on a subscript/attribute/name target that is textually the same) -> `t op= v`
    * a local assigned exactly once, to an integer literal, and never otherwise written, is replaced by that literal where it is read."""
    class Aug(ast.NodeTransformer):
        def visit_Assign(self, n):
            self.generic_visit(n)
            if len(n.targets) == 1 and isinstance(n.targets[0], (ast.Name, ast.Subscript, ast.Attribute)) and isinstance(n.value, ast.BinOp) \
                    and isinstance(n.value.op, (ast.Add, ast.Sub, ast.Mult, ast.Div)):
                t, v = n.targets[0], n.value
                tt = ast.unparse(t)
                if ast.unparse(v.left) == tt:
                    return ast.copy_location(ast.AugAssign(target=t, op=v.op, value=v.right), n)
            return n
    tree = Aug().visit(tree)

    class Rep(ast.NodeTransformer):
        """`L.extend([x] * n)` (x a name or literal) -> `for _ in range(n): L.append(x)`"""
        def visit_Expr(self, n):
            c = n.value
            if isinstance(c, ast.Call) and isinstance(c.func, ast.Attribute) and c.func.attr == 'extend' and len(c.args) == 1 and not c.keywords \
                    and isinstance(c.args[0], ast.BinOp) and isinstance(c.args[0].op, ast.Mult):
                a, b = c.args[0].left, c.args[0].right
                if isinstance(b, ast.List):
                    a, b = b, a
                if isinstance(a, ast.List) and len(a.elts) == 1 and isinstance(a.elts[0], (ast.Name, ast.Constant)) and not isinstance(b, ast.List):
                    app = ast.Expr(value=ast.Call(func=ast.Attribute(value=c.func.value, attr='append', ctx=ast.Load()), args=[a.elts[0]], keywords=[]))
                    loop = ast.For(target=ast.Name(id='_rep_i', ctx=ast.Store()), iter=ast.Call(func=ast.Name(id='range', ctx=ast.Load()), args=[b], keywords=[]),
                                   body=[app], orelse=[], type_comment=None)
                    ast.copy_location(loop, n)
                    ast.copy_location(app, n)
                    for x in ast.walk(loop):
                        if not hasattr(x, 'lineno'):
                            ast.copy_location(x, n)
                    return ast.fix_missing_locations(loop)
            return n
    tree = Rep().visit(tree)

    class Cond(ast.NodeTransformer):
        """`t = a if c else b` (one target) -> `if c: t = a` / `else: t = b`; same for `return a if c else b`"""
        def visit_Assign(self, n):
            self.generic_visit(n)
            if len(n.targets) == 1 and isinstance(n.value, ast.IfExp) and isinstance(n.targets[0], (ast.Name, ast.Subscript, ast.Attribute)):
                import copy as _copy
                a = ast.Assign(targets=[_copy.deepcopy(n.targets[0])], value=n.value.body, type_comment=None)
                b = ast.Assign(targets=[_copy.deepcopy(n.targets[0])], value=n.value.orelse, type_comment=None)
                new = ast.If(test=n.value.test, body=[a], orelse=[b])
                for x in (a, b, new):
                    ast.copy_location(x, n)
                for x in ast.walk(new):
                    if not hasattr(x, 'lineno'):
                        ast.copy_location(x, n)
                for attr in ('cy_type',):
                    if hasattr(n, attr):
                        setattr(a, attr, getattr(n, attr))
                        setattr(b, attr, getattr(n, attr))
                return self.visit(new) if isinstance(n.value.body, ast.IfExp) or isinstance(n.value.orelse, ast.IfExp) else new
            return n

        def visit_Return(self, n):
            self.generic_visit(n)
            if isinstance(n.value, ast.IfExp):
                a = ast.copy_location(ast.Return(value=n.value.body), n)
                b = ast.copy_location(ast.Return(value=n.value.orelse), n)
                return ast.copy_location(ast.If(test=n.value.test, body=[a], orelse=[b]), n)
            return n
    tree = Cond().visit(tree)
    ast.fix_missing_locations(tree)

    for fn in [x for x in ast.walk(tree) if isinstance(x, ast.FunctionDef)]:
        sites = {}
        for x in ast.walk(fn):
            if isinstance(x, ast.Assign):
                for t in x.targets:
                    for y in ast.walk(t):
                        if isinstance(y, ast.Name) and isinstance(y.ctx, ast.Store):
                            sites.setdefault(y.id, []).append(x.value if (isinstance(t, ast.Name) and len(x.targets) == 1) else None)
            elif isinstance(x, ast.AnnAssign) and isinstance(x.target, ast.Name) and x.value is not None:
                sites.setdefault(x.target.id, []).append(x.value)
            elif isinstance(x, ast.AugAssign) and isinstance(x.target, ast.Name):
                sites.setdefault(x.target.id, []).append(None)
            elif isinstance(x, (ast.For, ast.comprehension)):
                for y in ast.walk(x.target):
                    if isinstance(y, ast.Name):
                        sites.setdefault(y.id, []).append(None)
            elif isinstance(x, (ast.Global, ast.Nonlocal)):
                for nm in x.names:
                    sites.setdefault(nm, []).append(None)
            elif isinstance(x, ast.ExceptHandler) and x.name:
                sites.setdefault(x.name, []).append(None)
            elif isinstance(x, ast.arg):
                sites.setdefault(x.arg, []).append(None)
        consts = {k: v[0] for k, v in sites.items() if len(v) == 1 and isinstance(v[0], ast.Constant) and type(v[0].value) is int
                  and not k.isupper() and abs(v[0].value) > 1}

        class Inl(ast.NodeTransformer):
            def visit_Name(self, n):
                if isinstance(n.ctx, ast.Load) and n.id in consts:
                    return ast.copy_location(ast.Constant(value=consts[n.id].value), n)
                return n
        if consts:
            Inl().visit(fn)
    return tree


class Module:
    def __init__(self, name, path, tree, text):
        self.name = name
        self.path = path
        tree = normalise(tree)
        self.tree = tree
        self.text = text
        self.digest = hashlib.sha256(text.encode('utf-8', 'replace')).hexdigest()[:16]
        self.lines = text.splitlines()
        for node in ast.walk(tree):
            for ch in ast.iter_child_nodes(node):
                ch._parent = node

    @property
    def relpath(self):
        return os.path.relpath(self.path, REPO)


CYTHON_MODULES = {
    'random': ('bioscrape/random.pyx', 'bioscrape.random'),
    'types': ('bioscrape/types.pyx', 'bioscrape.types'),
    'simulator': ('bioscrape/simulator.pyx', 'bioscrape.simulator'),
    'inference': ('bioscrape/inference.pyx', 'bioscrape.inference'),
    'lineage': ('lineage/lineage.pyx', 'bioscrape.lineage'),
}
PXD_MODULES = {
    'random.pxd': ('bioscrape/random.pxd', 'bioscrape.random'),
    'types.pxd': ('bioscrape/types.pxd', 'bioscrape.types'),
    'simulator.pxd': ('bioscrape/simulator.pxd', 'bioscrape.simulator'),
    'inference.pxd': ('bioscrape/inference.pxd', 'bioscrape.inference'),
    'lineage.pxd': ('lineage/lineage.pxd', 'bioscrape.lineage'),
}
PYTHON_MODULES = {
    'sbmlutil': 'bioscrape/sbmlutil.py',
    'pid_interfaces': 'bioscrape/pid_interfaces.py',
    'inference_setup': 'bioscrape/inference_setup.py',
    'analysis': 'bioscrape/analysis.py',
}

_cache = {}


def load(name, repo=None):
    """Load module `name` (key of one of the tables above) from the current working tree."""
    repo = repo or REPO
    key = (repo, name)
    if key in _cache:
        return _cache[key]
    if name in CYTHON_MODULES:
        rel, modname = CYTHON_MODULES[name]
        path = os.path.join(repo, rel)
        text = _read(path)
        ctree = cython_tree(path, modname, repo=repo)
        tree = ast.Module(body=Lower(rel).stmts(ctree.body), type_ignores=[])
    elif name in PXD_MODULES:
        rel, modname = PXD_MODULES[name]
        path = os.path.join(repo, rel)
        text = _read(path)
        ctree = cython_pxd_tree(path, modname, repo=repo)
        tree = ast.Module(body=Lower(rel).stmts(ctree.body), type_ignores=[])
    elif name in PYTHON_MODULES:
        rel = PYTHON_MODULES[name]
        path = os.path.join(repo, rel)
        text = _read(path)
        try:
            tree = ast.parse(text, filename=path)
        except SyntaxError as e:
            raise AnalysisError('cannot parse %s: %s' % (path, e))
    else:
        raise AnalysisError('unknown module %s' % name)
    ast.fix_missing_locations(tree)
    m = Module(name, path, tree, text)
    m.rel = rel
    _cache[key] = m
    return m


def _read(path):
    try:
        with open(path, encoding='utf-8') as f:
            return f.read()
    except OSError as e:
        raise AnalysisError('anchor vanished: cannot read %s (%s)' % (path, e))


# --------------------------------------------------------------------------------------
# Program-level tables (classes, methods, attributes)
# --------------------------------------------------------------------------------------

class ClassInfo:
    def __init__(self, name, module):
        self.name = name
        self.module = module          # module key of the implementation
        self.bases = []               # base class names (last component)
        self.attrs = {}               # declared C attributes name -> type string (own only)
        self.methods = {}             # own methods name -> FunctionDef (implementation)
        self.decls = {}               # declared cdef method signatures (pxd)
        self.node = None              # ClassDef of the implementation
        self.decorators = []


METHOD_HOOK = None      # set by core: second-chance normal form of a method body


class Program:
    """All modules of the repository, with a class table merged from .pyx and .pxd."""

    def __init__(self, repo=None, modules=None):
        self.repo = repo or REPO
        self.classes = {}
        self.mods = {}
        self._want = modules

    def mod(self, name):
        if name not in self.mods:
            self.mods[name] = load(name, self.repo)
            self._index(name)
        return self.mods[name]

    def _index(self, name):
        m = self.mods[name]
        is_pxd = name.endswith('.pxd')
        impl = name[:-4] if is_pxd else name
        for node in m.tree.body:
            if isinstance(node, ast.ClassDef):
                ci = self.classes.get(node.name)
                if ci is None:
                    ci = self.classes[node.name] = ClassInfo(node.name, impl)
                if not is_pxd:
                    ci.node = node
                    ci.module = impl
                    ci.decorators = [ast.unparse(d) for d in node.decorator_list]
                b = [ast.unparse(x).split('.')[-1] for x in node.bases]
                if b and not ci.bases:
                    ci.bases = b
                for s in node.body:
                    if isinstance(s, ast.AnnAssign) and getattr(s, 'cy_cdef', False):
                        ci.attrs[s.target.id] = s.annotation.value
                    elif isinstance(s, ast.FunctionDef):
                        if getattr(s, 'cy_kind', 'def') == 'cdef-decl':
                            ci.decls[s.name] = s
                        else:
                            ci.methods[s.name] = s
                            s._class = node.name
                            s._module = impl

    def load_all(self, names=None):
        for n in (names or list(CYTHON_MODULES) + list(PXD_MODULES) + list(PYTHON_MODULES)):
            self.mod(n)
        return self

    # -- lookups
    def cls(self, name):
        if name not in self.classes:
            raise AnalysisError('anchor vanished: class %s' % name)
        return self.classes[name]

    def mro(self, name):
        out = []
        cur = name
        seen = set()
        while cur in self.classes and cur not in seen:
            seen.add(cur)
            out.append(cur)
            b = self.classes[cur].bases
            cur = b[0] if b else None
        return out

    def resolve_method(self, cls, meth):
        """(defining class, FunctionDef) executed by a receiver of class `cls`, or (None, None)."""
        for c in self.mro(cls):
            f = self.classes[c].methods.get(meth)
            if f is not None:
                return c, (METHOD_HOOK(f) if METHOD_HOOK is not None else f)
        return None, None

    def all_attrs(self, cls):
        out = {}
        for c in reversed(self.mro(cls)):
            out.update(self.classes[c].attrs)
        return out

    def subclasses(self, name):
        return [c for c in self.classes if name in self.mro(c)[1:]]

    def func(self, spec):
        """'module:Class.method' or 'module:function' -> FunctionDef (AnalysisError if missing)."""
        modname, _, qual = spec.partition(':')
        m = self.mod(modname)
        if modname + '.pxd' in PXD_MODULES:
            self.mod(modname + '.pxd')
        parts = qual.split('.')
        if len(parts) == 2:
            ci = self.classes.get(parts[0])
            if ci is None or parts[1] not in ci.methods or ci.module != modname:
                # python-module classes
                for node in m.tree.body:
                    if isinstance(node, ast.ClassDef) and node.name == parts[0]:
                        for s in node.body:
                            if isinstance(s, ast.FunctionDef) and s.name == parts[1]:
                                s._class = parts[0]; s._module = modname
                                return s
                raise AnalysisError('anchor vanished: %s' % spec)
            return ci.methods[parts[1]]
        for node in m.tree.body:
            if isinstance(node, ast.FunctionDef) and node.name == qual and getattr(node, 'cy_kind', 'def') != 'cdef-decl':
                node._module = modname
                return node
        raise AnalysisError('anchor vanished: %s' % spec)

    def where(self, modname, node):
        m = self.mods[modname]
        return '%s:%s' % (m.rel, getattr(node, 'lineno', '?'))

    def digests(self):
        return {m.rel: m.digest for m in self.mods.values()}


def src(node):
    """Normalised source text of a node (for reports and keys)."""
    try:
        return ast.unparse(node)
    except Exception:
        return '<%s>' % type(node).__name__
