"""A4/A5: enumeration of all acyclic paths through a statement list with a small abstract state.

Abstract state
  env    name -> python constant (int/bool/str/None) or TOP
  rel    (lhs_text, rhs_text) -> subset of {'<','=','>'}   (order relation between two expressions)
Branch conditions are evaluated three-valued; infeasible branches are pruned; each taken branch
refines the state.  Inner loops are summarised: the body is taken zero times or "one or more"
times (one symbolic pass over a havocked state, everything it assigns havocked again after).
Every executed simple statement and every decided test is recorded as an event, so rules are
queries over event sequences ("is call X reachable with atom A true", "does A precede B on every
path", "how many times does X occur on a path").
"""
import ast

from .front import AnalysisError, src


def _is_chain(n):
    while isinstance(n, ast.Attribute):
        n = n.value
    return isinstance(n, ast.Name)


class _Top:
    def __repr__(self):
        return 'TOP'


TOP = _Top()


class _NonNull:
    """some object that is certainly not None (a tuple/list/dict display)"""

    def __repr__(self):
        return 'NONNULL'


NONNULL = _NonNull()
ALL = frozenset('<=>')
_OPS = {ast.Eq: frozenset('='), ast.NotEq: frozenset('<>'), ast.Lt: frozenset('<'), ast.LtE: frozenset('<='),
        ast.Gt: frozenset('>'), ast.GtE: frozenset('>=')}
_FLIP = {'<': '>', '>': '<', '=': '='}


class State:
    __slots__ = ('env', 'rel', 'defined', 'maybe')

    def __init__(self, env=None, rel=None, defined=None, maybe=None):
        self.env = dict(env or {})
        self.rel = dict(rel or {})
        self.defined = set(defined or ())      # names definitely assigned
        self.maybe = set(maybe or ())          # names possibly assigned

    def copy(self):
        return State(self.env, self.rel, self.defined, self.maybe)

    def kill(self, name):
        self.env.pop(name, None)
        for k in [k for k in self.rel if _mentions(k[0], name) or _mentions(k[1], name)]:
            del self.rel[k]

    def set(self, name, value):
        self.kill(name)
        self.env[name] = value
        self.defined.add(name)
        self.maybe.add(name)


def _mentions(text, name):
    import re
    return re.search(r'(?<![\w.])%s(?![\w])' % re.escape(name), text) is not None


class Event:
    __slots__ = ('kind', 'node', 'info', 'depth', 'state', 'pre')

    def __init__(self, kind, node, info=None, depth=0, state=None, pre=None):
        self.kind, self.node, self.info, self.depth, self.state = kind, node, info, depth, state
        self.pre = pre      # names definitely assigned before the statement (snapshot mode)

    def __repr__(self):
        return '<%s %s %s>' % (self.kind, src(self.node)[:60] if self.node is not None else '', self.info)


class Path:
    __slots__ = ('events', 'exit', 'state', 'exit_node')

    def __init__(self, events, exit, state, exit_node=None):
        self.events, self.exit, self.state, self.exit_node = events, exit, state, exit_node

    def decisions(self):
        return ['%s -> %s' % (src(e.node)[:70], e.info) for e in self.events if e.kind == 'test']

    def calls(self, suffix):
        out = []
        for e in self.events:
            if e.kind == 'stmt':
                for c in ast.walk(e.node):
                    if isinstance(c, ast.Call):
                        t = src(c.func)
                        if t == suffix or t.endswith('.' + suffix):
                            out.append((e, c))
        return out

    def stmts(self):
        return [e for e in self.events if e.kind == 'stmt']


class Enumerator:
    def __init__(self, cond_hook=None, stmt_hook=None, assume_nonneg=(), limit=20000, loop_once_names=(),
                 snapshot=False, for_nonempty=()):
        self.cond_hook = cond_hook
        self.stmt_hook = stmt_hook
        self.assume_nonneg = tuple(assume_nonneg)
        self.limit = limit
        self.count = 0
        self.snapshot = snapshot
        self.for_nonempty = tuple(for_nonempty)   # iterables (text) known to be non-empty

    # ------------------------------------------------------------------ conditions
    def const_of(self, n, st):
        if isinstance(n, ast.Constant):
            return n.value
        if (isinstance(n, ast.Name) and n.id == 'INFINITY' and n.id not in st.env) or \
                (isinstance(n, ast.Attribute) and src(n) in ('np.inf', 'numpy.inf', 'math.inf', 'np.Inf', 'np.infty')) or \
                (isinstance(n, ast.Call) and src(n).replace('"', "'").replace(' ', '') == "float('inf')"):
            return float('inf')     # libc.math INFINITY / numpy's / Python's spelling of +inf
        if isinstance(n, ast.Name):
            return st.env.get(n.id, TOP)
        if isinstance(n, ast.Attribute) and _is_chain(n):
            return st.env.get(src(n), TOP)
        if isinstance(n, ast.UnaryOp) and isinstance(n.op, ast.USub):
            v = self.const_of(n.operand, st)
            return -v if isinstance(v, (int, float)) and not isinstance(v, bool) else TOP
        if isinstance(n, ast.Call) and isinstance(n.func, ast.Name) and n.func.id == '__cast__':
            return self.const_of(n.args[1], st)
        if isinstance(n, (ast.Tuple, ast.List, ast.Dict, ast.Set, ast.ListComp, ast.DictComp, ast.JoinedStr)):
            return NONNULL
        if isinstance(n, ast.BinOp) and isinstance(n.op, (ast.Add, ast.Sub, ast.Mult)):
            a, b = self.const_of(n.left, st), self.const_of(n.right, st)
            if all(isinstance(x, (int, float)) and not isinstance(x, bool) for x in (a, b)):
                return a + b if isinstance(n.op, ast.Add) else (a - b if isinstance(n.op, ast.Sub) else a * b)
        return TOP

    def relset(self, l, r, st):
        lt, rt = src(l), src(r)
        cl, cr = self.const_of(l, st), self.const_of(r, st)
        if cl is NONNULL or cr is NONNULL:
            cl = cr = TOP
        if cl is not TOP and cr is not TOP and cl is not None and cr is not None:
            try:
                if cl == cr:
                    return frozenset('=')
                if isinstance(cl, (int, float)) and isinstance(cr, (int, float)):
                    return frozenset('<') if cl < cr else frozenset('>')
                return frozenset('<>')
            except TypeError:
                return frozenset('<>')
        # +inf against a quantity that is not known to be infinite (grid times, clocks): strictly greater
        if isinstance(cl, float) and cl == float('inf') and cr is TOP:
            return frozenset('>')
        if isinstance(cr, float) and cr == float('inf') and cl is TOP:
            return frozenset('<')
        if (lt, rt) in st.rel:
            return st.rel[(lt, rt)]
        if (rt, lt) in st.rel:
            return frozenset(_FLIP[x] for x in st.rel[(rt, lt)])
        base = ALL
        if lt in self.assume_nonneg and cr == 0 and cr is not False:
            base = frozenset('=>')
        if rt in self.assume_nonneg and cl == 0:
            base = frozenset('<=')
        return base

    def evaluate(self, test, st):
        """True / False / None"""
        if self.cond_hook is not None:
            r = self.cond_hook(test, st, self)
            if r is not NotImplemented:
                return r
        if isinstance(test, ast.Constant):
            return bool(test.value)
        if isinstance(test, (ast.Name, ast.Attribute)) and (isinstance(test, ast.Name) or _is_chain(test)):
            v = st.env.get(src(test), TOP)
            if v is TOP:
                # truthiness of X is the relation X != 0
                rs = self.relset(test, ast.Constant(value=0), st)
                if rs == frozenset('='):
                    return False
                if '=' not in rs:
                    return True
                return None
            return bool(v)
        if isinstance(test, ast.UnaryOp) and isinstance(test.op, ast.Not):
            v = self.evaluate(test.operand, st)
            return None if v is None else (not v)
        if isinstance(test, ast.BoolOp):
            vals = [self.evaluate(v, st) for v in test.values]
            if isinstance(test.op, ast.And):
                if any(v is False for v in vals):
                    return False
                return True if all(v is True for v in vals) else None
            if any(v is True for v in vals):
                return True
            return False if all(v is False for v in vals) else None
        if isinstance(test, ast.Compare) and len(test.ops) == 1:
            op = type(test.ops[0])
            l, r = test.left, test.comparators[0]
            if op in (ast.Is, ast.IsNot):
                cl, cr = self.const_of(l, st), self.const_of(r, st)
                if cl is not TOP and cr is not TOP:
                    if cl is NONNULL or cr is NONNULL:
                        if cl is None or cr is None:
                            return op is ast.IsNot
                        return None
                    same = (cl is cr) or (cl == cr and type(cl) is type(cr))
                    return same if op is ast.Is else (not same)
                return None
            if op in _OPS:
                rs = self.relset(l, r, st)
                sat = _OPS[op]
                if rs <= sat:
                    return True
                if not (rs & sat):
                    return False
                return None
        return None

    def assume(self, test, truth, st):
        """Refine st under test == truth (in place)."""
        if isinstance(test, ast.UnaryOp) and isinstance(test.op, ast.Not):
            return self.assume(test.operand, not truth, st)
        if isinstance(test, ast.BoolOp):
            conj = isinstance(test.op, ast.And)
            if conj == truth:
                # and-true / or-false: every operand has that value
                for v in test.values:
                    self.assume(v, truth, st)
            else:
                unknown = [v for v in test.values if self.evaluate(v, st) is None]
                if len(unknown) == 1:
                    self.assume(unknown[0], truth, st)
            return
        if isinstance(test, ast.Name) or (isinstance(test, ast.Attribute) and _is_chain(test)):
            if truth:
                self._refine(test, ast.Constant(value=0), frozenset('<>'), st)
            else:
                self._refine(test, ast.Constant(value=0), frozenset('='), st)
            return
        if isinstance(test, ast.Compare) and len(test.ops) == 1 and type(test.ops[0]) in _OPS:
            sat = _OPS[type(test.ops[0])]
            if not truth:
                sat = ALL - sat
            self._refine(test.left, test.comparators[0], sat, st)

    def _refine(self, l, r, sat, st):
        lt, rt = src(l), src(r)
        cur = self.relset(l, r, st)
        new = cur & sat
        if (rt, lt) in st.rel and (lt, rt) not in st.rel:
            st.rel[(rt, lt)] = frozenset(_FLIP[x] for x in new)
        else:
            st.rel[(lt, rt)] = new
        # a name equal to a constant becomes that constant
        if new == frozenset('=') and isinstance(l, ast.Name):
            c = self.const_of(r, st)
            if c is not TOP and st.env.get(l.id, TOP) is TOP:
                st.env[l.id] = c

    # ------------------------------------------------------------------ statements
    def run(self, stmts, st=None, depth=0):
        """All paths through stmts: list of Path."""
        st = st or State()
        self.count = 0
        return self._seq(list(stmts), 0, st, [], depth)

    def _emit(self, events, kind, node, info, depth, st, pre=None):
        events.append(Event(kind, node, info, depth, st.copy() if self.snapshot else None,
                            pre if pre is not None else (set(st.defined) if self.snapshot else None)))

    def _seq(self, stmts, i, st, events, depth):
        while i < len(stmts):
            s = stmts[i]
            i += 1
            if isinstance(s, (ast.FunctionDef, ast.ClassDef, ast.Import, ast.ImportFrom, ast.Global, ast.Pass)):
                continue
            if isinstance(s, ast.Expr) and isinstance(s.value, ast.Constant):
                continue
            if isinstance(s, ast.If):
                v = self.evaluate(s.test, st)
                out = []
                for truth, body in ((True, s.body), (False, s.orelse)):
                    if v is not None and v != truth:
                        continue
                    st2 = st.copy()
                    ev2 = list(events)
                    if v is None:
                        self.assume(s.test, truth, st2)
                    self._emit(ev2, 'test', s.test, truth, depth, st2)
                    for p in self._seq(list(body), 0, st2, ev2, depth):
                        if p.exit == 'fall':
                            out.extend(self._seq(stmts, i, p.state, p.events, depth))
                        else:
                            out.append(p)
                return out
            if isinstance(s, (ast.While, ast.For)):
                out = []
                for p in self._loop(s, st, events, depth):
                    if p.exit == 'fall':
                        out.extend(self._seq(stmts, i, p.state, p.events, depth))
                    else:
                        out.append(p)
                return out
            if isinstance(s, ast.Try):
                out = []
                for p in self._try(s, st, events, depth):
                    if p.exit == 'fall':
                        out.extend(self._seq(stmts, i, p.state, p.events, depth))
                    else:
                        out.append(p)
                return out
            if isinstance(s, ast.With):
                self._emit(events, 'stmt', s.items[0].context_expr, 'with', depth, st)
                out = []
                for p in self._seq(list(s.body), 0, st, events, depth):
                    if p.exit == 'fall':
                        out.extend(self._seq(stmts, i, p.state, p.events, depth))
                    else:
                        out.append(p)
                return out
            if isinstance(s, ast.Break):
                return [Path(events, 'break', st, s)]
            if isinstance(s, ast.Continue):
                return [Path(events, 'continue', st, s)]
            if isinstance(s, ast.Return):
                self._emit(events, 'stmt', s, 'return', depth, st)
                return [Path(events, 'return', st, s)]
            if isinstance(s, ast.Raise):
                self._emit(events, 'stmt', s, 'raise', depth, st)
                return [Path(events, 'raise', st, s)]
            # simple statement
            pre = set(st.defined) if self.snapshot else None
            self._simple(s, st)
            if self.stmt_hook is not None:
                self.stmt_hook(s, st, events)
            self._emit(events, 'stmt', s, None, depth, st, pre)
        self.count += 1
        if self.count > self.limit:
            raise AnalysisError('path limit exceeded (%d)' % self.limit)
        return [Path(events, 'fall', st)]

    def _simple(self, s, st):
        if isinstance(s, ast.AnnAssign):
            if s.value is None:
                return
            targets, value = [s.target], s.value
        elif isinstance(s, ast.Assign):
            targets, value = s.targets, s.value
        elif isinstance(s, ast.AugAssign):
            t = s.target
            if isinstance(t, ast.Name):
                cur = st.env.get(t.id, TOP)
                c = self.const_of(s.value, st)
                newv = TOP
                if cur is not TOP and c is not TOP and isinstance(cur, (int, float)) and isinstance(c, (int, float)):
                    try:
                        newv = {ast.Add: cur + c, ast.Sub: cur - c, ast.Mult: cur * c}.get(type(s.op), TOP)
                    except Exception:
                        newv = TOP
                st.kill(t.id)
                st.env[t.id] = newv
                st.maybe.add(t.id)
            else:
                self._kill_target(t, st)
            return
        else:
            return
        c = self.const_of(value, st)
        for t in targets:
            if isinstance(t, ast.Name):
                st.set(t.id, c)
            elif isinstance(t, ast.Attribute) and _is_chain(t):
                st.set(src(t), c)
            elif isinstance(t, (ast.Tuple, ast.List)):
                vals = value.elts if isinstance(value, (ast.Tuple, ast.List)) and len(value.elts) == len(t.elts) else None
                cs = [self.const_of(v, st) for v in vals] if vals is not None else None
                for k, e in enumerate(t.elts):
                    if isinstance(e, ast.Name):
                        st.set(e.id, cs[k] if cs is not None else TOP)
                    else:
                        self._kill_target(e, st)
            else:
                self._kill_target(t, st)

    def _kill_target(self, t, st):
        base = t
        while isinstance(base, (ast.Subscript, ast.Attribute)):
            base = base.value
        txt = src(t)
        for k in [k for k in st.rel if txt in k[0] or txt in k[1]]:
            del st.rel[k]

    def _havoc(self, body, st):
        for n in ast.walk(ast.Module(body=list(body), type_ignores=[])):
            if isinstance(n, (ast.Assign, ast.AugAssign, ast.AnnAssign, ast.For)):
                tg = n.targets if isinstance(n, ast.Assign) else [n.target]
                if isinstance(n, ast.AnnAssign) and n.value is None:
                    continue
                for t in tg:
                    for x in ast.walk(t):
                        if isinstance(x, ast.Name) and isinstance(getattr(x, 'ctx', None), ast.Store):
                            st.kill(x.id)
                            st.env[x.id] = TOP
                            st.maybe.add(x.id)
                    if isinstance(t, ast.Attribute) and _is_chain(t):
                        st.kill(src(t))
                        st.env[src(t)] = TOP
                    elif not isinstance(t, ast.Name):
                        self._kill_target(t, st)

    def _loop(self, s, st, events, depth):
        out = []
        is_while = isinstance(s, ast.While)
        v = self.evaluate(s.test, st) if is_while else None
        nonempty = (not is_while) and src(s.iter) in self.for_nonempty
        # zero iterations
        if (is_while and v is not True) or (not is_while and not nonempty):
            st0 = st.copy()
            ev0 = list(events)
            if is_while:
                if v is None:
                    self.assume(s.test, False, st0)
                self._emit(ev0, 'test', s.test, False, depth, st0)
            else:
                self._emit(ev0, 'loop0', s, None, depth, st0)
            if s.orelse:
                out.extend(self._seq(list(s.orelse), 0, st0, ev0, depth))
            else:
                out.append(Path(ev0, 'fall', st0))
        # one or more iterations
        if not (is_while and v is False):
            st1 = st.copy()
            ev1 = list(events)
            # first iteration runs on the entry state; later iterations on a havocked one.  To stay sound for
            # "may" queries and simple for "must" queries the pass is made on the havocked state, except that
            # definedness is taken from the entry state.
            self._havoc(s.body, st1)
            if is_while:
                self.assume(s.test, True, st1)
                self._emit(ev1, 'test', s.test, True, depth, st1)
            else:
                for x in ast.walk(s.target):
                    if isinstance(x, ast.Name):
                        st1.set(x.id, TOP)
                self._emit(ev1, 'loop+', s, None, depth, st1)
            for p in self._seq(list(s.body), 0, st1, ev1, depth + 1):
                if p.exit in ('return', 'raise'):
                    out.append(p)
                    continue
                st2 = p.state.copy()
                # after the loop: everything assigned in the body is unknown again, but stays defined
                d, m = set(st2.defined), set(st2.maybe)
                self._havoc(s.body, st2)
                st2.defined, st2.maybe = d, m
                ev2 = list(p.events)
                if p.exit == 'break':
                    self._emit(ev2, 'loopexit', s, 'break', depth, st2)
                    out.append(Path(ev2, 'fall', st2))
                else:
                    if is_while:
                        self.assume(s.test, False, st2)
                    self._emit(ev2, 'loopexit', s, 'end', depth, st2)
                    if s.orelse:
                        out.extend(self._seq(list(s.orelse), 0, st2, ev2, depth))
                    else:
                        out.append(Path(ev2, 'fall', st2))
        return out

    def _try(self, s, st, events, depth):
        out = []
        # normal completion
        for p in self._seq(list(s.body), 0, st.copy(), list(events), depth):
            if p.exit == 'fall' and s.orelse:
                out.extend(self._seq(list(s.orelse), 0, p.state, p.events, depth))
            elif p.exit == 'raise' and s.handlers:
                # an explicit raise inside the try body is caught by a handler (over-approximation: any)
                for h in s.handlers:
                    st2 = p.state.copy()
                    ev2 = list(p.events)
                    self._emit(ev2, 'except', h, None, depth, st2)
                    if h.name:
                        st2.set(h.name, TOP)
                    out.extend(self._seq(list(h.body), 0, st2, ev2, depth))
            else:
                out.append(p)
        # exceptional completion from somewhere inside the body
        for h in s.handlers:
            st2 = st.copy()
            d = set(st2.defined)
            self._havoc(s.body, st2)
            st2.defined = d           # nothing assigned in the body is definitely assigned
            ev2 = list(events)
            self._emit(ev2, 'except', h, None, depth, st2)
            if h.name:
                st2.set(h.name, TOP)
            out.extend(self._seq(list(h.body), 0, st2, ev2, depth))
        if s.finalbody:
            res = []
            for p in out:
                if p.exit == 'fall':
                    res.extend(self._seq(list(s.finalbody), 0, p.state, p.events, depth))
                else:
                    res.append(p)
            out = res
        return out


# ---------------------------------------------------------------------------------------
# queries
# ---------------------------------------------------------------------------------------

def stmt_calls(node, suffix):
    out = []
    for c in ast.walk(node):
        if isinstance(c, ast.Call):
            t = src(c.func)
            if t == suffix or t.endswith('.' + suffix):
                out.append(c)
    return out


def index_of(path, pred, start=0):
    for i in range(start, len(path.events)):
        if pred(path.events[i]):
            return i
    return -1


def describe(path, maxn=12):
    d = path.decisions()
    return ' ; '.join(d[:maxn]) + (' ...' if len(d) > maxn else '')


# ---------------------------------------------------------------------------------------
# A5: definite assignment (forward must-analysis, linear in the size of the body)
# ---------------------------------------------------------------------------------------

def _comp_bound(node):
    out = set()
    for n in ast.walk(node):
        if isinstance(n, ast.comprehension):
            for x in ast.walk(n.target):
                if isinstance(x, ast.Name):
                    out.add(x.id)
        if isinstance(n, ast.Lambda):
            for a in n.args.args:
                out.add(a.arg)
    return out


class _Ref:
    """a read of a tracked name or attribute chain"""

    def __init__(self, id, node):
        self.id = id
        self.node = node
        self.lineno = getattr(node, 'lineno', 0)


def _loads(node):
    bound = _comp_bound(node)
    out = [n for n in ast.walk(node) if isinstance(n, ast.Name) and isinstance(n.ctx, ast.Load) and n.id not in bound]
    for n in ast.walk(node):
        if isinstance(n, ast.Attribute) and _is_chain(n) and isinstance(n.ctx, ast.Load):
            out.append(_Ref(src(n), n))
    return out


def _targets(t, out):
    if isinstance(t, ast.Name):
        out.add(t.id)
    elif isinstance(t, ast.Attribute) and _is_chain(t):
        out.add(src(t))
    elif isinstance(t, (ast.Tuple, ast.List)):
        for e in t.elts:
            _targets(e, out)
    elif isinstance(t, ast.Starred):
        _targets(t.value, out)


def definite_assignment(stmts, defined, tracked, const_false=()):
    """Reads of `tracked` names that are not definitely assigned before, given the set `defined` at entry.

    const_false: predicate(test) -> True if the test is to be taken as constantly false (branch pruned).
    Returns (reads, defined_out): reads = list of (name, node)."""
    reads = []

    def use(expr, d):
        for n in _loads(expr):
            if n.id in tracked and n.id not in d:
                reads.append((n.id, n))

    def block(body, d):
        d = set(d)
        for s in body:
            if d is None:
                break
            d = stmt(s, d)
        return d

    def stmt(s, d):
        if isinstance(s, (ast.FunctionDef, ast.ClassDef, ast.Import, ast.ImportFrom, ast.Global, ast.Pass)):
            return d
        if isinstance(s, ast.Assign):
            use(s.value, d)
            for t in s.targets:
                if isinstance(t, ast.Subscript):
                    use(t.value, d); use(t.slice, d)
                elif not isinstance(t, (ast.Name, ast.Tuple, ast.List, ast.Attribute)):
                    use(t, d)
            for t in s.targets:
                _targets(t, d)
            return d
        if isinstance(s, ast.AnnAssign):
            if s.value is not None:
                use(s.value, d)
                _targets(s.target, d)
            return d
        if isinstance(s, ast.AugAssign):
            use(s.value, d)
            use(s.target, d) if not isinstance(s.target, ast.Name) else (reads.append((s.target.id, s.target)) if s.target.id in tracked and s.target.id not in d else None)
            _targets(s.target, d)
            return d
        if isinstance(s, (ast.Expr, ast.Return, ast.Raise, ast.Assert, ast.Delete)):
            for ch in ast.iter_child_nodes(s):
                use(ch, d)
            return None if isinstance(s, (ast.Return, ast.Raise)) else d
        if isinstance(s, (ast.Break, ast.Continue)):
            return None
        if isinstance(s, ast.If):
            use(s.test, d)
            if const_false and const_false(s.test):
                return block(s.orelse, d)
            a = block(s.body, d)
            b = block(s.orelse, d)
            if a is None:
                return b
            if b is None:
                return a
            return a & b
        if isinstance(s, ast.For):
            use(s.iter, d)
            d2 = set(d)
            _targets(s.target, d2)
            block(s.body, d2)
            r = block(s.orelse, d) if s.orelse else d
            return r
        if isinstance(s, ast.While):
            use(s.test, d)
            block(s.body, d)
            return block(s.orelse, d) if s.orelse else d
        if isinstance(s, ast.With):
            for it in s.items:
                use(it.context_expr, d)
                if it.optional_vars is not None:
                    _targets(it.optional_vars, d)
            return block(s.body, d)
        if isinstance(s, ast.Try):
            a = block(s.body, d)
            outs = []
            if a is not None:
                outs.append(block(s.orelse, a) if s.orelse else a)
            for h in s.handlers:
                dh = set(d)
                if h.name:
                    dh.add(h.name)
                outs.append(block(h.body, dh))
            outs = [o for o in outs if o is not None]
            r = set.intersection(*outs) if outs else None
            if s.finalbody and r is not None:
                r = block(s.finalbody, r)
            return r
        raise AnalysisError('definite assignment: unsupported statement %s' % type(s).__name__)
    out = block(stmts, defined)
    return reads, out
