"""Variants for the analyser self-test (see selftest.py).  kind='fire': behaviour-changing edit the
rules must report (id containing `expect`); kind='silent': behaviour-preserving edit they must not."""

MUTANTS = []
T, S, R, L = 'bioscrape/types.pyx', 'bioscrape/simulator.pyx', 'bioscrape/random.pyx', 'lineage/lineage.pyx'
SB, PI, IS, AN = 'bioscrape/sbmlutil.py', 'bioscrape/pid_interfaces.py', 'bioscrape/inference_setup.py', 'bioscrape/analysis.py'


def M(prop, name, file, old, new, kind, expect=''):
    MUTANTS.append({'prop': prop, 'name': name, 'file': file, 'old': old, 'new': new, 'kind': kind, 'expect': expect})


# ------------------------------------------------------------------ C01
M('C01', 'hill-volume-not-concentration', T,
  """    cdef double get_volume_propensity(self, double *state, double *params, double volume, double time):
        cdef double X = state[self.s1_index] / volume
        cdef double K = params[self.K_index]
        cdef double n = params[self.n_index]
        cdef double rate = params[self.rate_index]
        return rate * (X / K) ** n / (1 + (X/K)**n)

    def initialize(self, dict param_dictionary, dict species_indices, dict parameter_indices):

        for key,value in param_dictionary.items():
            if key == 's1':
                self.s1_index = species_indices[value]
            elif key == 'K':
                self.K_index = parameter_indices[value]
            elif key == 'n':
                self.n_index = parameter_indices[value]
            elif key == 'k':
                self.rate_index = parameter_indices[value]
            else:
                logging.info('Warning! Useless field for PositiveHillPropensity '+str(key))""",
  """    cdef double get_volume_propensity(self, double *state, double *params, double volume, double time):
        cdef double X = state[self.s1_index]
        cdef double K = params[self.K_index]
        cdef double n = params[self.n_index]
        cdef double rate = params[self.rate_index]
        return rate * (X / K) ** n / (1 + (X/K)**n)

    def initialize(self, dict param_dictionary, dict species_indices, dict parameter_indices):

        for key,value in param_dictionary.items():
            if key == 's1':
                self.s1_index = species_indices[value]
            elif key == 'K':
                self.K_index = parameter_indices[value]
            elif key == 'n':
                self.n_index = parameter_indices[value]
            elif key == 'k':
                self.rate_index = parameter_indices[value]
            else:
                logging.info('Warning! Useless field for PositiveHillPropensity '+str(key))""",
  'fire', 'R1.1-formula/PositiveHillPropensity/volume')
M('C01', 'bimolecular-volume-dropped', T,
  "return params[self.rate_index] * state[self.s1_index] * state[self.s2_index] / volume\n\n    cdef double get_stochastic_volume",
  "return params[self.rate_index] * state[self.s1_index] * state[self.s2_index]\n\n    cdef double get_stochastic_volume",
  'fire', 'R1.1-formula/BimolecularPropensity/volume')
M('C01', 'bimolecular-same-species-guard', T,
  "            return params[self.rate_index]*state[self.s1_index]*max(state[self.s1_index]-1, 0)\n\n\n    cdef double get_volume_propensity",
  "            return params[self.rate_index]*state[self.s1_index]*max(state[self.s1_index], 0)\n\n\n    cdef double get_volume_propensity",
  'fire', 'R1.1-formula/BimolecularPropensity/stochastic/2A')
M('C01', 'massaction-volume-exponent', T,
  "return self.get_stochastic_propensity(state, params, time) / (volume ** (self.num_species - 1))",
  "return self.get_stochastic_propensity(state, params, time) / (volume ** (self.num_species))",
  'fire', 'R1.1-formula/MassActionPropensity/stochastic+volume')
M('C01', 'massaction-stochastic-offbyone', T,
  "                ans *= max(state[self.sp_inds[i]]-j, 0)",
  "                ans *= max(state[self.sp_inds[i]]-j-1, 0)", 'fire', 'R1.1-formula/MassActionPropensity/stochastic')
M('C01', 'neghill-K-n-swapped-binding', T,
  """            elif key == 'K':
                self.K_index = parameter_indices[value]
            elif key == 'n':
                self.n_index = parameter_indices[value]
            elif key == 'k':
                self.rate_index = parameter_indices[value]
            else:
                logging.info('Warning! Useless field for NegativeHillPropensity '+str(key))""",
  """            elif key == 'K':
                self.n_index = parameter_indices[value]
            elif key == 'n':
                self.K_index = parameter_indices[value]
            elif key == 'k':
                self.rate_index = parameter_indices[value]
            else:
                logging.info('Warning! Useless field for NegativeHillPropensity '+str(key))""",
  'fire', 'NegativeHillPropensity')
M('C01', 'dispatch-threshold', T, "                elif len(species_names) == 2:\n                    prop_object = BimolecularPropensity()",
  "                elif len(species_names) <= 3:\n                    prop_object = BimolecularPropensity()", 'fire', 'R1.3-dispatch/massaction/3')
M('C01', 'iface-wrong-slot', S,
  "propensity_destination[rxn] = (<Propensity> (self.c_propensities[0][rxn]) ).get_stochastic_volume_propensity(state, self.c_param_values, volume, time)\n\n    cdef unsigned get_number_of_rules",
  "propensity_destination[rxn] = (<Propensity> (self.c_propensities[0][rxn]) ).get_volume_propensity(state, self.c_param_values, volume, time)\n\n    cdef unsigned get_number_of_rules",
  'fire', 'R1.4-iface-loop/ModelCSimInterface/compute_stochastic_volume_propensities')
M('C01', 'multiset-count-not-incremented', T, "                        self.sp_counts[sp_ind] += 1", "                        self.sp_counts[sp_ind] = 1",
  'fire', 'R1.2-binding/MassActionPropensity/species')
M('C01', 'silent-hill-rewrite', T,
  """        cdef double rate = params[self.rate_index]
        return rate * 1 / (1 + (X/K)**n)

    cdef double get_volume_propensity(self, double *state, double *params, double volume, double time):
        cdef double X = state[self.s1_index] / volume""",
  """        cdef double rate = params[self.rate_index]
        cdef double ratio = X / K
        return rate / (1.0 + pow(ratio, n))

    cdef double get_volume_propensity(self, double *state, double *params, double volume, double time):
        cdef double X = state[self.s1_index] / volume""", 'silent')
M('C01', 'silent-massaction-pow', T, "            ans *= state[self.sp_inds[i]] ** self.sp_counts[i]",
  "            ans = ans * pow(state[self.sp_inds[i]], self.sp_counts[i])", 'silent')
M('C01', 'silent-unimolecular-reorder', T, "        return params[self.rate_index] * state[self.species_index]\n\n    cdef double get_volume_propensity",
  "        return state[self.species_index] * params[self.rate_index]\n\n    cdef double get_volume_propensity", 'silent')

# ------------------------------------------------------------------ C05
M('C05', 'exponential-reciprocal', R, "return -1.0/Lambda* log( uniform_rv() )", "return -1.0*Lambda* log( uniform_rv() )", 'fire', 'exponential_rv')
M('C05', 'sample-return-i', R, "        i += 1\n    return i - 1", "        i += 1\n    return i", 'fire', 'sample_discrete')
M('C05', 'sample-bound', R, "while p_sum < q and i < choices:", "while p_sum < q and i <= choices:", 'fire', 'sample_discrete')
M('C05', 'array-sum-short', R, "    for i in range(length):\n        answer += data[i]", "    for i in range(length-1):\n        answer += data[i]", 'fire', 'array_sum')
MUTANTS.append({'prop': 'C05', 'name': 'ssa-update-before-record', 'kind': 'fire', 'expect': 'R5.2-record-before-update/SSASimulator', 'edits': [
    {'file': S, 'old': "            # Update previous states\n            while current_index",
     'new': "            if Lambda > 0 and reaction_fired:\n                reaction_choice = cyrandom.sample_discrete(num_reactions, <double*> c_propensity.data , Lambda)\n                for species_index in range(num_species):\n                    c_current_state[species_index] += c_stoich[species_index,reaction_choice]\n            # Update previous states\n            while current_index"},
    {'file': S, 'old': "            # Choose a reaction and update the state accordingly.\n            if Lambda > 0 and reaction_fired:", 'new': "            if False:"}]})
M('C05', 'ssa-lambda-short', S,
  "Lambda = cyrandom.array_sum(<double*> (c_propensity.data), num_reactions)\n\n            # Either we are going to move to the next queued time, or we move to the next reaction time.\n            if Lambda == 0:\n                # nothing can fire",
  "Lambda = cyrandom.array_sum(<double*> (c_propensity.data), num_reactions-1)\n\n            # Either we are going to move to the next queued time, or we move to the next reaction time.\n            if Lambda == 0:\n                # nothing can fire",
  'fire', 'R5.2-lambda/VolumeSSASimulator')
M('C05', 'ssa-event-carried-to-grid', S,
  """            if proposed_time > c_timepoints[current_index]:
                current_time = c_timepoints[current_index]
                reaction_fired = 0
                rule_step = 1
            else:
                current_time = proposed_time""",
  """            if proposed_time > c_timepoints[current_index]:
                current_time = c_timepoints[current_index]
                rule_step = 1
            else:
                current_time = proposed_time""", 'fire', 'R5.2-event-time/SSASimulator')
M('C05', 'silent-exponential-rewrite', R, "return -1.0/Lambda* log( uniform_rv() )", "return -log(uniform_rv()) / Lambda", 'silent')
M('C05', 'silent-sample-le', R, "while p_sum < q and i < choices:", "while i < choices and p_sum < q:", 'silent')

# ------------------------------------------------------------------ C06
M('C06', 'drop-reaction-fired-reset', S,
  """            if Lambda == 0:
                proposed_time = c_timepoints[current_index]
                reaction_fired = 0
                rule_step = 1
            else:
                proposed_time = current_time + cyrandom.exponential_rv(Lambda)
                reaction_fired = 1
                rule_step = 0

            #Go to the next reaction or the next timepoint, whichever is closer
            if proposed_time > c_timepoints[current_index]:
                proposed_time = c_timepoints[current_index]
                reaction_fired = 0
                rule_step = 1
""",
  """            if Lambda == 0:
                proposed_time = c_timepoints[current_index]
                reaction_fired = 1
                rule_step = 1
            else:
                proposed_time = current_time + cyrandom.exponential_rv(Lambda)
                reaction_fired = 1
                rule_step = 0

            #Go to the next reaction or the next timepoint, whichever is closer
            if proposed_time > c_timepoints[current_index]:
                proposed_time = c_timepoints[current_index]
                rule_step = 1
""", 'fire', 'R6.2-zero-propensity/DelaySSASimulator')
M('C06', 'lambda-ge', S, "            if Lambda > 0 and reaction_fired:", "            if Lambda >= 0 and reaction_fired:", 'silent')
M('C06', 'ssa-lambda-test-removed', S,
  "            if Lambda == 0:\n                proposed_time = c_timepoints[current_index]\n                reaction_fired = 0\n                rule_step = 1\n            else:\n                proposed_time = current_time + cyrandom.exponential_rv(Lambda)\n                reaction_fired = 1\n                rule_step = 0\n\n\n            #Go",
  "            if Lambda < 0:\n                proposed_time = c_timepoints[current_index]\n                reaction_fired = 0\n                rule_step = 1\n            else:\n                proposed_time = current_time + cyrandom.exponential_rv(Lambda)\n                reaction_fired = 1\n                rule_step = 0\n\n\n            #Go",
  'fire', 'R6.2-zero-propensity/SSASimulator')
M('C06', 'safe-test-flipped', S,
  """                if state[self.reaction_input_indices[self.rxn_ind, self.s_ind, 0]] < self.reaction_input_indices[self.rxn_ind, self.s_ind, 1]:
                    propensity_destination[self.rxn_ind] = 0
                    self.prop_is_0 = 1
                self.s_ind+=1
            if self.prop_is_0 == 0:
                propensity_destination[self.rxn_ind] = (<Propensity> (self.c_propensities[0][self.rxn_ind]) ).get_stochastic_propensity(state, self.c_param_values, time)""",
  """                if state[self.reaction_input_indices[self.rxn_ind, self.s_ind, 0]] <= self.reaction_input_indices[self.rxn_ind, self.s_ind, 1]:
                    propensity_destination[self.rxn_ind] = 0
                    self.prop_is_0 = 1
                self.s_ind+=1
            if self.prop_is_0 == 0:
                propensity_destination[self.rxn_ind] = (<Propensity> (self.c_propensities[0][self.rxn_ind]) ).get_stochastic_propensity(state, self.c_param_values, time)""",
  'fire', 'R6.4-safe-eval/SafeModelCSimInterface/compute_stochastic_propensities')
M('C06', 'safe-table-immediate-only', S,
  "if (self.update_array[self.s_ind, self.rxn_ind] < 0) or (self.delay_update_array[self.s_ind, self.rxn_ind] < 0):",
  "if (self.update_array[self.s_ind, self.rxn_ind] < 0):", 'fire', 'R6.4-safe-table')
M('C06', 'safe-amount-min-to-max', S,
  "= -min(self.update_array[self.s_ind, self.rxn_ind], self.delay_update_array[self.s_ind, self.rxn_ind])",
  "= -max(self.update_array[self.s_ind, self.rxn_ind], self.delay_update_array[self.s_ind, self.rxn_ind])", 'fire', 'R6.4-safe-table')
M('C06', 'delayed-column-wrong-index', S,
  """                else:
                    for species_index in range(num_species):
                        c_current_state[species_index] += c_delay_stoich[species_index,reaction_choice]

        # Now need to re-align the final delay queue properly so that the first time comes first etc.
        return DelaySSAResult""",
  """                else:
                    for species_index in range(num_species):
                        c_current_state[species_index] += c_delay_stoich[species_index,reaction_index]

        # Now need to re-align the final delay queue properly so that the first time comes first etc.
        return DelaySSAResult""", 'fire', 'R6.1')
M('C06', 'state-not-copied', S,
  "        cdef np.ndarray[np.double_t,ndim=1] c_current_state = sim.get_initial_state().copy()\n        cdef np.ndarray[np.double_t,ndim=2] c_stoich = sim.get_update_array() + sim.get_delay_update_array()\n        cdef np.ndarray[np.double_t,ndim=2] c_delay_stoich = sim.get_delay_update_array()\n\n        cdef unsigned num_species = c_stoich.shape[0]\n        cdef unsigned num_reactions = c_stoich.shape[1]\n        cdef unsigned num_timepoints = len(timepoints)\n\n        cdef double final_time = timepoints[num_timepoints-1]",
  "        cdef np.ndarray[np.double_t,ndim=1] c_current_state = sim.get_initial_state()\n        cdef np.ndarray[np.double_t,ndim=2] c_stoich = sim.get_update_array() + sim.get_delay_update_array()\n        cdef np.ndarray[np.double_t,ndim=2] c_delay_stoich = sim.get_delay_update_array()\n\n        cdef unsigned num_species = c_stoich.shape[0]\n        cdef unsigned num_reactions = c_stoich.shape[1]\n        cdef unsigned num_timepoints = len(timepoints)\n\n        cdef double final_time = timepoints[num_timepoints-1]",
  'fire', 'R6.1-state-copy/SSASimulator')

# ------------------------------------------------------------------ C07
M('C07', 'volume-object-unbound', S, "    if isinstance(volume, Volume):\n        v = volume\n", "    if isinstance(volume, Volume):\n        pass\n", 'fire', 'volume=object')
M('C07', 'abstract-simulator', S, "            Sim = DelayVolumeSSASimulator()\n", "            Sim = DelayVolumeSimulator()\n", 'fire', 'R7.2-concrete-simulator')
M('C07', 'abstract-simulator-2', S, "            Sim = VolumeSSASimulator()\n", "            Sim = VolumeSimulator()\n", 'fire', 'R7.2-concrete-simulator')
M('C07', 'result-no-timepoints', S, "        self.final_delay_queue = queue\n        self.timepoints = timepoints\n", "        self.final_delay_queue = queue\n", 'fire', 'R7.3-constructor/DelaySSAResult.timepoints')
M('C07', 'volume-result-no-volume', S, "        super().__init__(timepoints, result)\n        self.volume = volume\n", "        super().__init__(timepoints, result)\n", 'fire', 'R7.3-constructor/VolumeSSAResult.volume')
M('C07', 'q-only-in-stochastic', S,
  "        q = ArrayDelayQueue.setup_queue(Interface.py_get_num_reactions(),len(timepoints),timepoints[1]-timepoints[0])\n        if v == None:",
  "        if stochastic:\n            q = ArrayDelayQueue.setup_queue(Interface.py_get_num_reactions(),len(timepoints),timepoints[1]-timepoints[0])\n        if v == None:",
  'fire', 'R7.1-option-lattice')
M('C07', 'truncation-mismatch', S, "            c_volume_trace = c_volume_trace[:(current_index)]\n            c_results = c_results[:current_index,:]\n\n        cdef VolumeSSAResult vsr",
  "            c_volume_trace = c_volume_trace[:(current_index)]\n            c_results = c_results[:current_index+1,:]\n\n        cdef VolumeSSAResult vsr", 'fire', 'R7.4-shape/VolumeSSASimulator')
M('C07', 'time-column-wrong', S, "            df['time'] = self.timepoints", "            df['time'] = self.simulation_result[:, 0]", 'fire', 'R7.4-labels')
M('C07', 'silent-volume-else-restructure', S,
  "    elif volume == False:\n        v = None\n    else:\n        if volume == True:",
  "    elif volume == False or volume is None:\n        v = None\n    else:\n        if volume == True:", 'silent')
M('C07', 'silent-result-super', S, "        self.final_delay_queue = queue\n        self.timepoints = timepoints\n        self.simulation_result = result\n",
  "        super().__init__(timepoints, result)\n        self.final_delay_queue = queue\n", 'silent')

# ------------------------------------------------------------------ C20
M('C20', 'round-dropped', S, "int( (time - self.next_queue_time) / self.dt + 0.5 )", "int( (time - self.next_queue_time) / self.dt )", 'fire', 'R20.1')
M('C20', 'upper-clamp-dropped', S, "        elif index >= int(self.num_cols):\n            index = self.num_cols-1\n", "", 'fire', 'R20.1')
M('C20', 'lower-clamp-dropped', S, "        if index < 0:\n            index = 0\n        elif index >= int(self.num_cols):", "        if index >= int(self.num_cols):", 'fire', 'R20.1')
M('C20', 'mod-dropped', S, "index = (index + self.start_index) % self.num_cols", "index = (index + self.start_index)", 'fire', 'R20.1')
M('C20', 'store-overwrites', S, "self.queue[rxn_id,index] += amount", "self.queue[rxn_id,index] = amount", 'fire', 'R20.1')
M('C20', 'clamp-off-by-one', S, "            index = self.num_cols-1\n", "            index = self.num_cols-2\n", 'fire', 'R20.1')
M('C20', 'advance-before-clear', S,
  "        cdef unsigned i\n        for i in range(self.num_reactions):\n            self.queue[i,self.start_index] = 0\n        # advanced the start index by 1 cycling around the end.\n        self.start_index = (self.start_index + 1) % self.num_cols",
  "        cdef unsigned i\n        self.start_index = (self.start_index + 1) % self.num_cols\n        for i in range(self.num_reactions):\n            self.queue[i,self.start_index] = 0", 'fire', 'advance_time')
M('C20', 'copy-start-index-lost', S,
  "        a.start_index = self.start_index\n        a.queue = self.queue.copy()", "        a.queue = self.queue.copy()", 'fire', 'R20.4-copies/copy')
M('C20', 'copy-aliases-queue', S, "        a.queue = self.queue.copy()", "        a.queue = self.queue", 'fire', 'R20.4-copies/copy')
M('C20', 'partition-short-loop', S, "        for time_index in range(time_points):\n            for reaction_index in range(num_reactions):\n                q1.queue",
  "        for time_index in range(time_points-1):\n            for reaction_index in range(num_reactions):\n                q1.queue", 'fire', 'binomial_partition')
M('C20', 'partition-remainder', S, "q2.queue[reaction_index,time_index] = self.queue[reaction_index,time_index] - q1.queue[reaction_index,time_index]",
  "q2.queue[reaction_index,time_index] = self.queue[reaction_index,time_index]", 'fire', 'binomial_partition')
M('C20', 'set-time-no-dt', S, "        self.next_queue_time = t + self.dt", "        self.next_queue_time = t", 'fire', 'R20.3')
M('C20', 'silent-round-rewrite', S, "int( (time - self.next_queue_time) / self.dt + 0.5 )", "int( 0.5 + (time - self.next_queue_time) * (1.0 / self.dt) )", 'silent')
M('C20', 'silent-copy-order', S, "        a.dt = self.dt\n        a.start_index = self.start_index\n        a.queue = self.queue.copy()",
  "        a.start_index = self.start_index\n        a.queue = self.queue.copy()\n        a.dt = self.dt", 'silent')

# ------------------------------------------------------------------ C10
M('C10', 'enqueue-and-apply', S,
  "                if computed_delay > 0.0:\n                    q.add_reaction(current_time+computed_delay,reaction_choice,1.0)\n                else:\n                    for species_index in range(num_species):\n                        c_current_state[species_index] += c_delay_stoich[species_index,reaction_choice]\n\n        # Now need to re-align",
  "                if computed_delay > 0.0:\n                    q.add_reaction(current_time+computed_delay,reaction_choice,1.0)\n                for species_index in range(num_species):\n                    c_current_state[species_index] += c_delay_stoich[species_index,reaction_choice]\n\n        # Now need to re-align",
  'fire', 'R10.1-one-disposition/DelaySSASimulator')
M('C10', 'delay-not-added-to-time', S,
  "                    q.add_reaction(current_time+computed_delay,reaction_choice,1.0)\n                else:\n                    for species_index in range(num_species):\n                        c_current_state[species_index] += c_delay_stoich[species_index,reaction_choice]\n\n            # 2.",
  "                    q.add_reaction(computed_delay,reaction_choice,1.0)\n                else:\n                    for species_index in range(num_species):\n                        c_current_state[species_index] += c_delay_stoich[species_index,reaction_choice]\n\n            # 2.",
  'fire', 'R10.1-one-disposition/DelayVolumeSSASimulator')
M('C10', 'advance-before-read', S,
  "                q.get_next_reactions(<double*> (c_q_rxn_amt.data))\n", "                q.advance_time()\n                q.get_next_reactions(<double*> (c_q_rxn_amt.data))\n", 'fire', 'R10.2-delivery/DelaySSASimulator')
M('C10', 'gamma-args-swapped', T, "return cyrandom.gamma_rv(params[self.k_index],params[self.theta_index])", "return cyrandom.gamma_rv(params[self.theta_index],params[self.k_index])", 'fire', 'R10.4-delay-class/GammaDelay')
M('C10', 'gaussian-binding-swapped', T, "            if key == 'mean':\n                self.mean_index = parameter_indices[value]\n            elif key == 'std':\n                self.std_index = parameter_indices[value]",
  "            if key == 'mean':\n                self.std_index = parameter_indices[value]\n            elif key == 'std':\n                self.mean_index = parameter_indices[value]", 'fire', 'R10.4-delay-class/GaussianDelay')
M('C10', 'boxmuller-no-2', R, "    R = sqrt(-2*log(u))", "    R = sqrt(-log(u))", 'fire', 'normal_rv')
M('C10', 'gamma-d', R, "    d = k - 1.0/3", "    d = k - 1.0/2", 'fire', 'gamma_rv')
M('C10', 'gamma-accept', R, "log(UNI) < 0.5*x**2+d-d*v+d*log(v)", "log(UNI) < 0.5*x**2+d-d*v+log(v)", 'fire', 'gamma_rv')
M('C10', 'gamma-no-positivity', R, "        if v > 0 and log(UNI) <", "        if log(UNI) <", 'fire', 'gamma_rv')
M('C10', 'queue-length', S, "q = ArrayDelayQueue.setup_queue(Interface.py_get_num_reactions(),len(timepoints),timepoints[1]-timepoints[0])",
  "q = ArrayDelayQueue.setup_queue(Interface.py_get_num_reactions(),len(timepoints),timepoints[1])", 'fire', 'R10.5')
M('C10', 'nodelay-drops-delayed', S, "        cdef np.ndarray[np.double_t,ndim=2] c_stoich = sim.get_update_array() + sim.get_delay_update_array()\n\n        cdef unsigned num_species = c_stoich.shape[0]\n        cdef unsigned num_reactions = c_stoich.shape[1]\n        cdef unsigned num_timepoints = len(timepoints)\n\n        cdef double current_time",
  "        cdef np.ndarray[np.double_t,ndim=2] c_stoich = sim.get_update_array()\n\n        cdef unsigned num_species = c_stoich.shape[0]\n        cdef unsigned num_reactions = c_stoich.shape[1]\n        cdef unsigned num_timepoints = len(timepoints)\n\n        cdef double current_time",
  'fire', 'R10.3-no-delay-sum/VolumeSSASimulator')
M('C10', 'silent-boxmuller-rewrite', R, "    return R*cos(theta)*std + mean", "    return mean + std*(R*cos(theta))", 'silent')
M('C10', 'silent-gamma-rewrite', R, "            return d*v*theta", "            return theta*d*v", 'silent')

# ------------------------------------------------------------------ C09
M('C09', 'predicate-dt-ignores-rule-step', T,
  "        if self.frequency_flag == -1 or self.frequency_flag == time or (rule_step and self.frequency_flag == -2):\n            self.rule_operation(state, params, time, dt)",
  "        if self.frequency_flag == -1 or self.frequency_flag == time or self.frequency_flag == -2:\n            self.rule_operation(state, params, time, dt)", 'fire', 'R9.1-firing-predicate/execute_rule')
M('C09', 'volume-predicate-differs', T,
  "(rule_step and self.frequency_flag == -2):\n            self.rule_volume_operation(state, params, volume, time, dt)",
  "(rule_step and self.frequency_flag == -3):\n            self.rule_volume_operation(state, params, volume, time, dt)", 'fire', 'R9.1-firing-predicate/execute_volume_rule')
M('C09', 'dt-flag-value', T, '        elif rule_frequency == "dt":\n            self.frequency_flag = -2.0', '        elif rule_frequency == "dt":\n            self.frequency_flag = -1.0', 'fire', 'R9.1-frequency-table')
M('C09', 'ode-not-scaled', T, "            state[self.dest_index] = state[self.dest_index] + self.rhs.evaluate(state,params,time)*dt",
  "            state[self.dest_index] = state[self.dest_index] + self.rhs.evaluate(state,params,time)", 'fire', 'R9.2-operation/GeneralODERule.rule_operation')
M('C09', 'assignment-volume-uses-plain-eval', T,
  "            state[self.dest_index] = self.rhs.volume_evaluate(state,params,volume, time)\n\n    def initialize(self, dict fields, species2index, params2index, rule_frequency = \"repeat\"):",
  "            state[self.dest_index] = self.rhs.evaluate(state,params, time)\n\n    def initialize(self, dict fields, species2index, params2index, rule_frequency = \"repeat\"):",
  'fire', 'R9.2-operation/GeneralAssignmentRule.rule_volume_operation')
M('C09', 'param-flag-swapped', T,
  "            self.param_flag = 1\n            self.dest_index = params2index[dest_name]\n        else:\n            self.param_flag = 0\n            self.dest_index = species2index[dest_name]\n\n    def get_species_and_parameters(self, dict fields, dict species2index, dict params2index):\n        instring",
  "            self.param_flag = 0\n            self.dest_index = params2index[dest_name]\n        else:\n            self.param_flag = 0\n            self.dest_index = species2index[dest_name]\n\n    def get_species_and_parameters(self, dict fields, dict species2index, dict params2index):\n        instring",
  'fire', 'R9.2-destination/GeneralAssignmentRule')
M('C09', 'rules-after-propensities', S,
  "            sim.apply_repeated_rules(<double*> c_current_state.data,current_time, rule_step)\n            sim.compute_stochastic_propensities(<double*> c_current_state.data, <double*> c_propensity.data,current_time)",
  "            sim.compute_stochastic_propensities(<double*> c_current_state.data, <double*> c_propensity.data,current_time)\n            sim.apply_repeated_rules(<double*> c_current_state.data,current_time, rule_step)", 'fire', 'R9.3-rules-first/SSASimulator')
M('C09', 'rule-step-after-reaction', S,
  "                proposed_time = current_time + cyrandom.exponential_rv(Lambda)\n                reaction_fired = 1\n                rule_step = 0\n\n\n            #Go",
  "                proposed_time = current_time + cyrandom.exponential_rv(Lambda)\n                reaction_fired = 1\n                rule_step = 1\n\n\n            #Go", 'fire', 'R9.4-rule-step/SSASimulator')
M('C09', 'rule-step-on-delivery', S,
  "                current_time = next_queue_time\n                move_to_queued_time = 1\n                reaction_fired = 0\n                rule_step = 0",
  "                current_time = next_queue_time\n                move_to_queued_time = 1\n                reaction_fired = 0\n                rule_step = 1", 'fire', 'R9.4-rule-step/DelaySSASimulator')
M('C09', 'revert-volume-lambda0-rule-step', S,
  "                proposed_time = c_timepoints[current_index]\n                reaction_fired = 0\n                rule_step = 0\n                move_to_queued_time = 0",
  "                proposed_time = c_timepoints[current_index]\n                reaction_fired = 0\n                rule_step = 1\n                move_to_queued_time = 0", 'fire', 'R9.4-rule-step/VolumeSSASimulator')
M('C09', 'rows-not-all-reruled', S, "                    for index in range(timepoints.shape[0]):\n                        sim.apply_repeated_rules(",
  "                    for index in range(timepoints.shape[0]-1):\n                        sim.apply_repeated_rules(", 'fire', 'R9.5-deterministic/rows')
M('C09', 'rhs-rules-after-derivative', S,
  "    (<CSimInterface>global_simulator).apply_repeated_rules(<double*> state.data,t, rule_step)\n", "", 'fire', 'R9.5-deterministic/rhs_global')
M('C09', 'revert-lineage-double-registration', L,
  "		#Everything below is rebuilt from the *_list / rule lists on every initialization\n",
  "		for rule_object in self.repeat_rules:\n			self.c_repeat_rules.push_back(<void*> rule_object)\n", 'fire', 'R9.6-registered-once/LineageModel')
M('C09', 'model-no-clear', T, "        self.c_repeat_rules.clear()\n        for rule_object in self.repeat_rules:", "        for rule_object in self.repeat_rules:", 'fire', 'R9.6-registered-once')
M('C09', 'revert-lineage-dt', L, "		self.interface.set_dt(delta_t)\n", "", 'fire', 'R9.7-grid-dt/LineageSSASimulator')
M('C09', 'set-dt-dropped', S, "    else:\n        Interface.py_set_dt(dt)\n", "    else:\n        pass\n", 'fire', 'R9.7-grid-dt/py_simulate_model')
M('C09', 'iface-skips-first-rule', S,
  "        for rule_number in range(self.c_repeat_rules[0].size()):\n            (<Rule> (self.c_repeat_rules[0][rule_number])).execute_rule(",
  "        for rule_number in range(1, self.c_repeat_rules[0].size()):\n            (<Rule> (self.c_repeat_rules[0][rule_number])).execute_rule(", 'fire', 'R9.3-interface-apply')
M('C09', 'silent-predicate-reorder', T,
  "        if self.frequency_flag == -1 or self.frequency_flag == time or (rule_step and self.frequency_flag == -2):\n            self.rule_operation(state, params, time, dt)",
  "        if (self.frequency_flag == -2 and rule_step) or self.frequency_flag == time or self.frequency_flag == -1:\n            self.rule_operation(state, params, time, dt)", 'silent')
M('C09', 'silent-ode-rewrite', T, "            state[self.dest_index] = state[self.dest_index] + self.rhs.evaluate(state,params,time)*dt",
  "            state[self.dest_index] += dt*self.rhs.evaluate(state,params,time)", 'silent')

# ------------------------------------------------------------------ C11
M('C11', 'revert-lambda0-volume-step', S,
  "                proposed_time = c_timepoints[current_index]\n                reaction_fired = 0\n                rule_step = 0\n                move_to_queued_time = 0",
  "                proposed_time = c_timepoints[current_index]\n                reaction_fired = 0\n                rule_step = 0\n                move_to_queued_time = 1", 'fire', 'R11.2-pairing/VolumeSSASimulator')
M('C11', 'queue-not-advanced', S, "                current_time = next_vol_time\n                next_vol_time += delta_t\n", "                current_time = next_vol_time\n", 'fire', 'R11.2-pairing/DelayVolumeSSASimulator')
M('C11', 'volume-step-wrong-dt', S,
  "                current_volume += v.get_volume_step(<double*>(c_current_state.data), <double*> sim.get_param_values(),\n                                                    current_time, current_volume, delta_t)",
  "                current_volume += v.get_volume_step(<double*>(c_current_state.data), <double*> sim.get_param_values(),\n                                                    current_time, current_volume, current_time)", 'fire', 'R11.2-volume-writers/VolumeSSASimulator')
M('C11', 'division-no-break', S, "                    cell_divided = True\n                    break\n\n            # if an actual reaction happened", "                    cell_divided = True\n\n            # if an actual reaction happened", 'fire', 'R11.4-division/VolumeSSASimulator')
M('C11', 'growth-law', T, "        return ( exp(self.growth_rate*dt) - 1.0) * volume", "        return ( exp(self.growth_rate*dt)) * volume", 'fire', 'R11.5-growth-law/StochasticTimeThresholdVolume')
M('C11', 'division-window', T, "        if self.division_time > time - dt and self.division_time <= time:", "        if self.division_time > time - dt and self.division_time <= time + dt:", 'fire', 'R11.5-division-window')
M('C11', 'propensity-stale-volume', S,
  "            sim.compute_stochastic_volume_propensities(<double*> (c_current_state.data), <double*> (c_propensity.data),\n                                            current_volume, current_time)\n            Lambda = cyrandom.array_sum(<double*> (c_propensity.data), num_reactions)\n\n            # Either we are going to move to the next queued time, or we move to the next reaction time.",
  "            sim.compute_stochastic_volume_propensities(<double*> (c_current_state.data), <double*> (c_propensity.data),\n                                            v.get_volume(), current_time)\n            Lambda = cyrandom.array_sum(<double*> (c_propensity.data), num_reactions)\n\n            # Either we are going to move to the next queued time, or we move to the next reaction time.",
  'fire', 'R11.2-pairing/VolumeSSASimulator')
M('C11', 'hill-prop-d-over-v', T,
  "        cdef double d = state[self.d_index]\n        cdef double rate = params[self.rate_index]\n        return d * rate * (X / K) ** n / (1 + (X/K)**n)",
  "        cdef double d = state[self.d_index] / volume\n        cdef double rate = params[self.rate_index]\n        return d * rate * (X / K) ** n / (1 + (X/K)**n)", 'fire', 'R11.1-volume-formula/PositiveProportionalHillPropensity')
M('C11', 'silent-growth-rewrite', T, "        return ( exp(gr*dt) - 1.0) * volume", "        return volume * exp(dt*gr) - volume", 'silent')

# ------------------------------------------------------------------ C19
M('C19', 'revert-phantom-event', L, "			elif proposed_time > final_time-10e-8 or Lambda == 0:\n", "			elif proposed_time > final_time-10e-8:\n", 'fire', 'R19.4-no-phantom-event')
M('C19', 'revert-phantom-event-2', L, "			if (next_queue_time < proposed_time or Lambda == 0) and next_queue_time < final_time:\n", "			if next_queue_time < proposed_time and next_queue_time < final_time:\n", 'fire', 'R19.4-idle-step')
MUTANTS.append({'prop': 'C19', 'name': 'estate-not-decremented', 'kind': 'fire', 'expect': 'R19.1-conservation/PerfectBinomialVolumeSplitter',
                'file': S, 'occurrences': 2, 'old': "            dstate[i] = <double> amount\n            estate[i] -= dstate[i]", 'new': "            dstate[i] = <double> amount\n            estate[i] = dstate[i]"})
M('C19', 'perfect-branch-skips-remainder', L,
  "					dstate[species_index] = <int> d_value\n			estate[species_index] -= dstate[species_index]",
  "					dstate[species_index] = <int> d_value\n					continue\n			estate[species_index] -= dstate[species_index]", 'fire', 'R19.1-conservation/LineageVolumeSplitter')
M('C19', 'volume-q', S, "        cdef double q = 1 - p\n", "        cdef double q = 1 - p/2\n", 'fire', 'R19.1-volume/GeneralVolumeSplitter')
M('C19', 'binomial-p-not-volume-fraction', S, "            amount = cyrandom.binom_rnd_f(dstate[species_index],p)\n", "            amount = cyrandom.binom_rnd_f(dstate[species_index],q)\n", 'fire', 'R19.1-volume/GeneralVolumeSplitter')
M('C19', 'lineage-perfect-volume', L, "			v0d = parent.get_volume()*.5\n			v0e = parent.get_volume()*.5", "			v0d = parent.get_volume()*.5\n			v0e = parent.get_volume()", 'fire', 'R19.1-volume/LineageVolumeSplitter')
M('C19', 'daughter-time', L, "LineageVolumeCellState(v0 = v0e, t0 = parent.get_time(), state = estate)", "LineageVolumeCellState(v0 = v0e, t0 = parent.get_initial_time(), state = estate)", 'fire', 'R19.3-daughters')
M('C19', 'daughter-state-swapped', L, "LineageVolumeCellState(v0 = v0e, t0 = parent.get_time(), state = estate)", "LineageVolumeCellState(v0 = v0e, t0 = parent.get_time(), state = dstate)", 'fire', 'R19.3-daughters')
M('C19', 'parent-link-missing', L, "			self.daughter_schnitz2.set_parent(self.s)\n", "", 'fire', 'R19.3-links')
M('C19', 'binom-draws', R, "    cdef unsigned n = int(N+0.5)\n", "    cdef unsigned n = int(N)\n", 'fire', 'R19.2-binomial')
M('C19', 'volume-test-dropped', L,
  "				current_volume = self.interface.apply_volume_rules(&self.c_current_state[0], current_volume, current_time, delta_t, rule_step)\n				if current_volume <= 0:",
  "				current_volume = self.interface.apply_volume_rules(&self.c_current_state[0], current_volume, current_time, delta_t, rule_step)\n				if current_volume < -1:", 'fire', 'R19.5-positive-volume')
M('C19', 'duplicate-default-mislabelled', L, "				elif default == \"duplicate\":\n					self.duplicate_indices.push_back(index)", "				elif default == \"duplicate\":\n					self.binomial_indices.push_back(index)", 'fire', 'R19.1-index-classes/LineageVolumeSplitter')
M('C19', 'duplicate-option-mislabelled', L, "			elif options[s] == \"duplicate\":\n				self.duplicate_indices.push_back(index)", "			elif options[s] == \"duplicate\":\n				self.perfect_indices.push_back(index)", 'fire', 'R19.1-index-classes/LineageVolumeSplitter')
M('C19', 'silent-conservation-rewrite', S, "            amount = cyrandom.binom_rnd_f(dstate[species_index],p)\n            dstate[species_index] = <double> amount\n", "            dstate[species_index] = <double> cyrandom.binom_rnd_f(dstate[species_index],p)\n", 'silent')

# ------------------------------------------------------------------ C08
M('C08', 'create-rule-no-invalidate', T, "        self.initialized = False\n\n        # Parse the rule by rule type", "\n        # Parse the rule by rule type", 'fire', 'R8.1-invalidate/Model.create_rule')
M('C08', 'add-species-no-invalidate', T, "        self.initialized = False\n        if species not in self.species2index and species is not None and species != '':",
  "        if species not in self.species2index and species is not None and species != '':", 'fire', 'R8.1-invalidate/Model._add_species')
M('C08', 'revert-add-lineage-rule', L, "VolumeSplitter volume_splitter = None):\n		self.initialized = False\n		species_names, param_names = rule_object", "VolumeSplitter volume_splitter = None):\n		species_names, param_names = rule_object", 'fire', 'R8.1-invalidate/LineageModel.add_lineage_rule')
M('C08', 'interface-no-autoinit', S, "        if not self.model.initialized:\n            self.model.py_initialize()\n", "        if not self.model.initialized:\n            pass\n", 'fire', 'R8.2-stale-refused/ModelCSimInterface.__init__')
M('C08', 'check-interface-removed', S, "    def py_volume_simulate(self, CSimInterface sim, Volume v, np.ndarray timepoints):\n        sim.check_interface()\n", "    def py_volume_simulate(self, CSimInterface sim, Volume v, np.ndarray timepoints):\n", 'fire', 'R8.2-stale-refused/VolumeSimulator.py_volume_simulate')
M('C08', 'propensities-not-cleared', T, "        self.propensities = []\n        self.c_propensities.clear()\n", "        self.propensities = []\n", 'fire', 'R8.3-rebuild/Model/self.c_propensities')
M('C08', 'lineage-vector-not-cleared', L, "		self.c_volume_rules.clear()\n		self.c_death_rules.clear()\n		self.c_division_rules.clear()\n", "		self.c_volume_rules.clear()\n		self.c_division_rules.clear()\n", 'fire', 'R8.3-rebuild/LineageModel/self.c_death_rules')
M('C08', 'state-not-copied-delay', S, "        cdef np.ndarray[np.double_t,ndim=1] c_current_state = sim.get_initial_state().copy()\n        cdef np.ndarray[np.double_t,ndim=2] c_stoich = sim.get_update_array()\n        cdef np.ndarray[np.double_t,ndim=2] c_delay_stoich = sim.get_delay_update_array()\n\n        cdef unsigned num_species = c_stoich.shape[0]\n        cdef unsigned num_reactions = c_stoich.shape[1]\n        cdef unsigned num_timepoints = c_timepoints.shape[0]\n\n\n",
  "        cdef np.ndarray[np.double_t,ndim=1] c_current_state = sim.get_initial_state()\n        cdef np.ndarray[np.double_t,ndim=2] c_stoich = sim.get_update_array()\n        cdef np.ndarray[np.double_t,ndim=2] c_delay_stoich = sim.get_delay_update_array()\n\n        cdef unsigned num_species = c_stoich.shape[0]\n        cdef unsigned num_reactions = c_stoich.shape[1]\n        cdef unsigned num_timepoints = c_timepoints.shape[0]\n\n\n",
  'fire', 'R8.4-work-on-copies/DelaySSASimulator')
M('C08', 'revert-param-rebind', S, "                    np.copyto(sim.py_get_param_values(), p0)", "                    sim.py_set_param_values(p0)", 'fire', 'R8.4-work-on-copies/DeterministicSimulator')
M('C08', 'interface-copies-params', S, "        self.np_param_values = self.model.get_params_values()\n", "        self.np_param_values = self.model.get_params_values().copy()\n", 'fire', 'R8.4-shared-arrays')
M('C08', 'np-random-draw', S, "            Lambda = cyrandom.array_sum(<double*> c_propensity.data,num_reactions)\n", "            Lambda = cyrandom.array_sum(<double*> c_propensity.data,num_reactions) + 0*np.random.rand()\n", 'fire', 'R8.5-who-may-draw')
M('C08', 'seed-partial', R, "    mag01[0] = 0ULL\n    mag01[1] = MATRIX_A\n    mti = NN", "    mag01[0] = 0ULL\n    mag01[1] = MATRIX_A", 'fire', 'R8.5-seed/mt_seed')
M('C08', 'seed-offset', R, "    else:\n        mt_seed(seed)", "    else:\n        mt_seed(seed + time.time())", 'fire', 'R8.5')
M('C08', 'global-pointer-conditional', S, "        global_simulator = <void*> sim\n", "        if num_species > 1:\n            global_simulator = <void*> sim\n", 'fire', 'R8.6-global-pointer')
M('C08', 'silent-invalidate-moved', T, "        self.initialized = False\n\n        # Parse the rule by rule type", "        self.initialized = False\n        input_printout = bool(input_printout)\n        # Parse the rule by rule type", 'silent')

# ------------------------------------------------------------------ C16
M('C16', 'revert-exponential-support', PI, "        if param_value < 0:\n            # outside the support of the exponential distribution\n            return np.inf\n", "", 'fire', 'R16.2-support/exponential')
M('C16', 'revert-beta-upper', PI, "        if param_value < 0 or param_value > 1:", "        if param_value < 0:", 'fire', 'R16.2-support/beta/x>1')
M('C16', 'uniform-one-sided', PI, "        if param_value > upper_bound or param_value < lower_bound:\n            return np.inf\n        else:\n            return np.log( 1/(upper_bound - lower_bound) )",
  "        if param_value > upper_bound:\n            return np.inf\n        else:\n            return np.log( 1/(upper_bound - lower_bound) )", 'fire', 'R16.2-support/uniform/x<lower')
M('C16', 'gaussian-variance', PI, "np.exp(-0.5*(param_value - mu)**2/sigma**2)", "np.exp(-0.5*(param_value - mu)**2/sigma)", 'fire', 'R16.1-density/gaussian')
M('C16', 'gamma-rate-as-scale', PI, "np.exp(-1 * beta*param_value)", "np.exp(-1 * param_value/beta)", 'fire', 'R16.1-density/gamma')
M('C16', 'loguniform-missing-x', PI, "prob = 1/(param_value* (np.log(upper_bound) - np.log(lower_bound)))", "prob = 1/((np.log(upper_bound) - np.log(lower_bound)))", 'fire', 'R16.1-density/log-uniform')
M('C16', 'lognormal-missing-jacobian', PI, "prob = 1/(param_value * np.sqrt(2*np.pi) * sigma)", "prob = 1/(np.sqrt(2*np.pi) * sigma)", 'fire', 'R16.1-density/log-gaussian')
M('C16', 'prior-positions-swapped', PI, "        alpha = prior_dict[param_name][1]\n        beta = prior_dict[param_name][2]\n        from scipy import special",
  "        alpha = prior_dict[param_name][2]\n        beta = prior_dict[param_name][1]\n        from scipy import special", 'fire', 'R16.1-density/beta')
M('C16', 'dispatch-crossed', PI, "            elif prior_type == 'log-uniform':\n                lp += self.log_uniform_prior(key, value)", "            elif prior_type == 'log-uniform':\n                lp += self.uniform_prior(key, value)", 'fire', 'R16.3-aggregation/dispatch')
M('C16', 'sum-overwritten', PI, "            elif prior_type == 'gamma':\n                lp += self.gamma_prior(key, value)", "            elif prior_type == 'gamma':\n                lp = self.gamma_prior(key, value)", 'fire', 'R16.3-aggregation')
M('C16', 'positive-flag-late', PI, "            if 'positive' in self.prior[key] and value  < 0:\n                return np.inf\n            prior_type = self.prior[key][0]",
  "            prior_type = self.prior[key][0]\n            if 'positive' in self.prior[key] and value  < -1:\n                return np.inf", 'fire', 'R16.3-aggregation/positive-flag')
M('C16', 'nonfinite-not-rejected', PI, "        if not np.isfinite(lp):\n            return -np.inf\n        else:\n            # Reset to default\n            self.LL_det.set_init_params(self.default_parameters)",
  "        if np.isnan(lp):\n            return -np.inf\n        else:\n            # Reset to default\n            self.LL_det.set_init_params(self.default_parameters)", 'fire', 'R16.4')
M('C16', 'silent-exponential-rewrite', PI, "        prob = lambda_p * np.exp(-lambda_p * param_value)", "        prob = np.exp(-param_value * lambda_p) * lambda_p", 'silent')
M('C16', 'silent-loggaussian-explicit-guard', PI, "        # Using probability density function for log-normal distribution\n", "        if param_value <= 0:\n            return np.inf\n", 'silent')

# ------------------------------------------------------------------ C13
M('C13', 'revert-rule-reset', SB, "        rule_rxn = None\n        rule_type = None\n        rule_formula = libsbml.formulaToL3String(rule.getMath())", "        rule_formula = libsbml.formulaToL3String(rule.getMath())", 'fire', 'R13.1-no-leak/import_sbml_rules/rule_type')
M('C13', 'stoichiometry-ignored', SB,
  "            if reactantspecies_id in allspecies:\n                if np.isfinite(reactant.getStoichiometry()):\n                    for i in range(int(reactant.getStoichiometry())):\n                        reactant_list.append(reactantspecies_id)",
  "            if reactantspecies_id in allspecies:\n                if np.isfinite(reactant.getStoichiometry()):\n                    reactant_list.append(reactantspecies_id)", 'fire', 'R13.3-stoichiometry/reactant_list')
M('C13', 'formula-before-rename', SB, "        kl = reaction.getKineticLaw()\n", "        kl = reaction.getKineticLaw()\n        math_ast = kl.getMath()\n        kl_formula = libsbml.formulaToL3String(math_ast)\n", 'silent')
M('C13', 'formula-before-rename-2', SB, "        math_ast = kl.getMath()\n        if math_ast is None:\n            raise ValueError(\"Could not import the rate law for reaction to SBML.\")\n        kl_formula = libsbml.formulaToL3String(math_ast)\n",
  "        if math_ast is None:\n            raise ValueError(\"Could not import the rate law for reaction to SBML.\")\n", 'fire', 'R13.4-local-parameters')
M('C13', 'local-value-under-old-id', SB, "                pid = newid\n", "", 'fire', 'R13.4-local-parameters')
M('C13', 'concentration-overrides-amount', SB, "        if np.isfinite(s.getInitialConcentration()) and allspecies[sid] == 0:", "        if np.isfinite(s.getInitialConcentration()):", 'fire', 'R13.5-initial-values')
M('C13', 'rate-rule-also-rule', SB, "            rule_rxn = ([], [rulevariable], propensity_params['type'], propensity_params)", "            rule_type = 'assignment'\n            rule_rxn = ([], [rulevariable], propensity_params['type'], propensity_params)", 'fire', 'R13.2-rule-translation/rateRule')
M('C13', 'rate-rule-consumes', SB, "            rule_rxn = ([], [rulevariable], propensity_params['type'], propensity_params)", "            rule_rxn = ([rulevariable], [rulevariable, rulevariable], propensity_params['type'], propensity_params)", 'fire', 'R13.2-rule-shape')
M('C13', 'delay-products-dropped-in-assembly', SB, "                                            delay_type, delay_reactants, delay_products, delay_param_dict, \n", "                                            delay_type, delay_reactants, delay_reactants, delay_param_dict, \n", 'fire', 'R13.6-assembly')
M('C13', 'new-carried-variable', SB, "        reactant_list = []\n        product_list = []\n", "        reactant_list = []\n        if reaction.getReversible():\n            product_list = []\n", 'fire', 'R13.1-no-leak/import_sbml_reactions/product_list')
M('C13', 'silent-reset-elsewhere', SB, "        rule_rxn = None\n        rule_type = None\n        rule_formula = libsbml.formulaToL3String(rule.getMath())", "        rule_type, rule_rxn = None, None\n        rule_formula = libsbml.formulaToL3String(rule.getMath())", 'silent')

# ------------------------------------------------------------------ C14
M('C14', 'massaction-det-exponent-dropped', SB, '                ratestring += f" * {species_id}^{stoichiometry}"', '                ratestring += f" * {species_id}"', 'fire', 'R14.2-value/massaction/deterministic')
M('C14', 'massaction-stoch-offset', SB, '                    ratestring += f" * ( {species_id} - {i} )"', '                    ratestring += f" * ( {species_id} - {i+1} )"', 'fire', 'R14.2-value/massaction/stochastic')
M('C14', 'massaction-stoch-uses-det', SB, '        if propensity_type=="massaction" and stochastic:\n            for i in range(stoichiometry):', '        if propensity_type=="massaction" and stochastic and False:\n            for i in range(stoichiometry):', 'fire', 'R14.2-value/massaction/stochastic')
M('C14', 'massaction-literal-symbol', SB, '    if propensity_type=="massaction":\n        propensity_annotation_dict["k"] = propensity_params[\'k\']\n        ratestring = propensity_params[\'k\']',
  '    if propensity_type=="massaction":\n        propensity_annotation_dict["k"] = propensity_params[\'k\']\n        ratestring = "k"', 'fire', 'R14.1-identifiers/massaction')
M('C14', 'new-hill-defect-not-masked', SB, 'ratestring+=f"/({s_species_id}^{n}+{K})"', 'ratestring+=f"/({s_species_id}^{n}+{K}+1)"', 'fire', 'R14.2-value/hillnegative')
M('C14', 'hillneg-new-literal', SB, 'ratestring+=f"/({s_species_id}^{n}+{K})"', 'ratestring+=f"/({s_species_id}^n+{K})"', 'fire', 'R14.1-identifiers/hillnegative')
M('C14', 'stoichiometry-constant', SB, "        stoichiometry = input_coefs[i]\n", "        stoichiometry = 1\n", 'fire', 'R14.3-stoichiometry')
MUTANTS.append({'prop': 'C14', 'name': 'modifier-missing', 'kind': 'fire', 'expect': 'R14.4-modifiers', 'file': SB, 'occurrences': 2,
                'old': "        if d_species_id not in reactants_list and d_species_id not in products_list:\n            modifier = reaction.createModifier()\n            modifier.setSpecies(d_species_id)\n",
                'new': ""})
M('C14', 'silent-massaction-spacing', SB, '                ratestring += f" * {species_id}^{stoichiometry}"', '                ratestring += f"*({species_id}^{stoichiometry})"', 'silent')

# ------------------------------------------------------------------ C12
M('C12', 'revert-rule-frequency-str', SB, "'' + str(rule_frequency) + '</BioscrapeRule>", "'' + rule_frequency + '</BioscrapeRule>", 'fire', 'R12.2-str-wrapped/add_rule')
M('C12', 'writer-key-renamed', SB, '        propensity_annotation_dict["K"] = propensity_params[\'K\']\n', '        propensity_annotation_dict["Kd"] = propensity_params[\'K\']\n', 'fire', 'R12.1-propensity-keys')
M('C12', 'reader-delay-family-missing', SB, "                    if k == 'theta':\n                        delay_params[k] = v \n", "", 'fire', 'R12.1-delay-keys/theta')
M('C12', 'reader-delay-products-as-reactants', SB, "                    if k == 'products':\n                        delay_products = v.split(',')", "                    if k == 'products':\n                        delay_reactants = v.split(',')", 'fire', 'R12.1-delay-keys/products')
M('C12', 'delay-products-not-forwarded', T, "delay_dict = {'type':delay_type, 'reactants':delay_reactants, \n                            'products':delay_products, 'parameters':delay_param_dict}",
  "delay_dict = {'type':delay_type, 'reactants':delay_reactants, \n                            'products':delay_reactants, 'parameters':delay_param_dict}", 'fire', 'R12.3-forwarding/generate_sbml_model')
M('C12', 'frequency-dropped-by-writer', T, "add_rule(model, rule_id, rule_type, rule_variable, rule_formula, rule_frequency)", "add_rule(model, rule_id, rule_type, rule_variable, rule_formula, 'repeated')", 'fire', 'R12.3-forwarding/generate_sbml_model')
M('C12', 'stochastic-flag-dropped', T, "propensity_param_dict, stochastic = stochastic_model,", "propensity_param_dict, stochastic = False,", 'fire', 'R12.3-forwarding/generate_sbml_model')
M('C12', 'species-rebuild-removed', T, "        if 'species' not in propensity_param_dict and propensity_type == \"massaction\":", "        if False:", 'fire', 'R12.1-propensity-keys/massaction')
M('C12', 'separator-changed', SB, 'propensity_annotation_string += " "+k + "=" + str(propensity_annotation_dict[k])', 'propensity_annotation_string += " "+k + ":" + str(propensity_annotation_dict[k])', 'fire', 'R12.1-separators/propensity')
M('C12', 'timestamp-in-export', SB, "    model.setId('bioscrape_generated_model_' + str(np.random.randint(1e6)))", "    model.setId('bioscrape_generated_model_' + str(np.random.randint(1e6)))\n    model.setName(str(time.time()))", 'fire', 'R12.4')
M('C12', 'dummy-param-value-lost', T, "                self.set_parameter(dummy_var, val)\n", "", 'fire', 'R12.3-forwarding/dummy-parameters')
M('C12', 'additive-rule-unwritable', SB, "    if rule_type == 'assignment' or rule_type == 'additive':", "    if rule_type == 'assignment':", 'fire', 'R12.2-exhaustive/rule/additive')

# ------------------------------------------------------------------ C15
M('C15', 'revert-transpose-list', IS, "                data_i = np.array(data_list).T\n", "                data_i = np.array(data_list)\n", 'fire', 'R15.1-axis-alignment/list-of-frames/several')
M('C15', 'revert-transpose-single', IS, "                data = np.array(data_list).T\n", "                data = np.array(data_list)\n", 'fire', 'R15.1-axis-alignment/single-frame/several')
M('C15', 'final-reshape-order', IS, "            data = np.reshape(data, (N,T,M))\n            if self.debug:", "            data = np.reshape(data, (N,M,T))\n            if self.debug:", 'fire', 'R15.1-axis-alignment/list-of-frames')
M('C15', 'cost-compares-wrong-species', 'bioscrape/inference.pyx', "                    dif = measurements[n, t, i] - ans[t,self.meas_indices[i]]\n                    if dif < 0:\n                        dif = -dif\n                    error += dif**self.norm_order\n\n        error = error**(1./self.norm_order)\n\n        if np.isnan(error):\n            return -np.inf\n        else:\n            return -error",
  "                    dif = measurements[n, t, i] - ans[t,i]\n                    if dif < 0:\n                        dif = -dif\n                    error += dif**self.norm_order\n\n        error = error**(1./self.norm_order)\n\n        if np.isnan(error):\n            return -np.inf\n        else:\n            return -error", 'fire', 'R15.3-cost-formula/DeterministicLikelihood')
M('C15', 'defaults-not-restored', PI, "            # Reset to default\n            self.LL_det.set_init_params(self.default_parameters)\n", "", 'fire', 'R15.5-function-of-theta/DeterministicInference')
M('C15', 'defaults-alias', PI, "        self.default_parameters = dict(M.get_parameter_dictionary())", "        self.default_parameters = M.get_parameter_dictionary()", 'fire', 'R15.5-function-of-theta/default-parameters-copy')
M('C15', 'prior-not-added', PI, "            ln_prob = lp + LL_det_cost", "            ln_prob = LL_det_cost", 'fire', 'R15.5-function-of-theta/DeterministicInference')
M('C15', 'meas-index-by-position', 'bioscrape/inference.pyx', "        for i in range(self.M):\n            self.meas_indices[i] = self.m.get_species_index(species_list[i])", "        for i in range(self.M):\n            self.meas_indices[i] = i", 'fire', 'R15.2-name-alignment/DeterministicLikelihood')
M('C15', 'silent-stack-axis', IS, "                data_i = np.array(data_list).T\n", "                data_i = np.stack(data_list, axis = 1)\n", 'silent')

# ------------------------------------------------------------------ C18
MUTANTS.append({'prop': 'C18', 'name': 'fourth-order-coefficient', 'kind': 'fire', 'expect': 'R18.1-stencil/compute_J/fourth', 'file': AN, 'occurrences': 1,
                'old': "                    J[i,j]= (-f_2h + 8*f_h - 8*f_mh + f_m2h)/(12*h)", 'new': "                    J[i,j]= (-f_2h + 8*f_h - 8*f_mh + f_m2h)/(10*h)"})
M('C18', 'central-divisor', AN, "                    J[i,j]= (f_h - f_mh)/(2*h) ", "                    J[i,j]= (f_h - f_mh)/(h) ", 'fire', 'R18.1-stencil/compute_J/central')
M('C18', 'swapped-fh-fmh', AN, "                Z[i]= (f_h - f_mh)/(2*h) ", "                Z[i]= (f_mh - f_h)/(2*h) ", 'fire', 'R18.1-stencil/compute_Zj/central')
M('C18', 'transposed-J', AN, "                    J[i,j]= (f_h - f_0)/h", "                    J[j,i]= (f_h - f_0)/h", 'fire', 'R18.2-orientation/compute_J/forward')
M('C18', 'offset-2h-becomes-h', AN, "                    x[j] = x[j] + 2*h\n", "                    x[j] = x[j] + h\n", 'fire', 'R18.1-stencil/compute_J/fourth')
M('C18', 'stale-perturbation', AN, "                x = np.array(state_input)\n                x[j] = x[j] - h\n                f_mh", "                x[j] = x[j] - h\n                f_mh", 'fire', 'R18.1-stencil/compute_J')
M('C18', 'no-restore-after-mh', AN,
  "            f_mh = self._evaluate_model(x, params_dict, time = time)[i]\n            # Reset\n            params_dict = dict(self.original_parameters)\n            self.M.set_params(params_dict)\n",
  "            f_mh = self._evaluate_model(x, params_dict, time = time)[i]\n            # Reset\n            params_dict = dict(self.original_parameters)\n", 'fire', 'R18.4-restore/compute_Zj/central')
M('C18', 'dict-not-reset', AN,
  "            f_mh = self._evaluate_model(x, params_dict, time = time)[i]\n            # Reset\n            params_dict = dict(self.original_parameters)\n",
  "            f_mh = self._evaluate_model(x, params_dict, time = time)[i]\n            # Reset\n", 'fire', 'compute_Zj')
M('C18', 'wrong-component', AN, "                f_h = self._evaluate_model(x, time = time)[i]\n", "                f_h = self._evaluate_model(x, time = time)[j]\n", 'fire', 'R18.1-stencil/compute_J')
M('C18', 'rules-at-other-time', AN, "        sim.py_apply_repeated_rules(states, time, True)", "        sim.py_apply_repeated_rules(states, 0.0, True)", 'fire', 'R18.3-evaluation-point')
M('C18', 'original-params-alias', AN, "        self.original_parameters = dict(M.get_parameter_dictionary())", "        self.original_parameters = M.get_parameter_dictionary()", 'fire', 'R18.4-restore/original')
M('C18', 'silent-inplace-perturb', AN, "                x = np.array(state_input)\n                x[j] = x[j] - h\n                f_mh", "                x[j] = x[j] - 2*h\n                f_mh", 'silent')
M('C18', 'silent-stencil-rewrite', AN, "                    J[i,j]= (f_h - f_mh)/(2*h) ", "                    J[i,j]= 0.5*(f_h - f_mh)/h ", 'silent')

# ------------------------------------------------------------------ C03
M('C03', 'reactant-sign', T, "            reaction_update_dict[r]  -= 1", "            reaction_update_dict[r]  += 1", 'fire', 'R3.1-accumulation/reactants')
M('C03', 'product-multiplicity-lost', T, "            reaction_update_dict[p]  += 1", "            reaction_update_dict[p]  = 1", 'fire', 'R3.1-accumulation/products')
M('C03', 'delay-products-into-immediate', T, "                delay_reaction_update_dict[p]  += 1", "                reaction_update_dict[p]  += 1", 'fire', 'R3.1-accumulation/delay_products')
M('C03', 'matrix-transposed', T, "self.update_array[self.species2index[sp],reaction_index] = reaction_update_dict[sp]", "self.update_array[reaction_index,self.species2index[sp]] = reaction_update_dict[sp]", 'fire', 'R3.3-matrix-fill')
M('C03', 'delay-matrix-from-immediate-dict', T, "self.delay_update_array[self.species2index[sp],reaction_index] = delay_reaction_update_dict[sp]", "self.delay_update_array[self.species2index[sp],reaction_index] = reaction_update_dict[sp]", 'fire', 'R3.3-matrix-fill')
M('C03', 'compressed-drops-delay', S, "                    self.S_values[s].push_back(self.update_array[s,r]+self.delay_update_array[s,r])", "                    self.S_values[s].push_back(self.update_array[s,r])", 'fire', 'R3.4-derivative/prep')
M('C03', 'derivative-short-sum', S, "            for j in range(self.S_indices[s].size()):\n                dxdt[s] += prop[ self.S_indices[s][j]  ] * self.S_values[s][j]\n\n\n    def py_calculate",
  "            for j in range(1, self.S_indices[s].size()):\n                dxdt[s] += prop[ self.S_indices[s][j]  ] * self.S_values[s][j]\n\n\n    def py_calculate", 'fire', 'R3.4-derivative/calculate')
M('C03', 'check-parameters-after-flag', T, "        self.check_parameters()\n\n        #Check for species without intial conditions.", "\n        #Check for species without intial conditions.", 'fire', 'R3.5-initialisation-check/_initialize')
M('C03', 'new-param-zero', T, "np.concatenate((self.params_values, np.array([np.nan])))", "np.concatenate((self.params_values, np.array([0.0])))", 'fire', 'R3.5-initialisation-check/_add_param')
M('C03', 'tuple-order', T, "        self.reaction_list.append((propensity_object, delay_object, reaction_update_dict, delay_reaction_update_dict))", "        self.reaction_list.append((propensity_object, delay_object, delay_reaction_update_dict, reaction_update_dict))", 'fire', 'R3.2-tuple-positions/_add_reaction')
M('C03', 'silent-derivative-rewrite', S, "                dxdt[s] += prop[ self.S_indices[s][j]  ] * self.S_values[s][j]\n\n\n    def py_calculate", "                dxdt[s] = dxdt[s] + self.S_values[s][j] * prop[self.S_indices[s][j]]\n\n\n    def py_calculate", 'silent')

# ------------------------------------------------------------------ C04
M('C04', 'rhs-without-rules', S, "    (<CSimInterface>global_simulator).apply_repeated_rules(<double*> state.data,t, rule_step)\n", "", 'fire', 'R4.1-rhs')
M('C04', 'rhs-time-frozen', S, "<double*> global_derivative_buffer.data, t)\n    return global_derivative_buffer\n\ndef rhs_ivp", "<double*> global_derivative_buffer.data, 0.0)\n    return global_derivative_buffer\n\ndef rhs_ivp", 'fire', 'R4.1-rhs')
M('C04', 'x0-not-initial-state', S, "        cdef np.ndarray x0 = sim.get_initial_state().copy()\n", "        cdef np.ndarray x0 = np.zeros(sim.get_initial_state().shape[0])\n", 'fire', 'R4.2-globals')
M('C04', 'odeint-other-grid', S, "odeint(rhs_global, x0, timepoints,atol=self.atol", "odeint(rhs_global, x0, timepoints[::-1],atol=self.atol", 'fire', 'R4.3-odeint-call')
M('C04', 'failed-returns-partial', S, "            return SSAResult(timepoints,results * np.nan)", "            return SSAResult(timepoints,results)", 'fire', 'R4.3-odeint-call')
M('C04', 'global-pointer-stale', S, "        global_simulator = <void*> sim\n", "", 'fire', 'R4.2-globals')
M('C04', 'buffer-wrong-size', S, "        global_derivative_buffer = np.empty(num_species,)", "        global_derivative_buffer = np.empty(num_reactions,)", 'fire', 'R4.2-globals')
M('C04', 'silent-tolerances', S, "        self.atol = 1.49012e-8\n        self.rtol = 1.49012e-8", "        self.atol = 1.0e-8\n        self.rtol = 1.0e-8", 'silent')

# ------------------------------------------------------------------ C02
M('C02', 'pow-operands-swapped', T, "        powerterm.set_base( sympy_recursion(args[0],species2index,params2index) )\n        powerterm.set_exponent( sympy_recursion(args[1], species2index,params2index) )",
  "        powerterm.set_base( sympy_recursion(args[1],species2index,params2index) )\n        powerterm.set_exponent( sympy_recursion(args[0], species2index,params2index) )", 'fire', 'R2.2-translation/Pow')
M('C02', 'min-max-crossed', T, "    elif type(tree) == sympy.Max:\n        maxterm = MaxTerm()", "    elif type(tree) == sympy.Max:\n        maxterm = MinTerm()", 'fire', 'R2.2-translation/Max')
MUTANTS.append({'prop': 'C02', 'name': 'max-comparison-flipped', 'kind': 'fire', 'expect': 'R2.1-node-semantics/MaxTerm', 'file': T, 'occurrences': 2,
                'old': "            if temp > ans:\n                ans = temp", 'new': "            if temp < ans:\n                ans = temp"})
M('C02', 'product-starts-at-zero', T, "        cdef double ans = 1.0\n        cdef unsigned i\n        for i in range(self.terms.size()):\n            ans *= (<Term>(self.terms[i])).evaluate(species, params,time)",
  "        cdef double ans = 0.0\n        cdef unsigned i\n        for i in range(self.terms.size()):\n            ans *= (<Term>(self.terms[i])).evaluate(species, params,time)", 'fire', 'R2.1-node-semantics/ProductTerm.evaluate')
M('C02', 'volume-not-passed-down', T, "            ans += (<Term>(self.terms[i])).volume_evaluate(species,params,vol, time)", "            ans += (<Term>(self.terms[i])).evaluate(species,params, time)", 'fire', 'R2.1-node-semantics/SumTerm.volume_evaluate')
M('C02', 'sum-skips-first', T, "        for i in range(self.terms.size()):\n            ans += (<Term>(self.terms[i])).evaluate(species, params, time)", "        for i in range(1, self.terms.size()):\n            ans += (<Term>(self.terms[i])).evaluate(species, params, time)", 'fire', 'R2.1-node-semantics/SumTerm.evaluate')
M('C02', 'unknown-name-becomes-zero', T, "            raise ValueError(f\"Unknown term {name} not found in Species, Parameters, or built-in-terms.\")", "            return ConstantTerm(0.0)", 'fire', 'R2.3-rejection/unknown-name')
M('C02', 'species-looked-up-in-params', T, "        if name in species2index:\n            return SpeciesTerm(species2index[ name ])", "        if name in species2index:\n            return SpeciesTerm(params2index[ name ])", 'fire', 'R2.3-rejection/unknown-name')
M('C02', 'nonnumeric-node-default', T, "        except:\n            raise SyntaxError('This should be a number: ' + str(tree))", "        except:\n            return ConstantTerm(0.0)", 'fire', 'R2.3-rejection/unknown-node')
M('C02', 'add-drops-last-arg', T, "        sumterm = SumTerm()\n        for a in args:", "        sumterm = SumTerm()\n        for a in args[:-1]:", 'fire', 'R2.2-translation/Add')
M('C02', 'volume-term-without-volume', T, "    cdef double evaluate(self, double *species, double *params, double time):\n        return 1.0", "    cdef double evaluate(self, double *species, double *params, double time):\n        return 0.0", 'fire', 'R2.1-node-semantics/VolumeTerm.evaluate')
M('C02', 'log-base', T, "        return log(self.arg.evaluate(species,params,time))", "        return log(self.arg.evaluate(species,params,time)) / log(10.0)", 'fire', 'R2.1-node-semantics/LogTerm.evaluate')
M('C02', 'classifier-misses-caret', T, "    instring = instring.replace('^','**')\n    instring = instring.replace('|','_')\n    root = sympy.sympify(instring, _clash1)", "    instring = instring.replace('|','_')\n    root = sympy.sympify(instring, _clash1)", 'fire', 'R2.4-classifier-agreement')
M('C02', 'silent-step-strict', T, "        if self.arg.evaluate(species,params,time) >= 0:\n            return 1.0\n        return 0", "        if self.arg.evaluate(species,params,time) > 0:\n            return 1.0\n        return 0.0", 'silent')
M('C02', 'silent-power-pow', T, "        return self.base.evaluate(species,params,time) ** \\\n               self.exponent.evaluate(species,params,time)", "        return pow(self.base.evaluate(species,params,time), self.exponent.evaluate(species,params,time))", 'silent')

# ------------------------------------------------------------------ C17
M('C17', 'revert-volume-cell-state-reduce', S, "    def __reduce__(self):\n        return (self.__class__, (), self.__getstate__())\n", "", 'fire', 'R17.3-picklable/VolumeCellState')
M('C17', 'revert-delay-queue-state', S, "    def __setstate__(self, state):\n        super().__setstate__(state[:3])\n        self.delay_queue = state[3]\n\n    def __getstate__(self):\n        return super().__getstate__() + (self.delay_queue,)\n", "", 'fire', 'R17.2-coverage/DelayVolumeCellState')
M('C17', 'model-state-fields-swapped', T, "                self.species2index,\n                self.params2index,\n                self.species_values,", "                self.params2index,\n                self.species2index,\n                self.species_values,", 'fire', 'R17.1-positions/Model')
M('C17', 'setstate-wrong-index', T, "        self.reaction_updates = state[14]\n        self.delay_reaction_updates = state[15]", "        self.reaction_updates = state[15]\n        self.delay_reaction_updates = state[14]", 'fire', 'R17.1-positions/Model')
M('C17', 'lineage-offset', L, "		super().__setstate__(state[22:])", "		super().__setstate__(state[21:])", 'fire', 'R17.1-positions/LineageModel')
M('C17', 'new-attribute-not-pickled', 'bioscrape/types.pxd', "    cdef np.ndarray data\n    cdef np.ndarray time\n    cdef np.ndarray volume\n", "    cdef np.ndarray data\n    cdef np.ndarray time\n    cdef np.ndarray volume\n    cdef np.ndarray extra_trace\n", 'fire', 'R17.2-coverage/Schnitz')
M('C17', 'vector-rebuilt-from-wrong-list', T, "        self.c_delays.clear()\n        if state[5] is not None:\n            for x in state[5]:", "        self.c_delays.clear()\n        if state[4] is not None:\n            for x in state[4]:", 'fire', 'R17.1-positions/Model')
M('C17', 'void-pointer-member-in-term', 'bioscrape/types.pxd', "cdef class PowerTerm(Term):\n", "cdef class PowerTerm(Term):\n    cdef void* scratch\n", 'fire', 'R17.3-picklable/PowerTerm')
M('C17', 'binary-term-restore-reversed', T, "        for i, x in enumerate(state):\n            new_term.py_add_term(x)", "        for i, x in enumerate(reversed(state)):\n            new_term.py_add_term(x)", 'fire', 'R17.4-ordered-restore')
M('C17', 'cellstate-copy-dropped', S, "        self.state = state[2].copy()", "        self.state = state[2]", 'silent')
M('C17', 'reduce-arg-order', L, "return (self.__class__, (self.initial_volume, self.initial_time, self.state, self.volume, self.time, self.divided, self.dead))", "return (self.__class__, (self.initial_time, self.initial_volume, self.state, self.volume, self.time, self.divided, self.dead))", 'fire', 'R17.1-positions/LineageVolumeCellState.__reduce__')
M('C04', 'success-loosened', S, "            success = full_output['message'] == 'Integration successful.'\n", "            success = full_output['message'] == 'Integration successful.' or steps_allowed >= self.mxstep\n", 'fire', 'R4.3-odeint-call')
M('C19', 'splitter-index-off-by-one', L, "			vsplit_ind = vsplit_ind - self.num_division_rules\n", "			vsplit_ind = vsplit_ind - self.num_division_rules + 1\n", 'fire', 'R19.3-splitter-choice')
M('C19', 'event-index-encoding', L, "cell_divided = reaction_choice - self.num_reactions - self.num_volume_events + self.num_division_rules", "cell_divided = reaction_choice - self.num_reactions - self.num_volume_events", 'fire', 'R19.3-splitter-choice')
M('C01', 'lineage-events-plain-slot', L, "propensity_destination[self.num_reactions+ind] = (<Propensity>(self.c_lineage_propensities[0][ind])).get_stochastic_volume_propensity(", "propensity_destination[self.num_reactions+ind] = (<Propensity>(self.c_lineage_propensities[0][ind])).get_volume_propensity(", 'fire', 'R1.4-iface-loop/lineage')
M('C08', 'hidden-generator-state', R, "cdef double exponential_rv(double Lambda):", "cdef double last_uniform = 0.5\n\ncdef double exponential_rv_antithetic(double Lambda):\n    global last_uniform\n    last_uniform = 1.0 - last_uniform\n    return -1.0/Lambda*log(last_uniform)\n\ncdef double exponential_rv(double Lambda):", 'fire', 'R8.5-seed/generator-state')
M('C10', 'queue-upper-clamp-removed', S, "        elif index >= int(self.num_cols):\n            index = self.num_cols-1\n", "", 'fire', 'R20.1-add')
M('C12', 'reader-filters-frequency', SB, "                    if k == \"rule_frequency\":\n                        rule_frequency = v", "                    if k == \"rule_frequency\":\n                        if v in ('repeated', 'dt') or v.isdigit():\n                            rule_frequency = v", 'fire', 'R12.1-rule-frequency')
M('C12', 'reader-drops-numeric-propensity-values', SB, "                    try:\n                        propensity_params[k] = float(v)\n                    except ValueError:\n                        propensity_params[k] = v",
  "                    try:\n                        propensity_params[k] = float(v)\n                    except ValueError:\n                        if k != 'n':\n                            propensity_params[k] = v", 'fire', 'R12.1-separators/propensity')

# ------------------------------------------------------------------ behaviour-preserving refactorings written by independent agents (must stay silent)
for _patch, _props in (('refactors/R3/patch.diff', ('C04', 'C05', 'C06', 'C07', 'C09', 'C10', 'C11')),
                       ('refactors/R4/patch.diff', ('C05', 'C06', 'C07', 'C08', 'C19', 'C20')),
                       ('refactors/R6/patch.diff', ('C15', 'C16', 'C18')),
                       ('refactors/R1/patch.diff', ('C01', 'C03', 'C06', 'C08', 'C10', 'C11', 'C12')),
                       ('refactors/R2/patch.diff', ('C02', 'C09')),
                       ('refactors/R5/patch.diff', ('C12', 'C13', 'C14')),
                       ('refactors/R7/patch.diff', ('C01', 'C08', 'C09', 'C17', 'C19')),
                       ('refactors/R8/patch.diff', ('C18',)),      # harmless twin of seed C18b (perturbation helper without the clamp)
                       ('refactors/R9/patch.diff', ('C15',)),
                       ('refactors/R10/patch.diff', ('C15', 'C16')),
                       ('refactors/R11/patch.diff', ('C12', 'C13', 'C14', 'C15', 'C16', 'C18')),
                       ('refactors/R12/patch.diff', ('C03', 'C04', 'C05', 'C06', 'C07', 'C08', 'C09', 'C10', 'C11', 'C18', 'C20')),
                       ('refactors/R13/patch.diff', ('C01', 'C02', 'C04', 'C05', 'C06', 'C08', 'C09', 'C10', 'C11', 'C17')),
                       ('refactors/R14/patch.diff', ('C09', 'C15', 'C17', 'C19')),
                       ('refactors/R15/patch.diff', ('C03', 'C06', 'C08', 'C10', 'C12', 'C14', 'C17')),
                       ('refactors/R16/patch.diff', ('C01', 'C05', 'C06', 'C08', 'C09', 'C11', 'C19', 'C07')),
                       ('refactors/R17/patch.diff', ('C08', 'C09', 'C17', 'C19')),
                       ('refactors/R18/patch.diff', ('C02', 'C08', 'C10', 'C11', 'C15', 'C16', 'C19')),
                       ('refactors/R19/patch.diff', ('C01', 'C04', 'C05', 'C08', 'C11')),
                       ('refactors/R21/patch.diff', ('C12', 'C13', 'C14')),
                       ('refactors/R22/patch.diff', ('C15', 'C16', 'C18')),
                       ('refactors/R23/patch.diff', ('C03', 'C05', 'C06', 'C08', 'C10', 'C17', 'C20')),
                       ('refactors/R25/patch.diff', ('C02', 'C03', 'C08', 'C09', 'C12', 'C13', 'C14')),
                       ('refactors/R26/patch.diff', ('C15', 'C16')),
                       ('refactors/R27/patch.diff', ('C09', 'C17', 'C19')),
                       ('refactors/R28/patch.diff', ('C01', 'C02', 'C06', 'C07', 'C09', 'C10', 'C11', 'C20')),
                       ('refactors/R24/patch.diff', ('C01', 'C04', 'C05', 'C06', 'C07', 'C08', 'C09', 'C11', 'C19')),
                       ('refactors/R29/patch.diff', ('C04', 'C05', 'C06', 'C07', 'C08', 'C09', 'C10', 'C11')),
                       ('refactors/R30/patch.diff', ('C15', 'C16', 'C18')),
                       ('refactors/R31/patch.diff', ('C01', 'C03', 'C04', 'C05', 'C09', 'C10', 'C19')),
                       ('refactors/R32/patch.diff', ('C12', 'C13', 'C14', 'C17')),
                       ('refactors/R33/patch.diff', ('C02', 'C03', 'C04', 'C08', 'C11', 'C12', 'C14', 'C15', 'C16', 'C18')),   # harmless twins of round-10 seeds
                       ('refactors/R34/patch.diff', ('C03', 'C04', 'C07', 'C08', 'C18', 'C19')),
                       ('refactors/R35/patch.diff', ('C01', 'C02', 'C03', 'C08', 'C09', 'C11', 'C17')),
                       ('refactors/R36/patch.diff', ('C12', 'C13', 'C14', 'C15', 'C16', 'C18')),
                       ('refactors/R37/patch.diff', ('C09', 'C10', 'C19', 'C20')),
                       ('refactors/R38/patch.diff', ('C03', 'C05', 'C12', 'C14', 'C17', 'C19')),   # harmless twins of round-11 / 12 seeds
                       ('refactors/R39/patch.diff', ('C04', 'C05', 'C06', 'C07', 'C08', 'C09', 'C10', 'C11', 'C19', 'C20')),
                       ('refactors/R40/patch.diff', ('C01', 'C02', 'C04', 'C05', 'C07', 'C09', 'C11', 'C18')),
                       ('refactors/R41/patch.diff', ('C15', 'C16', 'C17')),
                       ('refactors/R42/patch.diff', ('C12', 'C13', 'C14')),
                       ('refactors/R43/patch.diff', ('C05', 'C06', 'C07', 'C09', 'C10', 'C11', 'C20')),
                       ('refactors/R49/patch.diff', ('C03', 'C04', 'C05', 'C12', 'C13', 'C15', 'C16', 'C18')),   # harmless twins of round-14 seeds
                       ('refactors/R44/patch.diff', ('C01', 'C03', 'C04', 'C05', 'C06', 'C07', 'C08', 'C17')),
                       ('refactors/R45/patch.diff', ('C12', 'C13', 'C14')),
                       ('refactors/R46/patch.diff', ('C15', 'C16')),
                       ('refactors/R47/patch.diff', ('C18',)),
                       ('refactors/R48/patch.diff', ('C09', 'C10', 'C19', 'C20')),
                       ('refactors/R50/patch.diff', ('C06', 'C10', 'C11', 'C12', 'C13', 'C15', 'C19', 'C20')),   # harmless twins of round-15 seeds
                       ('refactors/R51/patch.diff', ('C02', 'C03', 'C04', 'C05', 'C08', 'C09', 'C11', 'C12', 'C14', 'C18')),   # harmless twins of round-16 seeds
                       ('refactors/R52/patch.diff', ('C03', 'C08', 'C09', 'C11', 'C12', 'C13', 'C15')),   # harmless variants aimed at the rules of rounds 15 / 16
                       ('refactors/R20/patch.diff', ('C12', 'C13'))):       # harmless twin of seed C12f (delay parameters read by a helper)   # harmless twin of seed C08e (memo with a complete key)    # harmless twin of seed C16c (prior spec looked up once per parameter)     # harmless twin of seed C15b (columns by list indexing, not by mask)
    for _p in _props:
        MUTANTS.append({'prop': _p, 'name': 'refactor-' + _patch.split('/')[1], 'kind': 'silent', 'patch': _patch})
M('C06', 'revert-sentinel-slot', S, "empty_array = -np.ones((self.num_reactions, self.num_species + 1, 2), dtype = np.int32)", "empty_array = -np.ones((self.num_reactions, self.num_species, 2), dtype = np.int32)", 'fire', 'R6.4-safe-sentinel/SafeModelCSimInterface')
M('C17', 'queue-reduce-through-constructor', S, "    @staticmethod\n    def setup_queue(", "    def __reduce__(self):\n        return (ArrayDelayQueue, (self.queue, self.dt, self.next_queue_time - self.dt))\n\n    @staticmethod\n    def setup_queue(", 'fire', 'R17.2-reduce-coverage/ArrayDelayQueue')

M('C19', 'single-point-row-from-stale-buffer', L,
  """				if v.get_state_set() == 1:
					self.c_current_state = v.py_get_state().copy()
				else:
					self.c_current_state = self.interface.get_initial_state().copy()
				for species_index in range(self.num_species):
					dummy_r[0, species_index] = self.c_current_state[species_index]""",
  """				for species_index in range(self.num_species):
					dummy_r[0, species_index] = self.c_current_state[species_index]""", 'fire', 'R19.6-own-state')
M('C19', 'state-loaded-from-other-object', L,
  "			self.c_current_state = v.py_get_state().copy()\n		else:", "			self.c_current_state = self.cs.py_get_state().copy()\n		else:", 'fire', 'R19.6-own-state')

# ------------------------------------------------------------------ property-breaking changes written by independent agents (seeded/<id>):
# every kept seed is re-run as a fire variant against the property it breaks; `expect_rule` in its meta.json names the rule that reports it
import json as _json
import os as _os
import re as _re
_SEEDED = _os.path.join(_os.path.dirname(_os.path.dirname(_os.path.abspath(__file__))), 'seeded')
for _d in sorted(_os.listdir(_SEEDED)) if _os.path.isdir(_SEEDED) else []:
    _mf = _os.path.join(_SEEDED, _d, 'meta.json')
    if not _os.path.exists(_mf):
        continue
    _m = _json.load(open(_mf))
    _exp = _m.get('expect_rule') or (_re.findall(r'R\d+\.\d+-[A-Za-z0-9-]+', _m.get('caught_by', '')) or [''])[0]
    MUTANTS.append({'prop': _m['breaks_property'], 'name': 'seed-' + _d, 'kind': 'fire', 'patch': 'seeded/%s/patch.diff' % _d, 'expect': _exp})


MUTANTS.append({'prop': 'C05', 'name': 'zero-test-nonpositive', 'kind': 'silent', 'file': S, 'occurrences': 2,
                'old': "            if Lambda == 0:\n                proposed_time = c_timepoints[current_index]\n                reaction_fired = 0\n",
                'new': "            if Lambda <= 0:\n                proposed_time = c_timepoints[current_index]\n                reaction_fired = 0\n"})

for _p, _exp in (('C14', 'R14.6-formula-language/kinetic-law/log'), ('C12', 'R12.5-formula-language/kinetic-law/log')):
    M(_p, 'kinetic-law-default-l3-parser', SB, "    math_ast = libsbml.parseL3FormulaWithSettings(ratestring, _L3_PARSER_SETTINGS)\n",
      "    math_ast = libsbml.parseL3Formula(ratestring)\n", 'fire', _exp)
M('C12', 'rule-legacy-parser', SB, "    math_ast = libsbml.parseL3FormulaWithSettings(rule_formula, _L3_PARSER_SETTINGS)\n    flag = rule.setMath(math_ast)\n",
  "    math_ast = libsbml.parseFormula(rule_formula)\n    flag = rule.setMath(math_ast)\n", 'fire', 'R12.5-formula-language/rule/operators')
M('C12', 'rule-power-spelling-dropped', SB, "    rule_formula = str(rule_formula).replace('**','^')\n", "    rule_formula = str(rule_formula)\n", 'fire', 'R12.5-formula-language/rule/power-spelling')
M('C12', 'settings-local-variable', SB, "    _L3_PARSER_SETTINGS.setModel(model)\n    math_ast = libsbml.parseL3FormulaWithSettings(ratestring, _L3_PARSER_SETTINGS)\n",
  "    l3 = libsbml.L3ParserSettings()\n    l3.setParseLog(libsbml.L3P_PARSE_LOG_AS_LN)\n    l3.setModel(model)\n    math_ast = libsbml.parseL3FormulaWithSettings(ratestring, l3)\n", 'silent')
M('C12', 'settings-local-without-model', SB, "    _L3_PARSER_SETTINGS.setModel(model)\n    math_ast = libsbml.parseL3FormulaWithSettings(ratestring, _L3_PARSER_SETTINGS)\n",
  "    l3 = libsbml.L3ParserSettings()\n    l3.setParseLog(libsbml.L3P_PARSE_LOG_AS_LN)\n    math_ast = libsbml.parseL3FormulaWithSettings(ratestring, l3)\n", 'fire', 'kinetic-law/model-names')
M('C14', 'settings-local-variable', SB, "    _L3_PARSER_SETTINGS.setModel(model)\n    math_ast = libsbml.parseL3FormulaWithSettings(ratestring, _L3_PARSER_SETTINGS)\n",
  "    l3 = libsbml.L3ParserSettings()\n    l3.setParseLog(libsbml.L3P_PARSE_LOG_AS_LN)\n    l3.setModel(model)\n    math_ast = libsbml.parseL3FormulaWithSettings(ratestring, l3)\n", 'silent')
M('C14', 'settings-local-without-model', SB, "    _L3_PARSER_SETTINGS.setModel(model)\n    math_ast = libsbml.parseL3FormulaWithSettings(ratestring, _L3_PARSER_SETTINGS)\n",
  "    l3 = libsbml.L3ParserSettings()\n    l3.setParseLog(libsbml.L3P_PARSE_LOG_AS_LN)\n    math_ast = libsbml.parseL3FormulaWithSettings(ratestring, l3)\n", 'fire', 'kinetic-law/model-names')
M('C09', 'lineage-lambda-before-propensities', L,
  "\t\t\tself.interface.compute_lineage_propensities(&self.c_current_state[0], &self.c_propensity[0], current_volume, current_time)\n\n\t\t\tLambda = cyrandom.array_sum(&self.c_propensity[0], self.num_propensities)\n",
  "\t\t\tLambda = cyrandom.array_sum(&self.c_propensity[0], self.num_propensities)\n\t\t\tself.interface.compute_lineage_propensities(&self.c_current_state[0], &self.c_propensity[0], current_volume, current_time)\n\n",
  'fire', 'R9.3-rates-after-rules/Lineage')
M('C19', 'revert-dead-at-birth-row', L,
  """					for species_index in range(self.num_species):
						self.c_results[current_index,species_index] = self.c_current_state[species_index]
					self.c_volume_trace[current_index] = current_volume
					timepoints = timepoints[:current_index+1]
""",
  """					timepoints = timepoints[:current_index+1]
""", 'fire', 'R19.4-rows-written')
