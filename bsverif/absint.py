"""A8: abstract interpretation of scalar Python functions over a sign x {NaN, +-inf} domain.

An abstract value is a set of kinds from {NEG, ZERO, POS, NAN, PINF, NINF} (NumPy scalar
semantics: log of a negative is NaN, a negative base to a non-integer power is NaN and to an
integer power is finite, NaN compares false).  Relations between *named* values (x < lo, x > 1)
are supplied by the scenario and used for comparisons and for the sign of differences.
Branches split the abstract value of the tested variable.  The result is the set of kinds each
`return` can produce, or the fact that the path raises.
Finite arithmetic is assumed to stay finite (no overflow/underflow).
"""
import ast

from .front import AnalysisError, src

NEG, ZERO, POS, NAN, PINF, NINF = 'NEG', 'ZERO', 'POS', 'NAN', 'PINF', 'NINF'
FINITE = frozenset([NEG, ZERO, POS])
ALLFIN = FINITE
EXC = 'EXC'   # pseudo kind: the operation raises


def K(*ks):
    return frozenset(ks)


def _lift2(fn):
    def g(a, b):
        out = set()
        for x in a:
            for y in b:
                out |= set(fn(x, y))
        return frozenset(out)
    return g


def _mul(x, y):
    if EXC in (x, y):
        return [EXC]
    if NAN in (x, y):
        return [NAN]
    inf = {PINF: 1, NINF: -1}
    sg = {NEG: -1, ZERO: 0, POS: 1, PINF: 1, NINF: -1}
    if x in inf or y in inf:
        s = sg[x] * sg[y]
        return [NAN] if s == 0 else ([PINF] if s > 0 else [NINF])
    s = sg[x] * sg[y]
    return [ZERO] if s == 0 else ([POS] if s > 0 else [NEG])


def _add(x, y):
    if EXC in (x, y):
        return [EXC]
    if NAN in (x, y):
        return [NAN]
    if {x, y} == {PINF, NINF}:
        return [NAN]
    if PINF in (x, y):
        return [PINF]
    if NINF in (x, y):
        return [NINF]
    if x == ZERO:
        return [y]
    if y == ZERO:
        return [x]
    if x == y:
        return [x]
    return [NEG, ZERO, POS]


def _neg1(x):
    return {NEG: POS, POS: NEG, ZERO: ZERO, NAN: NAN, PINF: NINF, NINF: PINF, EXC: EXC}[x]


def _div(x, y):
    if EXC in (x, y):
        return [EXC]
    if NAN in (x, y):
        return [NAN]
    if y == ZERO:
        return [EXC, PINF, NINF, NAN]     # python float: ZeroDivisionError; numpy: inf / nan
    if y in (PINF, NINF):
        return [NAN] if x in (PINF, NINF) else [ZERO]
    return _mul(x, y)


def _pow(x, y):
    if EXC in (x, y):
        return [EXC]
    if NAN in (x, y):
        return [NAN]
    if x == POS:
        return [POS] if y in FINITE else ([PINF, ZERO, POS] if y in (PINF, NINF) else [NAN])
    if x == ZERO:
        if y == POS:
            return [ZERO]
        if y == ZERO:
            return [POS]
        return [PINF, EXC]
    if x == NEG:
        if y == ZERO:
            return [POS]
        return [NEG, POS, NAN]      # integer exponent: finite of either sign; non-integer: NaN
    if x == PINF:
        return [PINF] if y == POS else ([POS] if y == ZERO else [ZERO])
    return [NAN, PINF, NINF]


MUL, ADD, DIV, POW = _lift2(_mul), _lift2(_add), _lift2(_div), _lift2(_pow)


def NEGATE(a):
    return frozenset(_neg1(x) for x in a)


def _map(tab):
    def g(a):
        out = set()
        for x in a:
            out |= set(tab[x])
        return frozenset(out)
    return g


LOG = _map({POS: [NEG, ZERO, POS], ZERO: [NINF], NEG: [NAN], NAN: [NAN], PINF: [PINF], NINF: [NAN], EXC: [EXC]})
EXP = _map({POS: [POS], ZERO: [POS], NEG: [POS], NAN: [NAN], PINF: [PINF], NINF: [ZERO], EXC: [EXC]})
SQRT = _map({POS: [POS], ZERO: [ZERO], NEG: [NAN], NAN: [NAN], PINF: [PINF], NINF: [NAN], EXC: [EXC]})
ABS = _map({POS: [POS], ZERO: [ZERO], NEG: [POS], NAN: [NAN], PINF: [PINF], NINF: [PINF], EXC: [EXC]})
POSFN = _map({POS: [POS], ZERO: [PINF, EXC], NEG: [NEG, POS, NAN, PINF], NAN: [NAN], PINF: [PINF], NINF: [NAN], EXC: [EXC]})   # gamma / beta function


class Result:
    def __init__(self):
        self.returns = []   # (kinds, node, decisions)
        self.raises = []


class Interp:
    def __init__(self, param_kinds, relations, index_kinds, value_name):
        """param_kinds: name -> kinds; relations: {(a,b): '<'|'>'|'='}; index_kinds: k -> kinds for prior[...][k]."""
        self.rel = dict(relations)
        self.index_kinds = index_kinds
        self.param_kinds = param_kinds
        self.res = Result()

    def relation(self, a, b):
        if (a, b) in self.rel:
            return self.rel[(a, b)]
        if (b, a) in self.rel:
            return {'<': '>', '>': '<', '=': '='}[self.rel[(b, a)]]
        return None

    # -- expressions -> kinds
    def ev(self, n, env):
        if isinstance(n, ast.Constant):
            v = n.value
            if isinstance(v, bool) or v is None or isinstance(v, str):
                return K(POS) if v else K(ZERO)
            if v != v:
                return K(NAN)
            if v == float('inf'):
                return K(PINF)
            return K(POS) if v > 0 else (K(NEG) if v < 0 else K(ZERO))
        if isinstance(n, ast.Name):
            if n.id in env:
                return env[n.id]
            if n.id in self.param_kinds:
                return self.param_kinds[n.id]
            raise AnalysisError('abstract value of %s unknown' % n.id)
        if isinstance(n, ast.Attribute):
            t = src(n)
            if t in ('np.inf', 'np.Inf', 'math.inf', 'numpy.inf'):
                return K(PINF)
            if t in ('np.nan', 'numpy.nan'):
                return K(NAN)
            if t in ('np.pi', 'math.pi', 'np.e', 'math.e'):
                return K(POS)
            if t.replace(' ', '') in ('np.finfo(float).eps', 'np.finfo(float).tiny', 'np.finfo(np.float64).eps', 'sys.float_info.epsilon',
                                      'sys.float_info.min', 'np.finfo(float).smallest_normal', 'np.finfo(float).max', 'sys.float_info.max'):
                return K(POS)       # positive machine constants
            raise AnalysisError('abstract value of %s unknown' % t)
        if isinstance(n, ast.Subscript):
            # prior_dict[param_name][k]
            if isinstance(n.slice, ast.Constant) and isinstance(n.slice.value, int) and isinstance(n.value, ast.Subscript):
                k = n.slice.value
                if k in self.index_kinds:
                    return self.index_kinds[k]
            raise AnalysisError('abstract value of %s unknown' % src(n))
        if isinstance(n, ast.UnaryOp):
            v = self.ev(n.operand, env)
            if isinstance(n.op, ast.USub):
                return NEGATE(v)
            if isinstance(n.op, ast.UAdd):
                return v
        if isinstance(n, ast.BinOp):
            a, b = self.ev(n.left, env), self.ev(n.right, env)
            if isinstance(n.op, ast.Mult):
                return MUL(a, b)
            if isinstance(n.op, ast.Div):
                return DIV(a, b)
            if isinstance(n.op, ast.Pow):
                return POW(a, b)
            if isinstance(n.op, (ast.Add, ast.Sub)):
                if isinstance(n.op, ast.Sub):
                    r = self._rel_nodes(n.left, n.right, env)
                    if r is not None and a <= FINITE and b <= FINITE:
                        return {'<': K(NEG), '>': K(POS), '=': K(ZERO)}[r]
                    return ADD(a, NEGATE(b))
                return ADD(a, b)
        if isinstance(n, ast.Call):
            name = src(n.func).split('.')[-1]
            args = [self.ev(a, env) for a in n.args]
            if name == 'log' and len(args) == 1:
                return LOG(args[0])
            if name == 'exp' and len(args) == 1:
                return EXP(args[0])
            if name == 'sqrt' and len(args) == 1:
                return SQRT(args[0])
            if name in ('abs', 'fabs') and len(args) == 1:
                return ABS(args[0])
            if name in ('gamma', 'beta') and args:
                out = set()
                for a in args:
                    out |= POSFN(a)
                return frozenset(out) if any(x != K(POS) for x in args) else K(POS)
            if name in ('float', 'double') and len(args) == 1:
                return args[0]
            if name in ('max', 'min', 'maximum', 'minimum', 'fmax', 'fmin') and len(args) == 2:
                order = {NINF: 0, NEG: 1, ZERO: 2, POS: 3, PINF: 4}
                out = set()
                for x in args[0]:
                    for y in args[1]:
                        if x in (NAN, EXC) or y in (NAN, EXC):
                            out |= {x, y}       # with a NaN the result is one of the two arguments (which one depends on the order)
                        elif x == y:
                            out.add(x)          # two values of one sign class: the result is in that class
                        else:
                            pick = max if name in ('max', 'maximum', 'fmax') else min
                            out.add(pick((x, y), key=lambda k_: order[k_]))
                return frozenset(out)
            raise AnalysisError('abstract semantics of call %s unknown' % src(n.func))
        raise AnalysisError('abstract semantics of %s unknown' % src(n))

    def _name_of(self, n, env):
        if isinstance(n, ast.Name):
            return env.get('@alias:' + n.id, n.id)
        if isinstance(n, ast.Constant) and isinstance(n.value, (int, float)):
            return repr(float(n.value))
        return None

    def _rel_nodes(self, l, r, env):
        a, b = self._name_of(l, env), self._name_of(r, env)
        if a is None or b is None:
            return None
        return self.relation(a, b)

    # -- conditions: returns list of (truth, env) feasible outcomes
    def cond(self, test, env):
        if isinstance(test, ast.BoolOp):
            outs = [(True if isinstance(test.op, ast.And) else False, env)]
            # evaluate sequentially with short circuit
            results = []

            def rec(i, e):
                if i == len(test.values):
                    results.append((isinstance(test.op, ast.And), e))
                    return
                for t, e2 in self.cond(test.values[i], e):
                    if isinstance(test.op, ast.And):
                        if t:
                            rec(i + 1, e2)
                        else:
                            results.append((False, e2))
                    else:
                        if t:
                            results.append((True, e2))
                        else:
                            rec(i + 1, e2)
            rec(0, env)
            return results
        if isinstance(test, ast.UnaryOp) and isinstance(test.op, ast.Not):
            return [(not t, e) for t, e in self.cond(test.operand, env)]
        if isinstance(test, ast.Compare) and len(test.ops) == 1:
            l, r = test.left, test.comparators[0]
            op = type(test.ops[0])
            if op in (ast.Is, ast.IsNot) and isinstance(r, ast.Constant) and r.value is None:
                return [(op is ast.IsNot, env)]
            if op in (ast.In, ast.NotIn):
                return [(True, env), (False, env)]
            rel = self._rel_nodes(l, r, env)
            sat = {ast.Lt: '<', ast.LtE: '<=', ast.Gt: '>', ast.GtE: '>=', ast.Eq: '=', ast.NotEq: '<>'}.get(op)
            if sat is None:
                raise AnalysisError('comparison %s not understood' % src(test))
            lk = self.ev(l, env)
            rk = self.ev(r, env)
            if rel is not None and lk <= FINITE and rk <= FINITE:
                return [(rel in sat, env)]
            # variable against zero constant: split by kinds
            if isinstance(r, ast.Constant) and r.value == 0 and isinstance(l, ast.Name):
                tk, fk = set(), set()
                for k in lk:
                    if k in (NAN,):
                        fk.add(k)
                        continue
                    s = {NEG: '<', ZERO: '=', POS: '>', PINF: '>', NINF: '<'}[k]
                    (tk if s in sat else fk).add(k)
                out = []
                if tk:
                    e2 = dict(env); e2[l.id] = frozenset(tk); out.append((True, e2))
                if fk:
                    e2 = dict(env); e2[l.id] = frozenset(fk); out.append((False, e2))
                return out
            # generic: decide when signs force it
            def sign(k):
                return {NEG: -1, ZERO: 0, POS: 1, PINF: 2, NINF: -2}.get(k)
            outs = set()
            for x in lk:
                for y in rk:
                    if NAN in (x, y):
                        outs.add(op is ast.NotEq)
                        continue
                    sx, sy = sign(x), sign(y)
                    if sx != sy or abs(sx) == 2:
                        outs.add((('<' if sx < sy else '>') in sat) if sx != sy else ('=' in sat))
                    elif sx == 0:
                        outs.add('=' in sat)
                    else:
                        outs |= {True, False}
            return [(t, env) for t in sorted(outs)]
        if isinstance(test, ast.Call) and src(test.func).split('.')[-1] in ('isnan', 'isfinite', 'isinf'):
            name = src(test.func).split('.')[-1]
            v = self.ev(test.args[0], env)
            outs = set()
            for k in v:
                outs.add({'isnan': k == NAN, 'isfinite': k in FINITE, 'isinf': k in (PINF, NINF)}[name])
            return [(t, env) for t in sorted(outs)]
        return [(True, env), (False, env)]

    # -- statements
    def run(self, fdef, env):
        self._block(fdef.body, dict(env), [])
        return self.res

    def _block(self, stmts, env, dec):
        for i, s in enumerate(stmts):
            if isinstance(s, (ast.Import, ast.ImportFrom, ast.Pass)):
                continue
            if isinstance(s, ast.Expr):
                continue
            if isinstance(s, ast.Assign) and len(s.targets) == 1 and isinstance(s.targets[0], ast.Name):
                t = s.targets[0].id
                v = s.value
                # aliasing of whole dictionaries / names is kept symbolic
                if isinstance(v, (ast.Attribute,)) and src(v).startswith('self.'):
                    env[t] = K(POS)
                    continue
                kinds = self.ev(v, env)
                if EXC in kinds:
                    self.res.raises.append((s, list(dec)))
                    kinds = kinds - {EXC}
                    if not kinds:
                        return None
                env[t] = kinds
                if isinstance(v, ast.Subscript) and isinstance(v.slice, ast.Constant):
                    env['@alias:' + t] = '#%d' % v.slice.value
                continue
            if isinstance(s, ast.Return):
                k = self.ev(s.value, env) if s.value is not None else K(ZERO)
                if EXC in k:
                    self.res.raises.append((s, list(dec)))
                    k = k - {EXC}
                if k:
                    self.res.returns.append((k, s, list(dec)))
                return None
            if isinstance(s, ast.Raise):
                self.res.raises.append((s, list(dec)))
                return None
            if isinstance(s, ast.If):
                outs = self.cond(s.test, env)
                cont = []
                for truth, e2 in outs:
                    r = self._block(s.body if truth else s.orelse, dict(e2), dec + ['%s -> %s' % (src(s.test)[:60], truth)])
                    if r is not None:
                        cont.append((r, truth))
                rest = stmts[i + 1:]
                for e3, truth in cont:
                    self._block(rest, e3, dec + ['%s -> %s' % (src(s.test)[:60], truth)])
                return None
            raise AnalysisError('abstract interpreter: unsupported statement %s at line %s' % (type(s).__name__, s.lineno))
        return env
