"""Check driver: obligations, known findings, evidence, exit codes."""
import importlib
import json
import os
import sys
import time
import traceback

from . import front
from .front import AnalysisError

VERIF = os.path.dirname(os.path.dirname(os.path.abspath(__file__)))
KNOWN_FILE = os.path.join(VERIF, 'known_findings.json')
EVIDENCE_DIR = os.environ.get('VERIF_EVIDENCE_DIR', os.path.join(VERIF, 'evidence'))


class Ob:
    __slots__ = ('rule', 'key', 'ok', 'where', 'detail', 'what', 'fp')

    def __init__(self, rule, key, ok, where, what, detail, fp=None):
        self.rule, self.key, self.ok, self.where, self.what, self.detail = rule, key, bool(ok), where, what, detail
        self.fp = fp        # optional fingerprint of the failing construct (distinguishes different failures of one obligation)

    def ident(self, pid):
        return '%s/%s/%s' % (pid, self.rule, self.key)

    def as_dict(self, pid):
        d = {'id': self.ident(pid), 'ok': self.ok, 'where': self.where, 'what': self.what, 'detail': self.detail}
        if self.fp is not None:
            d['fingerprint'] = self.fp
        return d


_INLINED = {}
INLINE_MODE = [False]     # second-chance mode: functions are analysed with their pure single-site temporaries read through


def _method_hook(f):
    if not INLINE_MODE[0]:
        return f
    key = id(f)
    if key not in _INLINED:
        from . import util
        g = util.inline_pure_temps(f)
        for a_ in ('cy_kind', '_class', '_module', 'cy_cdef'):
            if hasattr(f, a_) and not hasattr(g, a_):
                setattr(g, a_, getattr(f, a_))
        _INLINED[key] = g
    return _INLINED[key]


front.METHOD_HOOK = _method_hook


class Ctx:
    """Passed to every rule module; collects obligations."""

    def __init__(self, pid, tier, prog):
        self.pid = pid
        self.tier = tier
        self.prog = prog
        self.obs = []
        self.notes = []
        self.functions = set()
        self.call_sites = 0
        self.paths = 0
        self.floors = {}

    def ob(self, rule, key, ok, where='', what='', detail='', fp=None):
        """Record one obligation.  `key` names the construct (never a line number)."""
        o = Ob(rule, str(key), ok, where, what, detail, fp)
        for e in self.obs:
            if e.rule == rule and e.key == o.key:
                raise AnalysisError('duplicate obligation key %s/%s' % (rule, key))
        self.obs.append(o)
        return o.ok

    def note(self, text):
        self.notes.append(text)

    def fn(self, spec, raw=False):
        f = self.prog.func(spec)
        self.functions.add(spec)
        if raw or not INLINE_MODE[0]:
            return f
        # single-site pure temporaries are read through (util.inline_pure_temps): naming a sub-expression is not a change
        key = id(f)
        if key not in _INLINED:
            from . import util
            _INLINED[key] = util.inline_pure_temps(f)
        return _INLINED[key]

    def loc(self, modname, node):
        return self.prog.where(modname, node)

    def floor(self, rule, n_min):
        """A rule must have produced at least n_min obligations (anchor-vanished guard)."""
        self.floors[rule] = n_min

    def check_floors(self):
        for rule, n_min in self.floors.items():
            n = sum(1 for o in self.obs if o.rule == rule)
            if n < n_min:
                raise AnalysisError('anchor vanished: rule %s matched %d instances, floor %d' % (rule, n, n_min))


class SubCtx:
    """Collects the obligations of another property's rule so that a dependent property can re-emit the ones it relies on."""

    def __init__(self, ctx):
        self.ctx = ctx
        self.prog = ctx.prog
        self.tier = ctx.tier
        self.functions = ctx.functions
        self.call_sites = 0
        self.paths = 0
        self.got = []
        self.floors = {}

    def ob(self, rule, key, ok, where='', what='', detail='', fp=None):
        self.got.append((rule, key, ok, where, what, detail))
        return ok

    def note(self, t):
        pass

    def floor(self, *a):
        pass

    def loc(self, m, n):
        return self.ctx.loc(m, n)

    def fn(self, spec, raw=False):
        return self.ctx.fn(spec, raw=raw)


def load_known():
    try:
        with open(KNOWN_FILE) as f:
            data = json.load(f)
    except FileNotFoundError:
        return {}, []
    known = {}
    for e in data.get('known', []):
        known[e['id']] = e
    return known, data.get('fixed', [])


def run_property(pid, tier='quick', replay=None, quiet=False):
    t0 = time.time()
    seed = int(os.environ.get('VERIF_SEED', '0') or 0)
    out = sys.stdout
    mod = importlib.import_module('bsverif.rules.%s' % pid.lower())
    prog = front.Program()

    partial = [None]
    known, fixed = load_known()

    def listed(o):
        e = known.get(o.ident(pid))
        if e is None:
            return False
        # a listed finding suppresses exactly the failure it describes: same obligation and, where the
        # rule provides one, the same fingerprint of the failing construct
        return e.get('fingerprint') is None or o.fp is None or e.get('fingerprint') == o.fp

    def attempt(inline):
        INLINE_MODE[0] = inline
        partial[0] = None
        c = Ctx(pid, tier, prog)
        try:
            mod.check(c)
            c.check_floors()
            if not c.obs:
                raise AnalysisError('no obligations generated')
            return c, None
        except AnalysisError as e:
            if not inline and any(not o.ok and not listed(o) for o in c.obs):
                # a later rule could not be evaluated, but obligations decided before it are violated: those stand (a violation does
                # not become undecided because something else is); the rest of the property is reported as not analysed.  Failures that
                # are listed known findings do not count here: with only those, a stopped analysis is an analysis error.  (Only on the
                # source as written: the normal form is a second chance to discharge obligations, never a source of violations.)
                c.notes.append('the analysis stopped early (%s): obligations after that point were not evaluated' % e)
                return c, None
            partial[0] = c
            return None, 'ANALYSIS-ERROR property=%s %s' % (pid, e)
        except Exception as e:  # internal error: never a violation
            return None, 'ANALYSIS-ERROR property=%s internal: %r\n%s' % (pid, e, traceback.format_exc())
        finally:
            INLINE_MODE[0] = False
    ctx, err = attempt(False)
    if err is not None or any(not o.ok for o in ctx.obs):
        # second chance on a semantics-preserving normal form (util.inline_pure_temps): an obligation discharged on either form holds;
        # an analysis that only succeeds on the normal form is used as it is
        ctx2, err2 = attempt(True)
        if ctx is None and ctx2 is not None:
            ctx, err = ctx2, None
            ctx.notes.append('analysed on the normal form with single-site pure temporaries read through')
        elif ctx is not None and (ctx2 is not None or partial[0] is not None):
            # (when the normal-form analysis stopped early, the obligations it discharged before that still count)
            good = {(o.rule, o.key) for o in (ctx2 or partial[0]).obs if o.ok}
            for o in ctx.obs:
                if not o.ok and (o.rule, o.key) in good:
                    o.ok = True
                    o.detail = 'discharged on the normal form with single-site pure temporaries read through'
    if err is not None:
        print(err)
        return 2

    failed = [o for o in ctx.obs if not o.ok]
    viol = [o for o in failed if not listed(o)]
    kf = [o for o in failed if listed(o)]
    if replay:
        try:
            want = set(x['id'] for x in json.load(open(replay)).get('violations', []))
        except Exception as e:
            print('ANALYSIS-ERROR cannot read replay file %s: %r' % (replay, e))
            return 2
        viol = [o for o in viol if o.ident(pid) in want]

    if not quiet:
        print('property %s tier=%s: %d obligations, %d discharged, %d known findings, %d violations; '
              '%d functions, %d modules' % (pid, tier, len(ctx.obs), len(ctx.obs) - len(failed), len(kf), len(viol),
                                            len(ctx.functions), len(prog.mods)))
    for o in kf:
        print('KNOWN-FINDING: property=%s %s -- %s [%s] %s' % (pid, o.ident(pid), o.what, o.where, o.detail))
    for e_id, e in known.items():
        if e_id.startswith(pid + '/') and not any(o.ident(pid) == e_id for o in failed):
            print('NOTE: listed finding %s is no longer reproduced on this tree' % e_id)
    for n in ctx.notes:
        if not quiet:
            print('NOTE: ' + n)

    os.makedirs(EVIDENCE_DIR, exist_ok=True)
    replay_path = os.path.join(EVIDENCE_DIR, 'replay', '%s.json' % pid)
    if viol:
        os.makedirs(os.path.dirname(replay_path), exist_ok=True)
        with open(replay_path, 'w') as f:
            json.dump({'property': pid, 'tier': tier,
                       'violations': [o.as_dict(pid) for o in viol]}, f, indent=1)
        for o in viol:
            print('  FAIL %s\n       at %s\n       rule: %s\n       %s' % (o.ident(pid), o.where, o.what, o.detail))
        print('VIOLATION property=%s replay=%s' % (pid, replay_path))

    if not replay:
        rules = sorted(set(o.rule for o in ctx.obs))
        expl = getattr(mod, 'EXPLANATION', mod.__doc__ or '')
        samples = [o.as_dict(pid) for o in (failed[:3] + [o for o in ctx.obs if o.ok][:5])]
        ev = {
            'property_id': pid, 'tier': tier, 'seed': seed, 'level': 'other',
            'coverage': {
                'explanation': ' '.join(expl.split()),
                'obligations': len(ctx.obs),
                'discharged': len(ctx.obs) - len(failed),
                'known_findings': len(kf),
                'evaluations': len(ctx.obs),
                'distinct_nontrivial': len(set((o.rule, o.key) for o in ctx.obs if o.where)),
                'rule': 'one obligation = one instance of one static rule on one construct of /repo; '
                        'distinct_nontrivial counts obligations whose construct was located in the source '
                        '(has a file:line) and inspected',
                'rules': {r: sum(1 for o in ctx.obs if o.rule == r) for r in rules},
                'floors': ctx.floors,
                'units': prog.digests(),
                'functions': sorted(ctx.functions),
                'functions_analysed': len(ctx.functions),
                'paths': ctx.paths,
                'call_sites': ctx.call_sites,
                'samples': samples,
                'checker_cmd': './check %s --tier %s' % (pid, tier),
                'trusted_base': ['Cython 3.3.0 parser (PostParse tree)', 'CPython ast', 'sympy (equalities only)',
                                 'bsverif lowering, path enumeration and extractors', 'specification tables in bsverif/specs'],
                'exhaustive': True,
                'notes': ctx.notes,
            },
            'assumptions': list(getattr(mod, 'ASSUMPTIONS', [])) + [
                'C double arithmetic is treated as real arithmetic',
                'NumPy/SciPy/libsbml/sympy calls have their documented meaning'],
            'wall_s': round(time.time() - t0, 3),
            'violations': len(viol),
        }
        with open(os.path.join(EVIDENCE_DIR, '%s.json' % pid), 'w') as f:
            json.dump(ev, f, indent=1, default=str)
    return 1 if viol else 0


def main(argv):
    import argparse
    ap = argparse.ArgumentParser(prog='check')
    ap.add_argument('pid')
    ap.add_argument('--tier', default=os.environ.get('VERIF_TIER', 'quick'))
    ap.add_argument('--replay', default=None)
    a = ap.parse_args(argv)
    if a.tier not in ('quick', 'thorough'):
        a.tier = 'quick'
    if a.pid == 'all':
        rc = 0
        for i in range(1, 21):
            pid = 'C%02d' % i
            if os.path.exists(os.path.join(VERIF, 'bsverif', 'rules', pid.lower() + '.py')):
                rc = max(rc, run_property(pid, a.tier))
        return rc
    rc = run_property(a.pid, a.tier, a.replay)
    if rc == 0 and a.tier == 'thorough':
        from . import selftest
        rc = selftest.run(a.pid)
    return rc
