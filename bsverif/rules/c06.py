"""C06 - every stochastic trajectory is a feasible reaction path.

R6.1 one stoichiometric column per event: every store into the working state array of the four
stochastic simulators is one of three recognised updates (immediate column of the sampled
reaction, delayed column of the sampled reaction, queue delivery over all reactions); on every
path of an iteration the number of immediate updates equals the number of sampled reactions
(0 or 1), and the matrices are the interface's stoichiometric matrices.
R6.2 zero total propensity fires nothing: on no feasible path of an iteration is a reaction
sampled, a waiting time drawn or the state updated while `Lambda == 0` may hold.
R6.3 mass-action guards: every stochastic mass-action form vanishes when a reactant of
multiplicity m has fewer than m copies (from the extracted formulas of C01).
R6.4 safe mode: the requirement table lists every consumed species with the amount consumed and
the stochastic evaluators of the safe interface zero an under-supplied reaction.
R6.4b the requirement scan of the safe evaluators runs for every reaction: its condition is the sentinel test and the flag test only.
"""
import ast

import sympy as sp

from .. import paths, simloop, symx, util
from ..front import AnalysisError, src
from . import c01

EXPLANATION = __doc__
ASSUMPTIONS = ['propensities are non-negative, hence Lambda >= 0',
               'the species and reaction ranges are non-empty when a store inside their loops is counted']


def check_sim(ctx, key, with_delay):
    sl = simloop.SimLoop(ctx, key)
    sname = sl.state_name()
    init = sl.prelude_assign(sname, resolve=True)
    ctx.ob('R6.1-state-copy', key, init is not None and src(init).replace(' ', '') == 'sim.get_initial_state().copy()',
           sl.loc(init) if init is not None else sl.where,
           'the working state is a copy of the interface initial state', 'initialised with %s' % (src(init) if init is not None else None))
    stores = simloop.state_stores(sl.f, sname)
    kinds = {}
    for st in stores:
        k, d = simloop.classify_store(st, sname, sl.f)
        kinds[st] = (k, d)
    bad = [(st, d) for st, (k, d) in kinds.items() if k == 'other']
    ctx.ob('R6.1-store-forms', key, not bad and stores, sl.where,
           'every store into the state array is a recognised stoichiometric update',
           '; '.join('%s: %s' % (sl.loc(st), d) for st, d in bad) or '%d stores: %s' % (len(stores), sorted(k for k, _ in kinds.values())))
    # matrices
    exp_imm = 'sim.get_update_array()' if with_delay else 'sim.get_update_array()+sim.get_delay_update_array()'
    for st, (k, d) in kinds.items():
        if k == 'immediate':
            m = sl.prelude_assign(d[0])
            t = src(m).replace(' ', '') if m is not None else None
            alt = 'sim.get_delay_update_array()+sim.get_update_array()'
            ctx.ob('R6.1-matrix', '%s/immediate' % key, t == exp_imm or (not with_delay and t == alt), sl.loc(st),
                   'the immediate update uses %s' % exp_imm, '%s = %s' % (d[0], t))
        elif k == 'delayed':
            m = sl.prelude_assign(d[0])
            t = src(m).replace(' ', '') if m is not None else None
            ctx.ob('R6.1-matrix', '%s/delayed@%s' % (key, 'sampled'), t == 'sim.get_delay_update_array()', sl.loc(st),
                   'the delayed update uses the delayed stoichiometry', '%s = %s' % (d[0], t))
        elif k == 'queue':
            m = sl.prelude_assign(d[0])
            t = src(m).replace(' ', '') if m is not None else None
            gets = util.calls_in(sl.loop, suffix='get_next_reactions')
            amt_ok = any(d[1] in src(c) for c in gets)
            ctx.ob('R6.1-matrix', '%s/queue' % key, t == 'sim.get_delay_update_array()' and amt_ok, sl.loc(st),
                   'a queue delivery adds amount[r] x delayed column r, amounts read from the queue',
                   '%s = %s; amounts %s filled by get_next_reactions: %s' % (d[0], t, d[1], amt_ok))
    # path rules
    pths = sl.iteration_paths()
    viol1, viol2 = [], []
    n_fire = 0
    for p in pths:
        samples, imm, dly = [], [], []
        chosen = None
        for e in p.events:
            if e.kind != 'stmt':
                continue
            cs = paths.stmt_calls(e.node, 'sample_discrete')
            if cs:
                samples.append(e)
                if isinstance(e.node, ast.Assign) and isinstance(e.node.targets[0], ast.Name):
                    chosen = e.node.targets[0].id
                else:
                    chosen = None
            if paths.stmt_calls(e.node, 'exponential_rv') and '=' in simloop.lambda_rel(e):
                viol2.append((p, e, 'waiting time drawn'))
            if e.node in kinds:
                k, d = kinds[e.node]
                if k == 'immediate':
                    imm.append(e)
                    if d[1] != chosen:
                        viol1.append((p, e, 'column %s is not the reaction sampled in this iteration (%s)' % (d[1], chosen)))
                elif k == 'delayed':
                    dly.append(e)
                    if d[1] != chosen:
                        viol1.append((p, e, 'delayed column %s is not the reaction sampled in this iteration' % d[1]))
                if k in ('immediate', 'delayed') and '=' in simloop.lambda_rel(e):
                    viol2.append((p, e, 'state updated by a reaction column'))
        for e in samples:
            if '=' in simloop.lambda_rel(e):
                viol2.append((p, e, 'reaction sampled'))
        if len(samples) > 1 or len(imm) != len(samples) or len(dly) > len(samples):
            viol1.append((p, (imm + samples + [p.events[-1]])[0],
                          '%d reactions sampled, %d immediate updates, %d delayed updates' % (len(samples), len(imm), len(dly))))
        n_fire += len(samples)

    def fmt(v):
        p, e, what = v
        return '%s at %s on path [%s]' % (what, sl.loc(e.node), paths.describe(p))
    ctx.ob('R6.1-one-column-per-event', key, not viol1 and n_fire > 0, sl.where,
           'on every path of an iteration: #immediate updates == #sampled reactions <= 1, column = sampled reaction',
           '; '.join(fmt(v) for v in viol1[:3]) or '%d paths, %d firing paths' % (len(pths), n_fire))
    ctx.ob('R6.2-zero-propensity', key, not viol2, sl.where,
           'no path samples a reaction, draws a waiting time or applies a reaction column while Lambda == 0 may hold',
           '; '.join(fmt(v) for v in viol2[:3]) or '%d paths enumerated' % len(pths))
    # Lambda is the sum of the propensity buffer that is sampled from
    lam = [e for e in ast.walk(sl.loop) if isinstance(e, ast.Assign) and src(e.targets[0]) == 'Lambda']
    ok = len(lam) == 1 and 'array_sum' in src(lam[0].value)
    ctx.ob('R6.2-lambda-def', key, ok, sl.loc(lam[0]) if lam else sl.where,
           'Lambda is assigned once per iteration, from array_sum over the propensity buffer',
           '; '.join(util.stmt_key(x) for x in lam))


def check_guards(ctx):
    """R6.3: stochastic mass-action terms vanish below the required copy number."""
    prog = ctx.prog
    k = c01.PARAMS
    # Bimolecular, same species: value at s=1 must be 0; Unimolecular at 0; MassAction for all multisets
    roles = {}
    table, _, f = c01.binding(ctx, 'BimolecularPropensity')
    binds = table.get('species', ([], None, None))[0]
    if len(binds) == 2:
        bs = sorted(binds, key=lambda b: b[2].split('[')[-1])
        i1, i2 = c01.attr(bs[0][0]), c01.attr(bs[1][0])
        for mode in ('get_stochastic_propensity', 'get_stochastic_volume_propensity'):
            dc, fn, cases = c01.extract(ctx, 'BimolecularPropensity', mode)
            c = c01.select_case(cases, {i1: sp.Integer(1), i2: sp.Integer(1)})
            val = c.value.xreplace({i2: i1})
            s = c01.STATE(i1)
            zero = all(sp.simplify(val.xreplace({s: sp.Integer(v)})) == 0 for v in (0, 1))
            ctx.ob('R6.3-guard', 'BimolecularPropensity/%s/2A' % c01.MODE_NAME[mode], zero, ctx.loc('types', fn),
                   'the stochastic rate of 2A -> ... vanishes with fewer than 2 copies', 'term %s' % val)
    inds = symx.posfun('self.sp_inds')
    counts = symx.posfun('self.sp_counts')
    length = sp.Function('len', integer=True, nonnegative=True)(c01.attr('sp_inds'))
    for mode in ('get_stochastic_propensity', 'get_stochastic_volume_propensity'):
        dc, fn, cases = c01.extract(ctx, 'MassActionPropensity', mode)
        term = cases[0].value
        bad = None
        n = 0
        for cs in c01.multisets():
            if not cs:
                continue
            tab = {length: sp.Integer(len(cs)), c01.attr('num_species'): sp.Integer(sum(cs)),
                   sp.Function('self.sp_inds.size')(): sp.Integer(len(cs))}
            for i, c in enumerate(cs):
                tab[counts(sp.Integer(i))] = sp.Integer(c)
            got = c01.instantiate(term, tab)
            for i, c in enumerate(cs):
                for short in range(0, c):
                    pt = {c01.STATE(inds(sp.Integer(j))): sp.Integer(5) for j in range(len(cs))}
                    pt[c01.STATE(inds(sp.Integer(i)))] = sp.Integer(short)
                    v = got.xreplace(pt)
                    n += 1
                    if sp.simplify(v) != 0:
                        bad = (cs, i, short, v)
        ctx.ob('R6.3-guard', 'MassActionPropensity/%s' % c01.MODE_NAME[mode], bad is None, ctx.loc('types', fn),
               'the stochastic mass-action rate vanishes when a reactant of multiplicity m has fewer than m copies',
               ('%d (multiset, shortage) cases' % n) if bad is None else
               'multiplicities %s: reactant %d with %d copies gives %s' % bad)


def check_state_readers(ctx):
    """Between two recorded rows the state changes only by stoichiometric columns (and rule operations): the interface methods that are
    handed the state to *read* it - propensity evaluation in all four modes, the safe interface's count check, the derivative - never
    store into it."""
    prog = ctx.prog
    readers = ('compute_propensities', 'compute_volume_propensities', 'compute_stochastic_propensities', 'compute_stochastic_volume_propensities',
               'compute_lineage_propensities', 'check_count_function')
    bad = []
    n = 0
    for cls in ('CSimInterface', 'ModelCSimInterface', 'SafeModelCSimInterface', 'LineageCSimInterface', 'SafeLineageCSimInterface'):
        ci = prog.classes.get(cls)
        if ci is None:
            continue
        for mname in readers:
            fn = ci.methods.get(mname)
            if fn is None or not fn.args.args[1:]:
                continue
            n += 1
            st = fn.args.args[1].arg
            for node in ast.walk(fn):
                if isinstance(node, (ast.Assign, ast.AugAssign)):
                    for t in (node.targets if isinstance(node, ast.Assign) else [node.target]):
                        b = t
                        while isinstance(b, ast.Subscript):
                            b = b.value
                        if isinstance(t, ast.Subscript) and isinstance(b, ast.Name) and b.id == st:
                            bad.append('%s.%s stores into the state it was given: `%s` (%s)' % (cls, mname, util.stmt_key(node)[:60], prog.where(ci.module, node)))
    if n < 8:
        raise AnalysisError('anchor vanished: only %d state-reading interface methods found' % n)
    ctx.ob('R6.1-state-readers', 'interfaces', not bad, 'bioscrape/simulator.pyx, lineage/lineage.pyx',
           'propensity evaluation and the safe count check read the state array and never write it (%d methods scanned)' % n, '; '.join(bad[:3]))


def check_safe(ctx):
    for mod_, cls in (('simulator', 'SafeModelCSimInterface'), ('lineage', 'SafeLineageCSimInterface')):
        check_safe_table(ctx, mod_, cls)
    check_safe_evaluators(ctx)


def check_safe_table(ctx, mod_, cls):
    prog = ctx.prog
    f = util.inline_pure_temps(ctx.fn('%s:%s.initialize_reaction_inputs' % (mod_, cls)))
    where = ctx.loc(mod_, f)
    # --- table
    U, D = 'self.update_array', 'self.delay_update_array'
    tab = 'self.reaction_input_indices'
    stores = [n for n in ast.walk(f) if isinstance(n, ast.Assign) and isinstance(n.targets[0], ast.Subscript)
              and src(n.targets[0].value) == tab]
    idx_store = [n for n in stores if src(n.targets[0].slice).endswith(', 0)') or src(n.targets[0].slice).endswith(',0)')]
    amt_store = [n for n in stores if n not in idx_store]
    problems = []
    if len(idx_store) != 1 or len(amt_store) < 1:
        problems.append('table stores not recognised (%d index, %d amount)' % (len(idx_store), len(amt_store)))
    else:
        ist = idx_store[0]
        r, pos, _ = [src(e) for e in ist.targets[0].slice.elts]
        s = src(ist.value)
        # guard of the index store
        g = ist._parent
        while not isinstance(g, ast.If):
            g = g._parent
        gt = src(g.test).replace('(', '').replace(')', '').replace(' ', '')
        want = ('%s[%s,%s]<0or%s[%s,%s]<0' % (U, s, r, D, s, r)).replace(' ', '')
        want2 = ('%s[%s,%s]<0or%s[%s,%s]<0' % (D, s, r, U, s, r)).replace(' ', '')
        if gt not in (want, want2):
            problems.append('a species is listed under condition %s, expected (immediate < 0 or delayed < 0)' % src(g.test))
        # amounts: evaluate the guarded amount expressions
        u, d = sp.Symbol('u', real=True), sp.Symbol('d', real=True)

        def leaf(n, env, se):
            if isinstance(n, ast.Subscript):
                t = src(n).replace(' ', '')
                if t == ('%s[%s,%s]' % (U, s, r)).replace(' ', ''):
                    return u
                if t == ('%s[%s,%s]' % (D, s, r)).replace(' ', ''):
                    return d
            return None
        se = symx.SymExec(prog, cls, leaf=leaf)
        amounts = {}
        for n in amt_store:
            conds = []
            cur = n
            while cur is not g:
                par = cur._parent
                if isinstance(par, ast.If):
                    truth = cur in par.body
                    if par is not g:
                        conds.append((se.ex(par.test, {}), truth))
                cur = par
            amounts[n] = (conds, se.ex(n.value, {}))
        for uv in range(-3, 3):
            for dv in range(-3, 3):
                if not (uv < 0 or dv < 0):
                    continue
                exp_amt = max(-uv, 0) + max(-dv, 0)
                got = []
                for n, (conds, val) in amounts.items():
                    if all(bool(c.subs({u: uv, d: dv})) == t for c, t in conds):
                        got.append(val.subs({u: uv, d: dv}))
                if len(got) != 1 or got[0] != exp_amt:
                    problems.append('stoichiometry (immediate %d, delayed %d): amount recorded %s, consumed %d' % (uv, dv, got, exp_amt))
                    break
            else:
                continue
            break
        # position advances, reset per reaction, sentinel
        body_txt = [util.stmt_key(x) for x in ast.walk(f) if isinstance(x, ast.stmt)]
        if '%s += 1' % pos not in body_txt:
            problems.append('table position %s not advanced after an entry' % pos)
        if '%s = 0' % pos not in body_txt:
            problems.append('table position %s not reset per reaction' % pos)
        alloc = [t for t in body_txt if '-np.ones((self.num_reactions, self.num_species' in t and ', 2)' in t]
        if not alloc:
            problems.append('table not initialised with the -1 sentinel for (reactions, species, 2)')
        # a reaction may consume every species: the scan stops only at a -1, so the species axis needs one spare slot
        # (or the scans must bound their index)
        room = any('self.num_species + 1, 2)' in t or '1 + self.num_species, 2)' in t for t in alloc)
        ctx.ob('R6.4-safe-sentinel', cls, room, where,
               'the requirement list of a reaction always ends in a -1 inside the table: the species axis has num_species + 1 slots',
               '' if room else 'table allocated as %s: a reaction that consumes every species (e.g. A -> 0 in a one-species model) leaves no terminator and '
               'the scan `while table[r, s, 0] != -1` reads past the end (bounds checks are off)' % (alloc[0][:90] if alloc else None))
        loops = [src(l.iter) for l in util.find_loops(f) if isinstance(l, ast.For)]
        if loops != ['range(self.num_reactions)', 'range(self.num_species)']:
            problems.append('loops %s do not cover all reactions x species' % loops)
    ctx.ob('R6.4-safe-table', cls, not problems, where,
           'for every reaction the table lists each species with negative immediate or delayed stoichiometry and the amount consumed',
           '; '.join(problems) or 'table construction recognised')
    init = ctx.fn('%s:%s.__init__' % (mod_, cls))
    calls = [util.stmt_key(s) for s in init.body]
    ok = 'self.initialize_reaction_inputs()' in calls and any(c.startswith('super().__init__(') for c in calls) and \
        calls.index('self.initialize_reaction_inputs()') > [i for i, c in enumerate(calls) if c.startswith('super().__init__(')][0]
    ctx.ob('R6.4-safe-table-built', cls, ok, ctx.loc(mod_, init),
           'the constructor builds the requirement table after the base interface is set up', '')


def check_safe_evaluators(ctx):
    prog = ctx.prog
    tab = 'self.reaction_input_indices'
    for mod_, cls, slot in (('simulator', 'SafeModelCSimInterface', 'compute_stochastic_propensities'),
                            ('simulator', 'SafeModelCSimInterface', 'compute_stochastic_volume_propensities'),
                            ('lineage', 'SafeLineageCSimInterface', 'compute_lineage_propensities')):
        dc, fn = prog.resolve_method(cls, slot)
        if fn is None:
            raise AnalysisError('anchor vanished: %s.%s' % (cls, slot))
        ctx.functions.add('%s:%s.%s' % (mod_, dc, slot))
        w = ctx.loc(prog.classes[dc].module, fn)
        problems = []
        scan_cond = []
        if dc != cls:
            problems.append('the safe interface does not override %s (executes %s.%s)' % (slot, dc, slot))
        else:
            args = [a.arg for a in fn.args.args[1:]]
            state, dest = args[0], args[1]
            loops = [l for l in util.find_loops(fn) if isinstance(l, ast.For) and src(l.iter) == 'range(self.num_reactions)']
            whiles = [l for l in util.find_loops(fn) if isinstance(l, ast.While)]
            if len(loops) != 1 or len(whiles) != 1:
                problems.append('reaction loop / requirement scan not found')
            else:
                lp, wh = loops[0], whiles[0]
                r = src(lp.target)
                # requirement test
                tests = [n for n in ast.walk(wh) if isinstance(n, ast.If)]
                req = None
                for t in tests:
                    c = t.test
                    if isinstance(c, ast.Compare) and len(c.ops) == 1 and src(c.left).startswith(state + '['):
                        req = t
                    elif isinstance(c, ast.Compare) and len(c.ops) == 1 and src(c.comparators[0]).startswith(state + '[') and \
                            isinstance(c.ops[0], (ast.Gt, ast.GtE, ast.Lt, ast.LtE)):
                        req = t     # mirrored comparison: amount > state[...]
                if req is None:
                    problems.append('no requirement test on the state inside the scan')
                else:
                    c = req.test
                    if not src(c.left).startswith(state + '['):
                        mirror = {ast.Gt: ast.Lt, ast.GtE: ast.LtE, ast.Lt: ast.Gt, ast.LtE: ast.GtE}[type(c.ops[0])]
                        c = ast.Compare(left=c.comparators[0], ops=[mirror()], comparators=[c.left])
                    lhs = src(c.left).replace(' ', '')
                    rhs = src(c.comparators[0]).replace(' ', '')
                    m_idx = lhs[len(state) + 1:-1]
                    # lhs: state[table[r, s, 0]]; rhs: table[r, s, 1]
                    if not (m_idx.startswith(tab + '[') and m_idx.endswith(',0]') and rhs == m_idx[:-3] + ',1]'):
                        problems.append('requirement compares %s with %s (expected state[table[r,s,0]] with table[r,s,1])' % (lhs, rhs))
                    elif not m_idx.startswith('%s[%s,' % (tab, r)):
                        problems.append('requirement row is not the current reaction %s' % r)
                    if not isinstance(c.ops[0], ast.Lt):
                        problems.append('requirement test is `%s`, expected `state < amount`' % type(c.ops[0]).__name__)
                    bt = [util.stmt_key(x) for x in req.body]
                    flag = None
                    for x in req.body:
                        if isinstance(x, ast.Assign) and util.is_const(x.value, 1):
                            flag = src(x.targets[0])
                    if '%s[%s] = 0' % (dest, r) not in bt or flag is None:
                        problems.append('an under-supplied reaction is not zeroed and flagged: %s' % bt)
                    else:
                        wt = src(wh.test).replace(' ', '')
                        if ('%s==0' % flag) not in wt or '!=-1' not in wt or 'or' in [type(getattr(wh.test, 'op', None)).__name__.lower()]:
                            problems.append('scan condition %s does not stop at the sentinel / at the first failure' % src(wh.test))
                        else:
                            # the scan runs for every reaction: its condition is the sentinel test and the flag test, nothing else
                            conj = []
                            todo = [wh.test]
                            while todo:
                                t_ = todo.pop()
                                if isinstance(t_, ast.BoolOp) and isinstance(t_.op, ast.And):
                                    todo.extend(t_.values)
                                else:
                                    conj.append(util.canon_test(t_).replace(' ', ''))
                            extra = [c_ for c_ in conj if c_ not in (util.canon_test(ast.parse('%s == 0' % flag, mode='eval').body).replace(' ', ''),)
                                     and not (c_.endswith('!=-1') or c_.startswith('-1!='))]
                            if extra:
                                scan_cond.append('the requirement scan is skipped unless %s: safe mode holds for every propensity type' % extra)
                        pre = [util.stmt_key(x) for x in lp.body]
                        if '%s = 0' % flag not in pre:
                            problems.append('flag %s not reset for each reaction' % flag)
                        # slot call guarded by flag == 0
                        calls = [x for x in ast.walk(lp) if isinstance(x, ast.Call) and isinstance(x.func, ast.Attribute)
                                 and x.func.attr in c01.IFACE_SLOTS_VALUES]
                        for cl in calls:
                            g = cl
                            guarded = False
                            while g is not lp:
                                par = g._parent
                                if isinstance(par, ast.If) and g in par.body and src(par.test).replace(' ', '') == '%s==0' % flag:
                                    guarded = True
                                g = par
                            if not guarded:
                                problems.append('propensity evaluated without checking %s == 0' % flag)
                        if not calls:
                            problems.append('no propensity evaluation in the reaction loop')
                    # scan index advances and is reset
                    inc = [x for x in wh.body if isinstance(x, ast.AugAssign) and util.is_const(x.value, 1)]
                    if not inc:
                        problems.append('scan position not advanced')
                    else:
                        pos = src(inc[0].target)
                        if '%s = 0' % pos not in [util.stmt_key(x) for x in lp.body]:
                            problems.append('scan position %s not reset for each reaction' % pos)
        if dc == cls:
            # (its own obligation: skipping the scan fires under-supplied reactions - C06 - but leaves the sampled rates those of the model)
            ctx.ob('R6.4-safe-scan-unconditional', '%s/%s' % (cls, slot), not scan_cond, w,
                   'the requirement scan runs for every reaction, whatever its propensity type', '; '.join(scan_cond))
        ctx.ob('R6.4-safe-eval', '%s/%s' % (cls, slot), not problems, w,
               'a reaction whose listed species has state < amount gets propensity 0 and is not evaluated',
               '; '.join(problems) or 'requirement scan recognised')
        # negative clamp
        clamp = False
        for n in ast.walk(fn):
            if isinstance(n, ast.If) and isinstance(n.test, ast.Compare) and isinstance(n.test.ops[0], ast.Lt) \
                    and util.is_const(n.test.comparators[0], 0):
                slot_ = src(n.test.left)
                if not slot_.startswith(args[1] + '['):
                    # the tested value is what was just stored into the slot: `dest[r] = v` directly in front of `if v < 0`
                    blk = getattr(n._parent, 'body', [])
                    prev = blk[blk.index(n) - 1] if n in blk and blk.index(n) > 0 else None
                    if isinstance(prev, ast.Assign) and src(prev.value) == slot_ and src(prev.targets[0]).startswith(args[1] + '[') \
                            and isinstance(n.test.left, (ast.Name, ast.Call)):
                        slot_ = src(prev.targets[0])
                if slot_.startswith(args[1] + '[') and any(util.stmt_key(x) == '%s = 0' % slot_ for x in n.body):
                    clamp = True
        ctx.ob('R6.4-safe-clamp', '%s/%s' % (cls, slot), clamp, w, 'a negative propensity is clamped to 0', '')


def check(ctx):
    prog = ctx.prog
    prog.mod('types'); prog.mod('types.pxd'); prog.mod('simulator'); prog.mod('simulator.pxd'); prog.mod('lineage'); prog.mod('lineage.pxd')
    for key, wd in (('SSASimulator', False), ('DelaySSASimulator', True), ('VolumeSSASimulator', False),
                    ('DelayVolumeSSASimulator', True)):
        check_sim(ctx, key, wd)
    check_guards(ctx)
    check_state_readers(ctx)
    check_safe(ctx)
    # lattice membership is relative to the network's net stoichiometry: the matrices the simulators add columns of must be the
    # products-minus-reactants counts (C03 R3.1 / R3.3) - re-emitted here
    from ..core import SubCtx
    from . import c03
    # a queue delivery is "the delayed completion of a reaction that was initiated earlier": each entry put into the queue comes out
    # once (C20 R20.1 add, R20.2 delivery) - re-emitted here for the delay-capable simulators
    from . import c20
    sub = SubCtx(ctx)
    c20.check_add(sub)
    c20.check_delivery(sub)
    for rule, key, ok, where, what, detail in sub.got:
        ctx.ob('R6.1-queue-deliveries', '%s/%s' % (rule, key), ok, where, what, detail)
    # "mass-action networks never report a negative count": each mass-action reaction is guarded by its own reactants - the species string
    # create_reaction derives for it is not left behind in a dictionary the caller may hand to the next reaction (C01 R1.3) - re-emitted
    from ..core import SubCtx as _Sub
    from . import c01 as _c01
    sub = _Sub(ctx)
    _c01.check_arguments_untouched(sub)
    for rule, key, ok, where, what, detail in sub.got:
        ctx.ob('R6.3-guard-multiset', 'C01/%s/%s' % (rule, key), ok, where, what, detail)
    # "in safe mode no reaction fires without its full complement of reactants": the entry point gives every stochastic run that asks
    # for safe mode the safe interface - also a run that only delay=True makes stochastic (C07 R7.2-dispatch-table) - re-emitted here
    from ..core import SubCtx
    from . import c07
    sub = SubCtx(ctx)
    c07.check_lattice(sub)
    for rule, key, ok, where, what, detail in sub.got:
        if rule == 'R7.2-dispatch-table' and key.startswith('interface/'):
            ctx.ob('R6.4-safe-dispatch', key, ok, where, what, detail)
    # "every trajectory is a combination of the net stoichiometries": a firing with a delay leaves its delayed column in exactly one
    # place - the queue, or the state at once when the drawn delay is not positive - never nowhere (C10 R10.1-one-disposition) - re-emitted
    from . import c10
    sub = SubCtx(ctx)
    for key_ in ('DelaySSASimulator', 'DelayVolumeSSASimulator'):
        c10.check_loop(sub, key_)
    for rule, key, ok, where, what, detail in sub.got:
        if rule == 'R10.1-one-disposition':
            ctx.ob('R6.1-queue-deliveries', 'C10/%s/%s' % (rule, key), ok, where, what, detail)
    ctx.floor('R6.1-queue-deliveries', 3)
    sub = SubCtx(ctx)
    c03.check_accumulation(sub)
    c03.check_matrices(sub)
    for rule, key, ok, where, what, detail in sub.got:
        if rule in ('R3.1-accumulation', 'R3.3-matrix-fill'):
            ctx.ob('R6.1-stoichiometry', '%s/%s' % (rule, key), ok, where, what, detail)
    # the mass-action guard (R6.3) is computed on the (species, multiplicity) table: that table must be the reactant multiset
    # whatever the order in which the reactants are listed (C01 R1.2) - re-emitted here
    sub = SubCtx(ctx)
    c01.check_binding(sub, 'MassActionPropensity')
    c01.check_binding(sub, 'BimolecularPropensity')
    for rule, key, ok, where, what, detail in sub.got:
        if rule == 'R1.2-binding' and key.endswith('/species'):
            ctx.ob('R6.3-guard-multiset', key, ok, where, what, detail)
    ctx.floor('R6.1-one-column-per-event', 4)
    ctx.floor('R6.2-zero-propensity', 4)
    ctx.floor('R6.3-guard', 4)
    ctx.floor('R6.4-safe-eval', 3)
