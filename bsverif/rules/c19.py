"""C19 - division conserves molecules and volume; lineage records are consistent.

R19.1 conservation by construction in the three partition methods: both daughter states start as
copies of the mother's state; for every conserved index class the only writes are
`dstate[i] = X` followed on every path by `estate[i] -= dstate[i]`; duplicated indices are never
written; every species index is put into exactly one class; daughter volumes are V*p and V*(1-p)
(V/2 twice for perfect, V twice for duplicate).
R19.2 binomial counts are binom_rnd_f(count, p) with the p that scaled the first daughter's
volume; binom_rnd_f counts uniform_rv() < p over int(N+0.5) draws.
R19.3 daughters start at the mother's time with the partitioned state and volume; parent and
daughter links are set mutually and each schnitz is added to the lineage once.
R19.3b the cell-state queue and the schnitz queue of a lineage simulation are filled pairwise on every path (index-aligned).
R19.4 no phantom event: no path of the lineage loop samples an event while Lambda == 0 may hold;
every break carries a rule/event index.
R19.5 every volume change in the loop is followed by the non-positive test before the next row.
R19.6 own state: inside SimulateSingleCell the state buffer (self.c_current_state) is never read
before it has been loaded, on that path, from the cell being simulated (its stored state or the
model's initial state); every reported row therefore describes this cell and not the previous one.
R19.3c grid cut: the daughters' time grid starts at the first grid point not before the division time, found by a first-hit scan
over the grid values (any spacing).
R19.4b rows written: after the loop the result arrays keep only rows the loop has written.
"""
import ast

import sympy as sp

from .. import paths, simloop, symx, util
from ..front import AnalysisError, src

EXPLANATION = __doc__
ASSUMPTIONS = ['custom partition functions are user code and outside the claim']

SPLITTERS = [('simulator', 'PerfectBinomialVolumeSplitter'), ('simulator', 'GeneralVolumeSplitter'), ('lineage', 'LineageVolumeSplitter')]


def simple_assigns(f):
    out = {}
    for s in f.body:
        if isinstance(s, ast.Assign) and len(s.targets) == 1 and isinstance(s.targets[0], ast.Name):
            out.setdefault(s.targets[0].id, []).append(s.value)
        elif isinstance(s, ast.AnnAssign) and s.value is not None:
            out.setdefault(s.target.id, []).append(s.value)
    return out


def check_partition(ctx, mod, cls):
    f = ctx.fn('%s:%s.partition' % (mod, cls))
    where = ctx.loc(mod, f)
    parent = f.args.args[1].arg
    asg = simple_assigns(f)
    problems = []
    copies = [n for n, vs in asg.items() if any(src(v).replace(' ', '') == '%s.get_state().copy()' % parent for v in vs)]
    if len(copies) != 2:
        # not the spelling this (older, syntactic) rule knows: the element-view analysis decides on its own
        sem, n_cases = check_partition_semantic(ctx, mod, cls, f)
        ctx.ob('R19.1-conservation', cls, not sem, where,
               'per species class, what partition() computes for one species: conserved classes d + e = m (binomial: d is the draw over m), '
               'duplicated species m and m (%d class x mode cases by symbolic execution)' % n_cases, '; '.join(sem[:3]))
        pv = [src(c.args[1]).replace(' ', '') for c in util.calls_in(f, suffix='binom_rnd_f') if len(c.args) == 2]
        return f, copies, (pv[0] if pv else None)
    for n in copies:
        if len(asg[n]) != 1:
            problems.append('%s is re-bound after being copied from the mother' % n)
    # loops writing the states
    conserved = 0
    p_var = None
    for lp in [s for s in f.body if isinstance(s, ast.For)]:
        it = src(lp.iter).replace(' ', '')
        custom = 'custom' in it
        stores = [n for n in ast.walk(lp) if isinstance(n, (ast.Assign, ast.AugAssign))
                  and isinstance((n.targets[0] if isinstance(n, ast.Assign) else n.target), ast.Subscript)
                  and src((n.targets[0] if isinstance(n, ast.Assign) else n.target).value) in copies]
        if not stores:
            continue
        if 'duplicate' in it:
            problems.append('duplicated species are written in the loop over %s' % it)
            continue
        if custom:
            continue
        # which is d (assigned) and which is e (decremented)
        en = paths.Enumerator(for_nonempty=())
        ps = en.run(lp.body, paths.State())
        ctx.paths += len(ps)
        for p in ps:
            if p.exit == 'raise':
                continue
            seq = []
            for e in p.stmts():
                n = e.node
                if n in stores:
                    t = n.targets[0] if isinstance(n, ast.Assign) else n.target
                    seq.append((src(t.value), src(t.slice), n))
            if not seq:
                problems.append('a path through the loop over %s writes neither daughter' % it)
                continue
            last = seq[-1]
            dn = [x for x in seq[:-1]]
            n = last[2]
            ok_last = isinstance(n, ast.AugAssign) and isinstance(n.op, ast.Sub) and dn and \
                src(n.value).replace(' ', '') == '%s[%s]' % (dn[-1][0], last[1]) and last[0] != dn[-1][0]
            if not ok_last:
                problems.append('loop over %s: a path does not end with `e[i] -= d[i]` (%s)' % (it, [util.stmt_key(x[2]) for x in seq]))
                continue
            if any(x[0] != dn[0][0] or x[1] != last[1] or not isinstance(x[2], ast.Assign) for x in dn):
                problems.append('loop over %s: unexpected writes %s' % (it, [util.stmt_key(x[2]) for x in seq]))
        conserved += 1
        # index covers the class: species_index = self.X_indices[loop_index] with range(self.X_indices.size()), or all species
        idx_name = src((stores[0].targets[0] if isinstance(stores[0], ast.Assign) else stores[0].target).slice)
        lv = src(lp.target)
        if idx_name == lv:
            bound = it[len('range('):-1]
            bv = asg.get(bound, [None])[-1]
            if not (bv is not None and src(bv).replace(' ', '') in ('%s.shape[0]' % copies[0], '%s.shape[0]' % copies[1])):
                problems.append('loop over %s does not cover every species' % it)
        else:
            first = lp.body[0]
            vec = it[len('range('):-len('.size())')] if it.endswith('.size())') else None
            if not (isinstance(first, ast.Assign) and src(first.targets[0]) == idx_name and vec
                    and src(first.value).replace(' ', '') == '%s[%s]' % (vec, lv)):
                problems.append('loop over %s: species index is not taken from that index class' % it)
        # binomial draw
        for c in util.calls_in(lp, suffix='binom_rnd_f'):
            a = [src(x).replace(' ', '') for x in c.args]
            dname = [x for x in copies if a[0].startswith(x + '[')]
            if not dname or a[0] != '%s[%s]' % (dname[0], idx_name):
                problems.append('binomial draw is over %s, not over the mother count of that species' % a[0])
            p_var = a[1]
    if conserved == 0:
        problems.append('no conserving partition loop found')
    # what the function computes per species class (element view, symbolic execution) decides; the spelling-based findings above are
    # only reported when that analysis agrees that something is wrong
    sem, n_cases = check_partition_semantic(ctx, mod, cls, f)
    if not sem:
        problems = []
    else:
        problems = sem + problems
    ctx.ob('R19.1-conservation', cls, not problems, where,
           'per species class, what partition() computes for one species: conserved classes d + e = m (binomial: d is the draw over m), '
           'duplicated species m and m (%d class x mode cases by symbolic execution)' % n_cases,
           '; '.join(problems[:3]))
    return f, copies, p_var


def _loop_class(lp, f):
    """which species a top-level loop of partition() runs over: ('class', 'perfect_indices') | ('all', None) | None"""
    it = src(lp.iter).replace(' ', '')
    if it.startswith('range(self.') and it.endswith('.size())'):
        return ('class', it[len('range(self.'):-len('.size())')])
    if it.startswith('range(len(self.') and it.endswith('))'):
        return ('class', it[len('range(len(self.'):-2])
    if it.startswith('self.') and it[5:].replace('_', '').isalnum() and it.endswith('_indices') and isinstance(lp.target, ast.Name):
        return ('class', it[5:], 'direct')       # `for s in self.binomial_indices:` - the loop variable is the species index itself
    if it.startswith('range(') and it.endswith(')') and ',' not in it:
        bound = it[len('range('):-1]
        asg = simple_assigns(f)
        for v in asg.get(bound, []):
            t = src(v).replace(' ', '')
            if t.endswith('.shape[0]') or (t.startswith('len(') and t.endswith(')')):
                return ('all', None)
        if bound.endswith('.shape[0]'):
            return ('all', None)
    return None


def inline_module_helpers(f, modtree):
    """copy of `f` in which expression statements that call a module-level helper of the same module (`split(<double*> d.data, i, p)`) are
    replaced by the helper's body, parameters substituted (pointer arguments stand for the arrays they point into)"""
    import copy
    helpers = {n.name: n for n in modtree.body if isinstance(n, ast.FunctionDef)}

    class Sub(ast.NodeTransformer):
        def __init__(self, m):
            self.m = m

        def visit_Name(self, n):
            if n.id in self.m:
                return copy.deepcopy(self.m[n.id])
            return n

    class T(ast.NodeTransformer):
        def visit_Expr(self, st):
            c = st.value
            if isinstance(c, ast.Call) and isinstance(c.func, ast.Name) and c.func.id in helpers and not c.keywords:
                h = helpers[c.func.id]
                params = [a.arg for a in h.args.args]
                if len(c.args) > len(params) or h.args.vararg or h.args.kwarg:
                    return st
                m = {}
                for i, pn in enumerate(params):
                    if i < len(c.args):
                        a = util.strip_cast(c.args[i])
                        if isinstance(a, ast.Attribute) and a.attr == 'data':
                            a = a.value
                        m[pn] = a
                    else:
                        j = i - (len(params) - len(h.args.defaults))
                        if j < 0:
                            return st
                        m[pn] = h.args.defaults[j]
                body = [b for b in h.body if not (isinstance(b, ast.Expr) and isinstance(b.value, ast.Constant))]
                if not all(isinstance(b, (ast.Assign, ast.AugAssign, ast.AnnAssign, ast.Expr, ast.If)) for b in body):
                    return st
                local = util.assigned_names(ast.Module(body=body, type_ignores=[])) - set(params)
                if local:
                    return st       # the helper has locals of its own: not inlined
                return [Sub(m).visit(copy.deepcopy(b)) for b in body]
            return st
    g = copy.deepcopy(f)
    T().visit(g)
    ast.fix_missing_locations(g)
    return g


class _ElementView(ast.NodeTransformer):
    """A[idx] -> A for the local arrays of partition(): the body of the loop over one species class, seen for one species of that class"""

    def __init__(self, idx_names):
        self.idx = set(idx_names)

    def visit_Subscript(self, n):
        self.generic_visit(n)
        if isinstance(n.value, ast.Name) and ((isinstance(n.slice, ast.Name) and n.slice.id in self.idx) or src(n.slice).replace(' ', '') in self.idx):
            return ast.copy_location(ast.Name(id=n.value.id, ctx=n.ctx), n)
        return n


def partition_element_view(ctx, mod, cls, f, klass, mode=None):
    """What partition() does to ONE species of class `klass` (an index vector name, 'all', or 'duplicate' = in no index vector), by symbolic
    execution of the function with the loops over the other classes removed (they write other indices - checked) and the loop over this
    class entered once.  Returns (problems, [(d, e)] per non-raising outcome merged, binomial draws)."""
    import copy
    parent = f.args.args[1].arg
    problems = []
    body = []
    f = inline_module_helpers(f, ctx.prog.mod(mod).tree)
    for st in f.body:
        if not isinstance(st, ast.For):
            body.append(st)
            continue
        lc = _loop_class(st, f)
        if lc is None:
            raise AnalysisError('%s.partition: loop over %s not understood' % (cls, src(st.iter)))
        lv = src(st.target)
        idx_names = {lv} if (lc[0] == 'all' or len(lc) > 2) else {'self.%s[%s]' % (lc[1], lv)}
        inner = []
        for b in st.body:
            if lc[0] == 'class' and isinstance(b, ast.Assign) and len(b.targets) == 1 and isinstance(b.targets[0], ast.Name) and \
                    src(b.value).replace(' ', '') == 'self.%s[%s]' % (lc[1], lv):
                idx_names.add(b.targets[0].id)
                continue
            inner.append(b)
        # every store into a local array inside this loop goes to the index of this loop's own class
        for n in ast.walk(st):
            if isinstance(n, (ast.Assign, ast.AugAssign)):
                for t in (n.targets if isinstance(n, ast.Assign) else [n.target]):
                    if isinstance(t, ast.Subscript) and isinstance(t.value, ast.Name) and not (
                            (isinstance(t.slice, ast.Name) and t.slice.id in idx_names) or src(t.slice).replace(' ', '') in idx_names):
                        problems.append('the loop over %s stores into %s, not at the index of its own species' % (src(st.iter), src(t)))
        mine = (lc[0] == 'all') or (lc[1] == klass)
        if mine:
            ev = _ElementView(idx_names)
            for b in util.structure_continues(inner):       # `if c: ...; continue` skips the rest of this species only
                body.append(ev.visit(copy.deepcopy(b)))
    g = copy.copy(f)
    g.body = body
    M, V = symx.possym('m'), symx.possym('V')
    draws, states, vols = [], [], []

    def call(n, env, se):
        nm = src(n.func).replace(' ', '')
        if nm == '%s.get_state' % parent:
            return M
        if nm == '%s.get_volume' % parent:
            return V
        if isinstance(n.func, ast.Attribute) and n.func.attr == 'copy' and not n.args:
            return se.ex(n.func.value, env)
        if nm.split('.')[-1] == 'binom_rnd_f' and len(n.args) == 2:
            a, b = se.ex(n.args[0], env), se.ex(n.args[1], env)
            draws.append((a, b))
            return sp.Symbol('binomial#%d' % len(draws), nonnegative=True)
        for kw in n.keywords:
            if kw.arg == 'state':
                states.append(se.ex(kw.value, env))
            if kw.arg == 'v0':
                vols.append(se.ex(kw.value, env))
        return None

    def on_expr(s_, env, se):
        c = s_.value
        if isinstance(c, ast.Call) and isinstance(c.func, ast.Attribute) and c.func.attr in ('set_state', 'py_set_state') and len(c.args) == 1:
            states.append(se.ex(c.args[0], env))
        if isinstance(c, ast.Call) and isinstance(c.func, ast.Attribute) and c.func.attr in ('set_volume', 'py_set_volume') and len(c.args) == 1:
            vols.append(se.ex(c.args[0], env))
        return True
    se = symx.SymExec(ctx.prog, cls, call=call, fresh_calls=('uniform_rv',), max_inline=0)
    se.on_expr = on_expr
    env = {}
    if mode is not None:
        env['self.how_to_split_v'] = sp.Integer(mode)
    try:
        se.run_env(g, env)
    except symx.Unsupported as e:
        raise AnalysisError('%s.partition (species class %s): %s' % (cls, klass, e))
    if len(states) != 2:
        raise AnalysisError('%s.partition (species class %s): %d daughter states found, expected 2' % (cls, klass, len(states)))
    partition_element_view.last_volumes = (V, list(vols))
    return problems, M, states[0], states[1], draws


def check_partition_semantic(ctx, mod, cls, f):
    """R19.1-conservation decided on what partition() computes per species class (element view), not on how it is spelled."""
    classes = []
    for st in f.body:
        if isinstance(st, ast.For):
            lc = _loop_class(st, f)
            if lc is None:
                raise AnalysisError('%s.partition: loop over %s not understood' % (cls, src(st.iter)))
            k_ = 'all' if lc[0] == 'all' else lc[1]
            if k_ not in classes:
                classes.append(k_)
    if 'all' not in classes:
        classes.append('duplicate')
    problems = []
    n_cases = 0
    modes = [0, 1, 2] if cls == 'LineageVolumeSplitter' else [None]
    for klass in classes:
        if 'custom' in klass:
            continue        # user code decides (ASSUMPTIONS)
        for mode in modes:
            pr, M, d, e, draws = partition_element_view(ctx, mod, cls, f, klass, mode)
            n_cases += 1
            tag = '%s%s' % (klass, '' if mode is None else ' (volume mode %d)' % mode)
            problems += ['%s: %s' % (tag, x) for x in pr]
            zero = lambda x: sp.simplify(sp.piecewise_fold(x)) == 0
            if klass == 'duplicate':
                if not (zero(d - M) and zero(e - M)):
                    problems.append('%s: a duplicated species with mother count m ends as %s and %s in the daughters, expected m and m' % (tag, d, e))
                continue
            if not zero(d + e - M):
                problems.append('%s: daughters get %s and %s, which do not sum to the mother count m' % (tag, d, e))
            if 'binomial' in klass or klass == 'all':
                if len(draws) != 1:
                    problems.append('%s: %d binomial draws for one species' % (tag, len(draws)))
                elif not zero(draws[0][0] - M):
                    problems.append('%s: the binomial draw is over %s, not over the mother count' % (tag, draws[0][0]))
                elif not zero(d - sp.Symbol('binomial#1', nonnegative=True)):
                    problems.append('%s: the first daughter gets %s, not the binomial draw' % (tag, d))
                else:
                    V_, vols_ = partition_element_view.last_volumes
                    if len(vols_) == 2 and not zero(draws[0][1] - vols_[0] / V_) and not (zero(vols_[0] - V_) and zero(vols_[1] - V_)):
                        problems.append('%s: the binomial draw uses probability %s, the first daughter\'s volume fraction is %s' % (
                            tag, draws[0][1], sp.simplify(vols_[0] / V_)))
    return problems, n_cases


def check_volumes(ctx, mod, cls, f, p_var):
    where = ctx.loc(mod, f)
    parent = f.args.args[1].arg
    V = symx.possym('V')
    problems = []

    def call(n, env, se):
        if src(n.func) == '%s.get_volume' % parent:
            return V
        return None
    recorded = {}

    def on_expr(s, env, se):
        c = s.value
        if isinstance(c.func, ast.Attribute) and c.func.attr == 'set_volume' and len(c.args) == 1:
            recorded[src(c.func.value)] = se.ex(c.args[0], env)
        return True
    modes = [None]
    if cls == 'LineageVolumeSplitter':
        modes = [0, 1, 2]
    for mode in modes:
        se = symx.SymExec(ctx.prog, cls, call=call, fresh_calls=('uniform_rv',))
        se.on_expr = on_expr
        recorded.clear()
        env = {}
        if mode is not None:
            env['self.how_to_split_v'] = sp.Integer(mode)
        # only the volume part: statements before the first loop
        import copy
        g = copy.copy(f)
        first_loop = [i for i, s in enumerate(f.body) if isinstance(s, ast.For)][0]
        g.body = f.body[:first_loop]
        try:
            final, _ = se.run_env(g, env)
        except symx.Unsupported as e:
            raise AnalysisError('%s.partition volume part: %s' % (cls, e))
        if cls == 'LineageVolumeSplitter':
            vd, ve, p = final.get('v0d'), final.get('v0e'), final.get('p')
        else:
            names = list(recorded)
            if len(names) != 2:
                problems.append('daughter volumes set on %s' % names)
                continue
            vd, ve = recorded[names[0]], recorded[names[1]]
            p = final.get(p_var) if p_var in (final or {}) else (sp.nsimplify(float(p_var)) if p_var and p_var.replace('.', '').isdigit() else None)
        label = {None: 'default', 0: 'binomial', 1: 'duplicate', 2: 'perfect'}[mode]
        if vd is None or ve is None:
            problems.append('%s: daughter volumes not found' % label)
            continue
        if mode == 1:
            if sp.simplify(vd - V) != 0 or sp.simplify(ve - V) != 0:
                problems.append('duplicate: daughter volumes %s, %s (expected V, V)' % (vd, ve))
            continue
        if sp.simplify(vd + ve - V) != 0:
            problems.append('%s: daughter volumes %s + %s do not sum to the mother volume' % (label, vd, ve))
        if mode == 2 or cls == 'PerfectBinomialVolumeSplitter':
            if sp.simplify(vd - V / 2) != 0:
                problems.append('%s: first daughter volume %s, expected V/2' % (label, vd))
        if p is not None and sp.simplify(vd - V * p) != 0:
            problems.append('%s: binomial probability %s is not the first daughter volume fraction %s/V' % (label, p, vd))
        if p is None and cls != 'PerfectBinomialVolumeSplitter' and p_var is not None:
            problems.append('%s: probability variable not found' % label)
        # (no draw visible in partition() itself: the draw sits in a helper; R19.1-conservation compares its probability with the volume
        # fraction on the inlined form)
    ctx.ob('R19.1-volume', cls, not problems, where,
           'daughter volumes are V*p and V*(1-p) (V/2 twice if perfect, V twice if duplicated); p is the binomial probability',
           '; '.join(problems))


def check_classes(ctx):
    # GeneralVolumeSplitter.py_set_partitioning
    f = ctx.fn('simulator:GeneralVolumeSplitter.py_set_partitioning')
    kk = lambda t: t.replace(' ', '')
    problems = []
    body = [s_ for s_ in f.body if not (isinstance(s_, ast.Expr) and isinstance(s_.value, ast.Constant))]
    opts, mdl = f.args.args[1].arg, f.args.args[2].arg

    def reaching(lst, idx, name):
        """expression last assigned to `name` before position idx of the statement list"""
        for st in reversed(lst[:idx]):
            if isinstance(st, ast.Assign) and len(st.targets) == 1 and src(st.targets[0]) == name:
                return st.value
        return None
    # 1. every class is emptied unconditionally before anything is put into it
    first_push = min([i for i, st in enumerate(body) if any(isinstance(c, ast.Call) and src(c.func).endswith('_indices.push_back') for c in ast.walk(st))] or [len(body)])
    cleared = {kk(util.stmt_key(st)) for st in body[:first_push]}
    for v in ('binomial', 'perfect', 'duplicate'):
        if 'self.%s_indices.clear()' % v not in cleared:
            problems.append('%s_indices is not emptied unconditionally before the classes are rebuilt' % v)
    # 2. the pool of all species indices
    pools = [st for st in body if isinstance(st, ast.Assign) and kk(src(st.value)) in ('set(range(%s.get_number_of_species()))' % mdl,)]
    if len(pools) != 1:
        problems.append('the pool of all species indices set(range(number of species)) was not found')
    else:
        pool = src(pools[0].targets[0])
        # 3. listed species: pushed into their class and removed from the pool, together
        for mode in ('perfect', 'duplicate'):
            blocks = [st for st in body if isinstance(st, ast.If) and kk(util.canon_test(st.test)) == "'%s'in%s" % (mode, opts)]
            if len(blocks) != 1:
                problems.append("no block for the '%s' option" % mode)
                continue
            blk = blocks[0].body
            loops = [(i, st) for i, st in enumerate(blk) if isinstance(st, ast.For)]
            ok_loop = False
            for i, lp in loops:
                it = lp.iter
                if isinstance(it, ast.Name):
                    it = reaching(blk, i, it.id) or it
                if kk(src(it)) != "%s['%s']" % (opts, mode):
                    continue
                ok_loop = True
                for p in paths.Enumerator().run(lp.body, paths.State()):
                    calls = [kk(src(c)) for e in p.stmts() for c in ast.walk(e.node) if isinstance(c, ast.Call)]
                    pushed = [c for c in calls if c.startswith('self.') and '_indices.push_back(' in c]
                    dropped = [c for c in calls if c.startswith('%s.discard(' % pool) or c.startswith('%s.remove(' % pool)]
                    idx_ok = {kk(util.canon_test(e.node)): e.info for e in p.events if e.kind == 'test'}
                    valid = idx_ok.get('0<=index', idx_ok.get('index>=0'))
                    if valid is False:
                        if pushed or dropped:
                            problems.append("'%s': an unknown species is classified" % mode)
                        continue
                    if pushed != ['self.%s_indices.push_back(index)' % mode] or dropped not in (['%s.discard(index)' % pool], ['%s.remove(index)' % pool]):
                        problems.append("'%s': a listed species is put into %s and removed from the pool by %s" % (mode, pushed, dropped))
            if not ok_loop:
                problems.append("'%s': no loop over the species listed under that option" % mode)
        # 4. everything left in the pool is binomial
        tail = [(i, st) for i, st in enumerate(body) if isinstance(st, ast.For) and any(
            isinstance(c, ast.Call) and kk(src(c.func)) == 'self.binomial_indices.push_back' for c in ast.walk(st))]
        if len(tail) != 1:
            problems.append('%d loops fill the binomial class' % len(tail))
        else:
            i, lp = tail[0]
            it = lp.iter
            if isinstance(it, ast.Name) and it.id != pool:
                it = reaching(body, i, it.id) or it
            if kk(src(it)) not in (pool, 'list(%s)' % pool, 'sorted(%s)' % pool, 'tuple(%s)' % pool):
                problems.append('the binomial class is filled from %s, not from what is left of the pool' % src(it))
            if [kk(util.stmt_key(x)) for x in lp.body] != ['self.binomial_indices.push_back(%s)' % src(lp.target)]:
                problems.append('not every remaining index is put into the binomial class')
            if i < max([body.index(b_) for b_ in body if isinstance(b_, ast.If)] or [0]):
                problems.append('the binomial class is filled before the listed species are removed')
    ctx.ob('R19.1-index-classes', 'GeneralVolumeSplitter', not problems, ctx.loc('simulator', f),
           'every species index is in exactly one class: listed perfect/duplicate, all others binomial', '; '.join(problems))
    f = ctx.fn('lineage:LineageVolumeSplitter.__init__')
    loops = [s for s in f.body if isinstance(s, ast.For) and 'get_species2index' in src(s.iter)]
    problems = []
    if len(loops) != 1:
        problems.append('species loop not found')
    else:
        en = paths.Enumerator()
        ps = en.run(loops[0].body, paths.State())
        ctx.paths += len(ps)
        # the local that holds the default mode: the name assigned the mode literals in front of the loop (whatever it is called)
        cnt = {}
        for n in ast.walk(f):
            if isinstance(n, ast.Assign) and isinstance(n.targets[0], ast.Name) and isinstance(n.value, ast.Constant) \
                    and n.value.value in ('binomial', 'duplicate', 'perfect', 'custom'):
                cnt.setdefault(n.targets[0].id, set()).add(n.value.value)
        dvar = max(cnt, key=lambda k_: len(cnt[k_])) if cnt else 'default'
        default_vals = cnt.get(dvar, set())
        # the local that holds the species' index: M.get_species_index(<loop variable>)
        ivar = None
        for n in loops[0].body:
            if isinstance(n, ast.Assign) and isinstance(n.targets[0], ast.Name) and isinstance(n.value, ast.Call) and \
                    src(n.value.func).endswith('.get_species_index') and [src(a_) for a_ in n.value.args] == [src(loops[0].target)]:
                ivar = n.targets[0].id
        if ivar is None:
            problems.append('the index of the species of the loop is not taken with get_species_index(%s)' % src(loops[0].target))
        for p in ps:
            if p.exit == 'raise':
                continue
            ruled_out = {e.node.comparators[0].value for e in p.events if e.kind == 'test' and e.info is False
                         and isinstance(e.node, ast.Compare) and src(e.node.left) == dvar and isinstance(e.node.ops[0], ast.Eq)
                         and isinstance(e.node.comparators[0], ast.Constant)}
            if default_vals and ruled_out >= default_vals:
                continue    # infeasible: `default` only ever holds one of these literals
            n = sum(len(paths.stmt_calls(e.node, 'push_back')) for e in p.stmts())
            if n != 1:
                problems.append('a path puts a species into %d classes [%s]' % (n, paths.describe(p, 6)))
        for mode in ('binomial', 'duplicate', 'perfect'):
            for n in ast.walk(loops[0]):
                if isinstance(n, ast.If) and isinstance(n.test, ast.Compare) and isinstance(n.test.comparators[0], ast.Constant) \
                        and n.test.comparators[0].value == mode and isinstance(n.test.ops[0], ast.Eq):
                    b = [util.stmt_key(x) for x in n.body]
                    if b != ['self.%s_indices.push_back(%s)' % (mode, ivar)]:
                        problems.append("mode '%s' puts the species into %s" % (mode, b))
    ctx.ob('R19.1-index-classes', 'LineageVolumeSplitter', not problems, ctx.loc('lineage', f),
           'every species index is pushed into exactly one class, the one named by its option or the default', '; '.join(problems[:3]))


def check_binom(ctx):
    f = ctx.fn('random:binom_rnd_f')
    a = [x.arg for x in f.args.args]
    asg = simple_assigns(f)
    problems = []
    loops = [s for s in f.body if isinstance(s, ast.For)]
    if len(loops) != 1:
        # not the n-fold Bernoulli count.  Another exact algorithm cannot be decided here - with one exception that is wrong for every
        # implementation: a probability mass computed as a power whose exponent is the molecule count (the start value q**n of an
        # inversion sampler) underflows to 0 for counts beyond ~745/|log q|, and nothing in the function bounds the count
        counts = {a[0]} | {t_ for t_, vs_ in asg.items() if any(a[0] in {x_.id for x_ in ast.walk(v_) if isinstance(x_, ast.Name)} for v_ in vs_)}
        pows = [n_ for n_ in ast.walk(f) if (isinstance(n_, ast.BinOp) and isinstance(n_.op, ast.Pow) and isinstance(n_.right, ast.Name) and n_.right.id in counts)
                or (isinstance(n_, ast.Call) and src(n_.func).split('.')[-1] == 'pow' and len(n_.args) == 2 and isinstance(n_.args[1], ast.Name) and n_.args[1].id in counts)]
        bounded = any(isinstance(c_, ast.Compare) and isinstance(c_.left, ast.Name) and c_.left.id in counts and
                      any(util.const_num(x_) is not None and util.const_num(x_) > 1 for x_ in c_.comparators) for c_ in ast.walk(f))
        if pows and not bounded:
            ctx.ob('R19.2-binomial', 'binom_rnd_f', False, ctx.loc('random', pows[0]),
                   'binom_rnd_f(N, p) is a Binomial(round(N), p) draw for every count N',
                   '`%s`: a probability computed as a power of the molecule count underflows to 0 for large counts (no bound on the count in the '
                   'function): the draw degenerates - all molecules go to one daughter' % src(pows[0]))
            return
        raise AnalysisError('binom_rnd_f: draw loop not found')
    lp = loops[0]
    bound = src(lp.iter).replace(' ', '')[len('range('):-1]
    bv = asg.get(bound, [None])[-1]
    if bv is None or src(bv).replace(' ', '') not in ('int(%s+0.5)' % a[0], 'int(0.5+%s)' % a[0], 'int(round(%s))' % a[0]):
        problems.append('number of draws is %s = %s, expected the count rounded to nearest' % (bound, src(bv) if bv is not None else None))
    body = lp.body
    ok = len(body) == 1 and isinstance(body[0], ast.If) and not body[0].orelse and \
        src(body[0].test).replace(' ', '') in ('uniform_rv()<%s' % a[1], 'uniform_rv()<=%s' % a[1], '%s>uniform_rv()' % a[1]) and \
        len(body[0].body) == 1 and isinstance(body[0].body[0], ast.AugAssign) and util.const_num(body[0].body[0].value) == 1 \
        and isinstance(body[0].body[0].op, ast.Add)
    if not ok:
        problems.append('loop body is not `if uniform_rv() < p: answer += 1`')
    else:
        acc = src(body[0].body[0].target)
        init = asg.get(acc, [None])[-1]
        if init is None or util.const_num(init) != 0:
            problems.append('counter does not start at 0')
        rets = [s for s in f.body if isinstance(s, ast.Return)]
        if len(rets) != 1 or src(rets[0].value) != acc:
            problems.append('does not return the counter')
    ctx.ob('R19.2-binomial', 'binom_rnd_f', not problems, ctx.loc('random', f),
           'binom_rnd_f(N, p) counts uniform_rv() < p over round(N) independent draws', '; '.join(problems))


def check_daughters(ctx, fpart):
    # LineageVolumeSplitter daughters
    calls = [c for c in ast.walk(fpart) if isinstance(c, ast.Call) and src(c.func) == 'LineageVolumeCellState']
    parent = fpart.args.args[1].arg
    got = []
    for c in calls:
        kw = {k.arg: src(k.value).replace(' ', '') for k in c.keywords}
        got.append((kw.get('v0'), kw.get('t0'), kw.get('state')))
    want = {('v0d', '%s.get_time()' % parent, 'dstate'), ('v0e', '%s.get_time()' % parent, 'estate')}
    want2 = {('v0d', 't0', 'dstate'), ('v0e', 't0', 'estate')}
    ok = set(got) in (want, want2)
    rets = [s for s in fpart.body if isinstance(s, ast.Return)]
    ctx.ob('R19.3-daughters', 'LineageVolumeSplitter.partition', ok, ctx.loc('lineage', fpart),
           'both daughters are created at the mother time with their own partitioned volume and state', str(got))
    for mod, cls in SPLITTERS[:2]:
        f = ctx.fn('%s:%s.partition' % (mod, cls))
        p = f.args.args[1].arg
        txt = [util.stmt_key(s).replace(' ', '') for s in f.body]
        ok = 'd.set_time(%s.get_time())' % p in txt and 'e.set_time(%s.get_time())' % p in txt and 'd.set_state(dstate)' in txt \
            and 'e.set_state(estate)' in txt and 'ans[0]=d' in txt and 'ans[1]=e' in txt
        ctx.ob('R19.3-daughters', '%s.partition' % cls, ok, ctx.loc(mod, f),
               'both daughters get the mother time and their own partitioned state and are both returned', '')
    f = ctx.fn('lineage:LineageSSASimulator.simulate_daughter_cells')
    en = paths.Enumerator()
    ps = en.run(f.body, paths.State())
    ctx.paths += len(ps)
    problems = []
    for p in ps:
        txt = [util.stmt_key(e.node).replace(' ', '') for e in p.stmts()]
        dec = {util.canon_test(e.node).replace(' ', ''): e.info for e in p.events if e.kind == 'test'}
        if dec.get('(add_to_lineageorcreate_schnitzes)') is False:
            continue
        need = ['self.daughter_schnitz1.set_parent(self.s)', 'self.daughter_schnitz2.set_parent(self.s)',
                'self.s.set_daughters(self.daughter_schnitz1,self.daughter_schnitz2)']
        miss = [n for n in need if n not in txt]
        if miss:
            problems.append('links not set: %s' % miss)
        if dec.get('add_to_lineage') and (txt.count('self.lineage.add_schnitz(self.daughter_schnitz1)') != 1 or
                                          txt.count('self.lineage.add_schnitz(self.daughter_schnitz2)') != 1):
            problems.append('daughters are not added to the lineage exactly once')
        if 'self.daughter_schnitz1=self.r.get_schnitz()' not in txt or 'self.daughter_schnitz2=self.r.get_schnitz()' not in txt:
            problems.append('daughter schnitzes are not taken from their own simulation results')
        else:
            i1 = txt.index('self.r=self.SimulateSingleCell(self.d1,timepoints,mode)') if 'self.r=self.SimulateSingleCell(self.d1,timepoints,mode)' in txt else -1
            i2 = txt.index('self.r=self.SimulateSingleCell(self.d2,timepoints,mode)') if 'self.r=self.SimulateSingleCell(self.d2,timepoints,mode)' in txt else -1
            s1, s2 = txt.index('self.daughter_schnitz1=self.r.get_schnitz()'), txt.index('self.daughter_schnitz2=self.r.get_schnitz()')
            if not (0 <= i1 < s1 < i2 < s2):
                problems.append('daughter results and schnitzes are mixed up')
    ctx.ob('R19.3-links', 'simulate_daughter_cells', not problems, ctx.loc('lineage', f),
           'each daughter schnitz comes from its own simulation, both get the mother as parent, the mother gets both as daughters, each is added once',
           '; '.join(sorted(set(problems))[:3]))
    f = ctx.fn('lineage:LineageSSASimulator.SimulateCellLineage')
    txt = [util.stmt_key(s).replace(' ', '') for s in ast.walk(f) if isinstance(s, ast.stmt)]
    need = ['daughter_cells=self.interface.partition(self.cs.get_divided(),self.cs)', "self.d1=__cast__('LineageVolumeCellState',daughter_cells[0])",
            "self.d2=__cast__('LineageVolumeCellState',daughter_cells[1])", 'self.s=self.old_schnitzes[list_index]', 'self.cs=self.old_cell_states[list_index]',
            'self.c_truncated_timepoints=self.truncate_timepoints_less_than(timepoints,self.cs.get_time())']
    miss = [n for n in need if n not in txt]
    ctx.ob('R19.3-links', 'SimulateCellLineage', not miss, ctx.loc('lineage', f),
           "daughters come from partitioning the mother's final state, the mother's schnitz is the parent, daughters start at the mother's last time", str(miss))


def check_splitter_choice(ctx):
    f = ctx.fn('lineage:LineageCSimInterface.partition')
    a = [x.arg for x in f.args.args[1:]]
    ind, parent = a
    R, E = 2, 2
    problems = []
    for v in (-1, 0, 1, 2, 3, 4):
        st = paths.State()
        st.set(ind, v)
        st.set('self.num_division_rules', R)
        st.set('self.num_division_events', E)
        en = paths.Enumerator()
        ps = en.run(f.body, st)
        if len(ps) != 1:
            problems.append('index %d: %d feasible paths' % (v, len(ps)))
            continue
        p = ps[0]
        valid = 0 <= v < R + E
        if not valid:
            if p.exit != 'raise':
                problems.append('invalid index %d does not raise' % v)
            continue
        if p.exit != 'return':
            problems.append('valid index %d ends with %s' % (v, p.exit))
            continue
        choose = [e.node for e in p.stmts() if isinstance(e.node, ast.Assign) and src(e.node.targets[0]) == 'vsplit']
        ret = p.events[-1].node
        if len(choose) != 1 or src(ret.value).replace(' ', '') != 'vsplit.partition(%s)' % parent:
            problems.append('index %d: splitter not chosen once / not used to partition the mother' % v)
            continue
        sub = choose[0].value
        lst = src(sub.value)
        k_ = p.state.env.get(src(sub.slice), None) if isinstance(sub.slice, ast.Name) else None
        want = ('self.division_rule_volume_splitters', v) if v < R else ('self.division_event_volume_splitters', v - R)
        if (lst, k_) != want:
            problems.append('division index %d uses %s[%s], expected %s[%d]' % (v, lst, k_, want[0], want[1]))
    ctx.ob('R19.3-splitter-choice', 'LineageCSimInterface.partition', not problems, ctx.loc('lineage', f),
           'division index i < #rules uses rule splitter i, otherwise event splitter i - #rules; anything else raises', '; '.join(problems))
    sl = simloop.SimLoop(ctx, 'Lineage')
    txt = [util.stmt_key(s).replace(' ', '') for s in ast.walk(sl.loop) if isinstance(s, ast.stmt)]
    ok = 'cell_divided=reaction_choice-self.num_reactions-self.num_volume_events+self.num_division_rules' in txt and \
        'cell_dead=reaction_choice-self.num_reactions-self.num_volume_events-self.num_division_events+self.num_death_rules' in txt
    ctx.ob('R19.3-splitter-choice', 'event-index-encoding', ok, sl.where,
           'a division (death) event j is reported as index #division rules + j (#death rules + j), matching the splitter choice', '')
    f = ctx.fn('lineage:LineageCSimInterface.apply_division_rules')
    loops = [s for s in f.body if isinstance(s, ast.For)]
    ok = len(loops) == 1 and src(loops[0].iter).replace(' ', '') == 'range(self.num_division_rules)'
    if ok:
        lv = src(loops[0].target)
        fired = [n for n in ast.walk(loops[0]) if isinstance(n, ast.If)]
        seen = set()
        for p in paths.Enumerator().run(f.body, paths.State()):
            if p.exit != 'return':
                ok = False
                continue
            val, at = p.events[-1].node.value, len(p.events) - 1
            for _ in range(4):      # follow plain names back along the path
                if not isinstance(val, ast.Name) or val.id == lv:
                    break
                prev = None
                for k_, e in enumerate(p.events[:at]):
                    if e.kind == 'stmt' and isinstance(e.node, ast.Assign) and src(e.node.targets[0]) == val.id:
                        prev = (e.node.value, k_)
                if prev is None:
                    break
                val, at = prev
            hit = any(e.kind == 'test' and e.info and e.node in [x.test for x in fired] for e in p.events)
            if hit:
                seen.add('fired')
                ok = ok and isinstance(val, ast.Name) and val.id == lv
            else:
                seen.add('none')
                ok = ok and util.const_num(val) == -1
        ok = ok and seen == {'fired', 'none'}
    ctx.ob('R19.3-splitter-choice', 'apply_division_rules', ok, ctx.loc('lineage', f), 'a division rule reports its own index; no rule firing reports -1', '')


def check_loop(ctx):
    sl = simloop.SimLoop(ctx, 'Lineage')
    en = paths.Enumerator(assume_nonneg=('Lambda',), snapshot=True, for_nonempty=('range(self.num_species)',))
    pths = en.run(sl.loop.body, paths.State(), depth=1)
    ctx.paths += len(pths)
    v4, v5, vb, vi = [], [], [], []
    fired = 0
    for p in pths:
        for i, e in enumerate(p.events):
            if e.kind != 'stmt':
                continue
            if paths.stmt_calls(e.node, 'sample_discrete'):
                fired += 1
                if '=' in simloop.lambda_rel(e):
                    v4.append((p, 'an event is sampled at %s' % sl.loc(e.node)))
            if paths.stmt_calls(e.node, 'exponential_rv') and '=' in simloop.lambda_rel(e):
                v4.append((p, 'a waiting time is drawn'))
            if isinstance(e.node, ast.Assign) and src(e.node.targets[0]) == 'current_time' and simloop.lambda_rel(e) == frozenset('='):
                tgt = src(e.node.value)
                if tgt == 'final_time':
                    rs = en.relset(ast.Name(id='next_queue_time', ctx=ast.Load()), ast.Name(id='final_time', ctx=ast.Load()), e.state)
                    if '<' in rs:
                        vi.append((p, 'with Lambda == 0 time jumps to final_time although an earlier queued time may be pending'))
                elif tgt != 'next_queue_time':
                    vi.append((p, 'with Lambda == 0 time is set to %s' % tgt))
            if isinstance(e.node, ast.Assign) and src(e.node.targets[0]) == 'current_volume':
                nxt = [x for x in p.events[i + 1:i + 2]]
                ok = nxt and nxt[0].kind == 'test' and src(nxt[0].node).replace(' ', '') == 'current_volume<=0'
                if not ok:
                    v5.append((p, 'volume changed at %s without the non-positive test right after' % sl.loc(e.node)))
                else:
                    if nxt[0].info and p.exit != 'raise':
                        v5.append((p, 'a non-positive volume does not raise'))
        if p.exit == 'break':
            # the last decisive facts: cell_dead >= 0 / cell_divided >= 0 tested true, or assigned an index just before
            last = [e for e in p.events if e.kind in ('stmt', 'test')][-2:]
            ok = False
            for e in last:
                t = src(e.node).replace(' ', '')
                if e.kind == 'test' and e.info and ('cell_dead>=0' in t or 'cell_divided>=0' in t):
                    ok = True
                if e.kind == 'stmt' and isinstance(e.node, ast.Assign) and src(e.node.targets[0]) in ('cell_dead', 'cell_divided'):
                    ok = True
            if not ok:
                vb.append((p, 'the loop is left without a division/death index'))

    def fmt(lst):
        return '; '.join('%s on path [%s]' % (m, paths.describe(p, 8)) for p, m in lst[:2])
    ctx.ob('R19.4-no-phantom-event', 'SimulateSingleCell', not v4 and fired > 0, sl.where,
           'no path of the lineage loop samples an event or a waiting time while Lambda == 0 may hold', fmt(v4) or '%d paths' % len(pths))
    ctx.ob('R19.4-idle-step', 'SimulateSingleCell', not vi, sl.where,
           'a cell that cannot react only moves to the next queued time, or to the final time when no queued time precedes it', fmt(vi))
    ctx.ob('R19.4-exits', 'SimulateSingleCell', not vb, sl.where,
           'every early exit of the loop carries a division or death index', fmt(vb))
    ctx.ob('R19.5-positive-volume', 'SimulateSingleCell/loop', not v5, sl.where,
           'every volume change is followed at once by the non-positive test, which raises', fmt(v5))
    pre = [s for s in sl.pre if isinstance(s, ast.If) and src(s.test).replace(' ', '') == 'current_volume<=0']
    ok = len(pre) == 1 and any(isinstance(x, ast.Raise) for x in pre[0].body)
    ctx.ob('R19.5-positive-volume', 'SimulateSingleCell/entry', ok, sl.where, 'a non-positive initial volume is rejected', '')
    # recording and sampling arguments
    smp = util.calls_in(sl.loop, suffix='sample_discrete')
    ok = len(smp) == 1 and [src(a).replace(' ', '') for a in smp[0].args] == ['self.num_propensities', '__addr__(self.c_propensity[0])', 'Lambda']
    lam = [n for n in ast.walk(sl.loop) if isinstance(n, ast.Assign) and src(n.targets[0]) == 'Lambda']
    ok = ok and len(lam) == 1 and src(lam[0].value).replace(' ', '') == 'cyrandom.array_sum(__addr__(self.c_propensity[0]),self.num_propensities)'
    ctx.ob('R19.4-sampling-args', 'SimulateSingleCell', ok, sl.where,
           'events are sampled from the propensity buffer whose sum is Lambda, over all propensities', '')


def check_fresh_buffers(ctx):
    """The arrays a cell's result is built from (np.asarray: no copy) belong to that cell alone: the helper SimulateSingleCell calls first
    allocates fresh result and volume arrays on every path - a kept buffer is still the record of the previous cell."""
    f = ctx.fn('lineage:LineageSSASimulator.initialize_single_cell_results_arrays')
    ps = paths.Enumerator().run(f.body, paths.State())
    ctx.paths += len(ps)
    defs = util.single_defs(f)
    problems = []
    for p in ps:
        if p.exit == 'raise':
            continue
        got = {}
        for e in p.stmts():
            if isinstance(e.node, ast.Assign) and src(e.node.targets[0]) in ('self.c_results', 'self.c_volume_trace'):
                v = util.resolve_alias(e.node.value, defs)
                got[src(e.node.targets[0])] = src(v).replace(' ', '')
        for attr in ('self.c_results', 'self.c_volume_trace'):
            if not got.get(attr, '').startswith(('np.zeros(', 'np.empty(', 'numpy.zeros(')):
                problems.append('a path leaves %s as it was (%s) [%s]' % (attr, got.get(attr, 'not assigned'), paths.describe(p, 4)))
    g = ctx.fn('lineage:LineageSSASimulator.SimulateSingleCell')
    calls = [c for c in ast.walk(g) if isinstance(c, ast.Call) and src(c.func) == 'self.initialize_single_cell_results_arrays']
    if not calls:
        problems.append('SimulateSingleCell does not allocate its result arrays')
    ctx.ob('R19.4-rows-written', 'fresh-buffers', not problems, ctx.loc('lineage', f),
           'every cell is recorded in result and volume arrays allocated for it (no buffer is kept from the previous cell)', '; '.join(sorted(set(problems))[:2]))


def check_grid_steps(ctx):
    """Every row was actually simulated: one pass of the lineage loop never carries the clock past a grid step that is still pending
    (volume rules, division and death rules run once per grid step, also while reactions are rare).  The time-advance block of the loop
    - from the total propensity to the recording loop - is evaluated (templates.StrExec) on a table of clock / next grid step / final
    time / total propensity / sampled waiting time values, and the new clock is compared with what an event race allows."""
    from ..templates import StrExec, UNKNOWN
    sl = simloop.SimLoop(ctx, 'Lineage')
    body = sl.loop.body
    i_lam = [i for i, st in enumerate(body) if isinstance(st, ast.Assign) and src(st.targets[0]) == 'Lambda']
    i_rec = [i for i, st in enumerate(body) if isinstance(st, ast.While)]
    if len(i_lam) != 1 or not i_rec or i_rec[0] < i_lam[0]:
        raise AnalysisError('SimulateSingleCell: time-advance block not found')
    block = body[i_lam[0] + 1:i_rec[0]]
    problems = []
    n = 0
    T, d = 10.0, 1.0
    for c in (0.0, 3.5, 8.2, 9.3):
        for q in (c + 0.25, c + 1.0):
            for L in (0.0, 2.0):
                for E in ((0.01, 0.4, 3.0, 50.0) if L > 0 else (None,)):
                    def hook(nd, ex):
                        if src(nd.func).split('.')[-1] == 'exponential_rv':
                            return E
                        return None
                    env = {'current_time': c, 'next_queue_time': q, 'final_time': T, 'delta_t': d, 'Lambda': L, 'proposed_time': 0.0,
                           'rule_step': 0, 'move_to_queued_time': 0}
                    ex = StrExec(env, tracked=set(), call_hook=hook)
                    ex.run(block)
                    n += 1
                    new, mv = ex.env.get('current_time'), ex.env.get('move_to_queued_time')
                    tag = 'clock %s, next grid step %s, final time %s, Lambda %s%s' % (c, q, T, L, '' if E is None else ', waiting time %s' % E)
                    if ex.aborted or not isinstance(new, float) or mv not in (0, 1):
                        raise AnalysisError('SimulateSingleCell: time-advance block not evaluated for %s (%s, %r)' % (tag, ex.aborted, new))
                    if new < c:
                        problems.append('%s: the clock goes back to %s' % (tag, new))
                    elif q < T - 1e-6 and new > q + 1e-9:
                        problems.append('%s: the clock jumps to %s, past the pending grid step' % (tag, new))
                    elif new > T + 1e-9:
                        problems.append('%s: the clock passes the final time (%s)' % (tag, new))
                    elif mv == 0 and (L == 0 or abs(new - (c + E)) > 1e-9):
                        problems.append('%s: an event is to be fired at %s, not at the sampled event time' % (tag, new))
                    elif mv == 1 and L > 0 and c + E < min(q, T) - 1e-6:
                        problems.append('%s: the sampled event at %s is dropped' % (tag, c + E))
    ctx.ob('R19.4-grid-steps', 'SimulateSingleCell', not problems, sl.where,
           'one pass of the loop moves the clock to the sampled event, or to the next pending grid step / the final time - never past a grid '
           'step on which the volume, division and death rules have not run (%d value combinations evaluated)' % n, '; '.join(problems[:2]))


def check_parallel_queues(ctx):
    """old_cell_states and old_schnitzes are walked as parallel lists by SimulateCellLineage (cell state i belongs to schnitz i):
    wherever schnitzes are created, both lists must grow by the same cells in the same order on every path."""
    for fname, scope in (('simulate_cell_list', 'loop'), ('simulate_daughter_cells', 'body')):
        f = ctx.fn('lineage:LineageSSASimulator.%s' % fname)
        body = f.body
        if scope == 'loop':
            loops = [s_ for s_ in f.body if isinstance(s_, ast.For)]
            if len(loops) != 1:
                raise AnalysisError('%s: cell loop not found' % fname)
            body = loops[0].body
        problems = []
        n_paths = 0
        for atl in (0, 1):
            st = paths.State()
            st.set('create_schnitzes', 1)
            st.set('add_to_lineage', atl)
            ps = paths.Enumerator().run(body, st)
            ctx.paths += len(ps)
            for p in ps:
                if p.exit == 'raise':
                    continue
                n_paths += 1
                seq = []
                latest = {}
                for e in p.stmts():
                    n = e.node
                    if isinstance(n, ast.Assign) and len(n.targets) == 1:
                        latest[src(n.targets[0])] = src(n.value).replace(' ', '')
                    for c in paths.stmt_calls(n, 'append'):
                        lst = src(c.func.value)
                        if lst in ('self.old_cell_states', 'self.old_schnitzes') and c.args:
                            a = src(c.args[0])
                            seq.append((lst, a, latest.get(a, a)))
                cs = [x for x in seq if x[0] == 'self.old_cell_states']
                sz = [x for x in seq if x[0] == 'self.old_schnitzes']
                if len(cs) != len(sz):
                    problems.append('add_to_lineage=%d: %d cell states but %d schnitzes are queued on path [%s]' % (atl, len(cs), len(sz), paths.describe(p, 6)))
                    continue
                # same cells, same order: the k-th queued state and the k-th queued schnitz come from the same simulation result
                def tag(x):
                    import re as _re
                    d = _re.findall(r'\d', x[1])
                    return d[-1] if d else x[2]
                if [tag(x) for x in cs] != [tag(x) for x in sz] and scope == 'body':
                    problems.append('add_to_lineage=%d: states %s and schnitzes %s are queued in different orders' % (atl, [x[1] for x in cs], [x[1] for x in sz]))
        if n_paths == 0:
            raise AnalysisError('%s: no path enumerated' % fname)
        ctx.ob('R19.3-queues-parallel', fname, not problems, ctx.loc('lineage', f),
               'whenever schnitzes are created, every path queues a cell state and its schnitz together (the two lists stay index-aligned)',
               '; '.join(sorted(set(problems))[:2]))
    f = ctx.fn('lineage:LineageSSASimulator.SimulateCellLineage')
    txt = [util.stmt_key(s_).replace(' ', '') for s_ in ast.walk(f) if isinstance(s_, ast.stmt)]
    ok = 'self.s=self.old_schnitzes[list_index]' in txt and 'self.cs=self.old_cell_states[list_index]' in txt
    ctx.ob('R19.3-queues-parallel', 'SimulateCellLineage', ok, ctx.loc('lineage', f),
           'the mother schnitz and the mother state are taken from the same queue position', '')


OWN_SOURCES = ('v.py_get_state().copy()', 'self.interface.get_initial_state().copy()')


def check_own_state(ctx):
    f = ctx.fn('lineage:LineageSSASimulator.SimulateSingleCell')
    cell = f.args.args[1].arg
    reads, _ = paths.definite_assignment(f.body, set(), {'self.c_current_state'})
    problems = ['self.c_current_state is read at %s before it is loaded from the cell' % ctx.loc('lineage', n) for _, n in reads]
    loads = [n for n in ast.walk(f) if isinstance(n, ast.Assign) and any(src(t) == 'self.c_current_state' for t in n.targets)]
    if not loads:
        raise AnalysisError('SimulateSingleCell: the state loading assignment was not found')
    want = tuple(x.replace('v.', cell + '.') for x in OWN_SOURCES)
    for n in loads:
        if src(n.value).replace(' ', '') not in want:
            problems.append('state buffer loaded from `%s` (%s)' % (src(n.value), ctx.loc('lineage', n)))
    ctx.ob('R19.6-own-state', 'SimulateSingleCell', not problems, ctx.loc('lineage', f),
           "the state buffer is loaded from the simulated cell's own state (or the model's initial state) before any read of it on every path",
           '; '.join(problems[:3]))


def check_volume_option_codes(ctx):
    """The lineage splitter stores how the volume is split as a code; partition() decodes 0 = binomial, 1 = duplicate, 2 = perfect
    (each code's volume formulas are decided by R19.1-volume).  The constructor, partially evaluated on sample options, must store the
    code of the mode that was asked for."""
    from ..templates import StrExec, Hole, UNKNOWN
    f = ctx.fn('lineage:LineageVolumeSplitter.__init__')
    want = {'binomial': 0, 'duplicate': 1, 'perfect': 2}
    pn = [a.arg for a in f.args.args[1:]]
    problems = []
    decided = 0
    for key in ('volume', 'default'):
        for mode, code in want.items():
            env = {pn[1]: {key: mode}, pn[2]: {}, pn[0]: Hole('MODEL')}
            if len(pn) > 3:
                env[pn[3]] = 0.5
            ex = StrExec(env, tracked={'self.how_to_split_v'}, frozen=set(env))
            try:
                ex.run(f.body)
            except AnalysisError as e:
                raise AnalysisError('LineageVolumeSplitter.__init__ with options {%r: %r}: %s' % (key, mode, e))
            got = ex.env.get('self.how_to_split_v', UNKNOWN)
            if ex.aborted:
                if key == 'volume':
                    problems.append('options {%r: %r} are rejected (%s)' % (key, mode, ex.aborted))
                continue        # (a default without an explicit volume entry may be refused; it must not be given another mode)
            if got is UNKNOWN:
                raise AnalysisError('LineageVolumeSplitter.__init__: the volume code for options {%r: %r} could not be evaluated' % (key, mode))
            decided += 1
            if got != code:
                label = {v: k_ for k_, v in want.items()}.get(got, 'code %r' % (got,))
                problems.append("options {%r: %r} store the volume code %r, which partition() reads as '%s'" % (key, mode, got, label))
    ctx.ob('R19.1-volume', 'LineageVolumeSplitter/option-codes', not problems and decided >= 3, ctx.loc('lineage', f),
           "the constructor stores, for the volume mode asked for (by 'volume' or by 'default'), the code partition() decodes as that mode",
           '; '.join(problems))


def check_rows_written(ctx):
    """"every reported row ... was actually simulated": rows 0..current_index-1 of the result arrays are the ones the loop has written.
    After the loop the arrays are cut to what is reported; a cut that keeps row `current_index` is only right on a path that has just
    written that row (a cell that dies / divides at its first instant has written none)."""
    sl = simloop.SimLoop(ctx, 'Lineage')
    f = sl.f
    body = f.body
    top = sl.loop
    while getattr(top, '_parent', None) is not f:
        top = top._parent
    post = body[body.index(top) + 1:]
    ps = paths.Enumerator(limit=4000, for_nonempty=('range(self.num_species)',)).run(post, paths.State())
    ctx.paths += len(ps)
    defs = {n_: v_ for n_, v_ in util.single_defs(f).items() if v_ is not None}
    arrays = ('self.c_results', 'self.c_volume_trace')
    bad = []
    n_cuts = 0
    for p in ps:
        if p.exit == 'raise':
            continue
        row_written = set()
        for e in p.stmts():
            n = e.node
            if isinstance(n, ast.Assign) and isinstance(n.targets[0], ast.Subscript) and src(n.targets[0].value) in arrays:
                idx = n.targets[0].slice
                first = idx.elts[0] if isinstance(idx, ast.Tuple) else idx
                if src(first) == 'current_index':
                    row_written.add(src(n.targets[0].value))
            if isinstance(n, ast.AugAssign) and src(n.target) == 'current_index':
                row_written = set()
            if isinstance(n, ast.Assign) and src(n.targets[0]) in arrays and isinstance(n.value, ast.Subscript) and src(n.value.value) == src(n.targets[0]):
                sli = n.value.slice
                first = sli.elts[0] if isinstance(sli, ast.Tuple) else sli
                if not (isinstance(first, ast.Slice) and first.lower is None and first.upper is not None):
                    raise AnalysisError('SimulateSingleCell: cut of %s not understood: %s' % (src(n.targets[0]), src(n.value)))
                n_cuts += 1
                upn = util.inline(first.upper, defs)
                up = src(upn).replace(' ', '')
                if up == 'current_index' or (isinstance(upn, ast.Call) and src(upn.func) == 'min' and any(src(a_) == 'current_index' for a_ in upn.args)):
                    continue
                if up in ('current_index+1', '1+current_index'):
                    if src(n.targets[0]) not in row_written:
                        bad.append('%s is cut to %s rows although row current_index was not written on the path [%s]' % (src(n.targets[0]), up, paths.describe(p, 4)))
                    continue
                raise AnalysisError('SimulateSingleCell: cut of %s to %s rows not understood' % (src(n.targets[0]), up))
    ctx.ob('R19.4-rows-written', 'SimulateSingleCell', not bad and n_cuts > 0, sl.where,
           'after the loop the result arrays keep only rows the loop has written (a cut that keeps row current_index follows a store into that row)',
           '; '.join(sorted(set(bad))[:2]))


def check_grid_cut(ctx):
    """"every daughter starts at its mother's division time": the daughters' time grid is the mother's grid from the first point that is
    not before the division time.  The helper that cuts the grid must find that point by looking at the grid values themselves, in
    increasing index order (a first-hit scan) - the grid need not be evenly spaced."""
    f = ctx.fn('lineage:LineageSSASimulator.truncate_timepoints_less_than')
    where = ctx.loc('lineage', f)
    arr, val = f.args.args[1].arg, f.args.args[2].arg
    defs = {n_: v_ for n_, v_ in util.single_defs(f).items() if v_ is not None}
    problems = []
    hits = 0

    def full_range(it):
        if not (isinstance(it, ast.Call) and src(it.func) == 'range' and len(it.args) == 1):
            return False
        b = util.inline(it.args[0], defs)
        return src(b).replace(' ', '') in ('%s.shape[0]' % arr, 'len(%s)' % arr, '%s.size' % arr)
    for r in [n for n in ast.walk(f) if isinstance(n, ast.Return)]:
        v = r.value
        g = {x.replace(' ', '') for x in util.guards_of(r, f)}
        if isinstance(v, ast.Name) and v.id == arr:
            if not ({'%s<=%s[0]' % (val, arr)} & g):
                problems.append('the whole grid is returned under %s' % sorted(g))
            continue
        if not (isinstance(v, ast.Subscript) and src(v.value) == arr and isinstance(v.slice, ast.Slice) and v.slice.step is None):
            problems.append('returns %s' % src(v))
            continue
        lo, hi = v.slice.lower, v.slice.upper
        if lo is None and hi is not None and util.const_num(hi) == 0:
            continue        # empty grid: nothing at or after the value
        if hi is None and lo is not None and src(util.inline(lo, defs)).replace(' ', '') in ('%s.shape[0]' % arr, 'len(%s)' % arr):
            continue
        if hi is None and isinstance(lo, ast.Name):
            j = lo.id
            loop = r
            while loop is not f and not (isinstance(loop, ast.For) and isinstance(loop.target, ast.Name) and loop.target.id == j):
                loop = loop._parent
            if loop is f or not full_range(loop.iter):
                problems.append('`%s` starts at an index that is not found by scanning the grid from its first point' % src(v))
                continue
            if '%s<=%s[%s]' % (val, arr, j) not in g:
                problems.append('`%s` is returned under %s, not at the first point with %s[%s] >= %s' % (src(v), sorted(g), arr, j, val))
                continue
            if any(isinstance(x, (ast.Continue, ast.Break)) for x in ast.walk(loop)) or \
                    any(isinstance(x, (ast.Assign, ast.AugAssign)) and any(isinstance(t, ast.Name) and t.id == j for t in (x.targets if isinstance(x, ast.Assign) else [x.target]))
                        for x in ast.walk(loop)):
                problems.append('the scan over the grid skips points')
                continue
            hits += 1
            continue
        problems.append('returns %s' % src(v))
    if not hits and not problems:
        problems.append('no scan of the grid found')
    ctx.ob('R19.3-grid-cut', 'truncate_timepoints_less_than', not problems, where,
           "the daughters' grid starts at the first grid point that is not before the division time, found from the grid values (any spacing)",
           '; '.join(problems))


def check(ctx):
    prog = ctx.prog
    for m in ('types', 'types.pxd', 'simulator', 'simulator.pxd', 'lineage', 'lineage.pxd', 'random'):
        prog.mod(m)
    check_grid_cut(ctx)
    check_rows_written(ctx)
    check_volume_option_codes(ctx)
    fl = None
    for mod, cls in SPLITTERS:
        f, copies, p_var = check_partition(ctx, mod, cls)
        check_volumes(ctx, mod, cls, f, p_var)
        if cls == 'LineageVolumeSplitter':
            fl = f
    check_classes(ctx)
    check_binom(ctx)
    check_daughters(ctx, fl)
    check_splitter_choice(ctx)
    check_loop(ctx)
    check_grid_steps(ctx)
    check_fresh_buffers(ctx)
    check_own_state(ctx)
    check_parallel_queues(ctx)
    # the splitter used at a division is the one registered with the rule / event that fired: the per-rule and per-event splitter lists
    # of the LineageModel are rebuilt (cleared, then filled once) on every initialisation, so an index means the same rule in both
    # (C08 R8.3-rebuild) - re-emitted here
    from ..core import SubCtx
    from . import c08
    sub = SubCtx(ctx)
    c08.check_rebuild(sub)
    for rule, key, ok, where, what, detail in sub.got:
        if rule == 'R8.3-rebuild' and key.startswith('LineageModel/'):
            ctx.ob('R19.3-splitter-choice', 'C08/%s/%s' % (rule, key), ok, where, what, detail)
    ctx.floor('R19.3-queues-parallel', 3)
    ctx.floor('R19.1-conservation', 3)
    ctx.floor('R19.1-volume', 3)
    ctx.floor('R19.3-links', 2)
    ctx.floor('R19.4-no-phantom-event', 1)
