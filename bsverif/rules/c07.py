"""C07 - every simulation mode returns a complete, correctly labelled result.

R7.1 definite assignment over the option lattice: py_simulate_model is interpreted abstractly for
each of the 128 option combinations {Model|Interface given} x {stochastic} x {delay} x {safe} x
{volume: False, True, positive number, zero, negative number, Volume object} x {return_dataframe}; every feasible path
either raises explicitly or reaches a return with every local defined at each use.
R7.2 concrete simulator: every class instantiated in a dispatch branch implements the abstract
slot reached by the py_ wrapper called on it, and the wrapper exists with matching arity.
R7.3 constructor completeness: each result class constructor assigns (itself or via super) every
attribute its accessors and data-frame conversion read.
R7.4 shape and labels: result arrays are (len(timepoints), num_species), rows are recorded for all
species at the running index, returned with the caller's time axis (truncated consistently on
division); data frame columns come from the model's species order, time and volume columns from
the result.
R7.3b optional Model: the data frame conversion uses its optional Model argument (None for a pre-built interface) only under a
test that it was given.
"""
import ast
import itertools

from .. import paths, simloop, util
from ..front import AnalysisError, src

EXPLANATION = __doc__
ASSUMPTIONS = ['option values of other types than the stated ones (flag, number, Volume object) are outside the property',
               'np.allclose on the time grid may return either value; both branches are followed']


class Obj:
    def __init__(self, cls):
        self.cls = cls

    def __repr__(self):
        return 'Obj(%s)' % self.cls

    def __eq__(self, o):
        return isinstance(o, Obj) and o.cls == self.cls

    def __hash__(self):
        return hash(self.cls)


VOLOBJ = Obj('Volume')
NUM = 2.5


def lattice():
    for mi, st, de, sa, vo, df in itertools.product(('model', 'interface', 'both', 'neither'), (False, True), (False, True),
                                                    (False, True), ('off', 'true', 'number', 'zero', 'negative', 'object'), (False, True)):
        yield {'mi': mi, 'stochastic': st, 'delay': de, 'safe': sa, 'volume': vo, 'return_dataframe': df}


def key_of(c):
    return '%s/stochastic=%d/delay=%d/safe=%d/volume=%s/dataframe=%d' % (
        c['mi'], c['stochastic'], c['delay'], c['safe'], c['volume'], c['return_dataframe'])


def initial_state(c, params):
    st = paths.State()
    env = {
        'Model': Obj('Model') if c['mi'] in ('model', 'both') else None,
        'Interface': Obj('CSimInterface') if c['mi'] in ('interface', 'both') else None,
        'stochastic': c['stochastic'], 'delay': c['delay'], 'safe': c['safe'],
        'return_dataframe': c['return_dataframe'],
        'volume': {'off': False, 'true': True, 'number': NUM, 'zero': 0.0, 'negative': -NUM, 'object': VOLOBJ}[c['volume']],
    }
    for p in params:
        st.set(p, env.get(p, paths.TOP))
    return st


def make_hooks(prog):
    class RaiseType(Exception):
        pass

    def value(n, st):
        if isinstance(n, ast.Constant):
            return n.value
        if isinstance(n, ast.Name):
            return st.env.get(n.id, paths.TOP)
        return paths.TOP

    def cond(test, st, en):
        # isinstance(x, C)
        if isinstance(test, ast.Call) and src(test.func) == 'isinstance' and len(test.args) == 2:
            v = value(test.args[0], st)
            if v is paths.TOP:
                return None
            cname = src(test.args[1])
            if isinstance(v, Obj):
                return cname in prog.mro(v.cls) or v.cls == cname
            return False
        if isinstance(test, ast.Compare) and len(test.ops) == 1:
            l, r = value(test.left, st), value(test.comparators[0], st)
            op = type(test.ops[0])
            if l is paths.TOP or r is paths.TOP:
                return NotImplemented
            if op in (ast.Is, ast.IsNot):
                same = (l is r) or (l is None and r is None)
                if isinstance(l, Obj) or isinstance(r, Obj):
                    same = False if (l is None or r is None) else None
                if same is None:
                    return None
                return same if op is ast.Is else not same
            if op in (ast.Eq, ast.NotEq):
                if isinstance(l, Obj) or isinstance(r, Obj):
                    eq = False if not (isinstance(l, Obj) and isinstance(r, Obj)) else None
                    if eq is None:
                        return None
                else:
                    eq = (l == r)
                return eq if op is ast.Eq else not eq
            if op in (ast.Gt, ast.GtE, ast.Lt, ast.LtE):
                if isinstance(l, Obj) or isinstance(r, Obj) or l is None or r is None:
                    return None     # raises TypeError at run time: handled by the try/except over-approximation
                return {ast.Gt: l > r, ast.GtE: l >= r, ast.Lt: l < r, ast.LtE: l <= r}[op]
        return NotImplemented

    def stmt(s, st, events):
        # constructor calls of known classes give non-None objects
        if isinstance(s, ast.Assign) and len(s.targets) == 1 and isinstance(s.targets[0], ast.Name):
            v = s.value
            if isinstance(v, ast.Call) and isinstance(v.func, ast.Name) and v.func.id in prog.classes:
                st.env[s.targets[0].id] = Obj(v.func.id)
    return cond, stmt


def loads(node):
    out = []
    for n in ast.walk(node):
        if isinstance(n, ast.Name) and isinstance(n.ctx, ast.Load):
            out.append(n)
    return out


def _parents(n):
    cur = getattr(n, '_parent', None)
    while cur is not None:
        yield cur
        cur = getattr(cur, '_parent', None)


def check_lattice(ctx):
    prog = ctx.prog
    f = ctx.fn('simulator:py_simulate_model')
    where = ctx.loc('simulator', f)
    params = [a.arg for a in f.args.args] + ([f.args.kwarg.arg] if f.args.kwarg else []) + \
             ([f.args.vararg.arg] if f.args.vararg else [])
    need = {'timepoints', 'Model', 'Interface', 'stochastic', 'delay', 'safe', 'volume', 'return_dataframe'}
    if not need <= set(params):
        raise AnalysisError('py_simulate_model signature changed: %s' % params)
    local_names = util.assigned_names(f) - set(params)
    cond, stmt = make_hooks(prog)
    n_paths = 0
    results = {}
    used = {}
    ifaces = {}
    for c in lattice():
        en = paths.Enumerator(cond_hook=cond, stmt_hook=stmt, snapshot=True)
        st = initial_state(c, params)
        ps = en.run(f.body, st)
        n_paths += len(ps)
        problems = []
        outcome = set()
        for p in ps:
            # TypeError path pruning: `volume > 0` on a number cannot raise -> drop except-paths for numeric volume
            bad = None
            for e in p.events:
                if e.kind not in ('stmt', 'test'):
                    continue
                if e.kind == 'stmt' and isinstance(e.node, (ast.Assign, ast.AnnAssign, ast.AugAssign)):
                    exprs = [e.node.value] if e.node.value is not None else []
                    if isinstance(e.node, ast.AugAssign):
                        exprs.append(e.node.target)
                    for t in (e.node.targets if isinstance(e.node, ast.Assign) else [e.node.target]):
                        if not isinstance(t, ast.Name):
                            exprs.append(t)
                else:
                    exprs = [e.node]
                for x in exprs:
                    for nm in loads(x):
                        if nm.id in local_names and nm.id not in (e.pre if e.pre is not None else ()):
                            bad = (nm.id, e.node)
                            break
                    if bad:
                        break
                if bad:
                    break
            if bad:
                problems.append("local '%s' may be used before assignment at %s on path [%s]"
                                % (bad[0], ctx.loc('simulator', bad[1]), paths.describe(p, 8)))
                continue
            # a numeric conversion of an option value that is an object (a Volume, a Model) or None raises TypeError from inside
            conv = None
            for e in p.events:
                if e.kind not in ('stmt', 'test') or e.state is None or isinstance(e.node, (ast.Try, ast.If, ast.For, ast.While)):
                    continue
                if any(isinstance(par_, ast.Try) for par_ in _parents(e.node)):
                    continue        # inside a try: the entry point handles the failure itself
                for c_ in ast.walk(e.node):
                    if isinstance(c_, ast.Call) and isinstance(c_.func, ast.Name) and c_.func.id in ('float', 'int') and len(c_.args) == 1 \
                            and isinstance(c_.args[0], ast.Name):
                        v_ = e.state.env.get(c_.args[0].id, paths.TOP)
                        if isinstance(v_, Obj) or v_ is None:
                            conv = (src(c_), v_, e.node)
            if conv:
                problems.append('`%s` is evaluated with %s = %r at %s: a TypeError from inside, not an error about the options [%s]'
                                % (conv[0], conv[0][conv[0].index('(') + 1:-1], conv[1], ctx.loc('simulator', conv[2]), paths.describe(p, 6)))
                continue
            if p.exit == 'raise':
                outcome.add('explicit-error')
            elif p.exit == 'return':
                outcome.add('returns')
                # which simulator produced the result on this path (the last `Sim = <Class>()` executed)
                made = [src(e.node.value.func) for e in p.events if e.kind == 'stmt' and isinstance(e.node, ast.Assign) and src(e.node.targets[0]) == 'Sim'
                        and isinstance(e.node.value, ast.Call)]
                if c['mi'] == 'model' and (c['stochastic'] or c['delay']):
                    ifc = [src(e.node.value.func) for e in p.events if e.kind == 'stmt' and isinstance(e.node, ast.Assign) and src(e.node.targets[0]) == 'Interface'
                           and isinstance(e.node.value, ast.Call)]
                    ifaces.setdefault(bool(c['safe']), set()).add((ifc[-1] if ifc else None, key_of(c)))
                if c['mi'] in ('model', 'interface') and c['volume'] in ('off', 'true', 'number', 'object'):
                    used.setdefault((c['stochastic'] or c['delay'], c['delay'], c['volume'] in ('true', 'number', 'object')), set()).add(
                        (made[-1] if made else None, key_of(c)))
            else:
                problems.append('path falls off the end without returning a result')
        results[key_of(c)] = (problems, outcome)
        # de-duplicate identical problem texts
        uniq = sorted(set(problems))
        ctx.ob('R7.1-option-lattice', key_of(c), not uniq, where,
               'every path for this option combination raises an explicit option error or returns with all locals defined',
               '; '.join(uniq[:2]) or 'outcomes: %s (%d paths)' % (sorted(outcome), len(ps)))
    ctx.paths += n_paths
    # "a result ... plus volume when one is used": which simulator runs is decided by the options alone - delay forces a stochastic run
    # (the entry point says so in its warning), a volume that is given (flag, positive number, object) is used whenever the run is stochastic
    want = {(False, False, False): 'DeterministicSimulator', (False, False, True): 'DeterministicSimulator',
            (True, False, False): 'SSASimulator', (True, False, True): 'VolumeSSASimulator',
            (True, True, False): 'DelaySSASimulator', (True, True, True): 'DelayVolumeSSASimulator'}
    for trip, cls_ in sorted(want.items()):
        got = used.get(trip, set())
        wrong = sorted((k_, m_) for m_, k_ in got if m_ != cls_)
        ctx.ob('R7.2-dispatch-table', 'stochastic-or-delay=%d/delay=%d/volume-given=%d' % trip, bool(got) and not wrong, where,
               'every returning path for these options runs %s (%d option combinations)' % (cls_, len({k_ for _, k_ in got})),
               '; '.join('%s runs %s' % w_ for w_ in wrong[:3]) if got else 'no returning path found')
    # safe mode is the caller's choice for every stochastic run - also the ones that delay=True turns into stochastic runs
    for safe_, cls_ in ((True, 'SafeModelCSimInterface'), (False, 'ModelCSimInterface')):
        got = ifaces.get(safe_, set())
        wrong = sorted((k_, m_) for m_, k_ in got if m_ != cls_)
        ctx.ob('R7.2-dispatch-table', 'interface/safe=%d' % safe_, bool(got) and not wrong, where,
               'a stochastic run (stochastic or delay given) on a Model builds a %s (%d option combinations)' % (cls_, len({k_ for _, k_ in got})),
               '; '.join('%s builds %s' % w_ for w_ in wrong[:3]) if got else 'no returning path found')
    # both / neither must be rejected explicitly
    for c in lattice():
        if c['mi'] in ('both', 'neither') and not c['stochastic'] and not c['delay'] and not c['safe'] \
                and c['volume'] == 'off' and not c['return_dataframe']:
            problems, outcome = results[key_of(c)]
            ctx.ob('R7.1-reject', c['mi'], outcome == {'explicit-error'}, where,
                   'passing %s of Model / Interface is rejected with an explicit error' % c['mi'], 'outcomes %s' % sorted(outcome))
    return f


def is_abstract(fdef):
    body = [s for s in fdef.body if not (isinstance(s, ast.Expr) and isinstance(s.value, ast.Constant))]
    return len(body) >= 1 and isinstance(body[0], ast.Raise) and 'NotImplementedError' in src(body[0])


def check_dispatch(ctx, f):
    prog = ctx.prog
    # pairs: Sim = C() followed by result = Sim.py_x(args)
    for n in ast.walk(f):
        if not (isinstance(n, ast.Assign) and isinstance(n.value, ast.Call) and isinstance(n.value.func, ast.Name)
                and n.value.func.id in prog.classes and 'Simulator' in n.value.func.id):
            continue
        cls = n.value.func.id
        var = src(n.targets[0])
        parent = n._parent
        body = None
        for fld in ('body', 'orelse'):
            if n in getattr(parent, fld, []):
                body = getattr(parent, fld)
        call = None
        for s in body[body.index(n) + 1:]:
            for c in ast.walk(s):
                if isinstance(c, ast.Call) and isinstance(c.func, ast.Attribute) and src(c.func.value) == var \
                        and c.func.attr.startswith('py_') and 'simulate' in c.func.attr:
                    call = c
                    break
            if call:
                break
        where = ctx.loc('simulator', n)
        if call is None:
            ctx.ob('R7.2-concrete-simulator', cls, False, where, 'the simulator created in a dispatch branch is run', 'no py_*simulate call on %s' % var)
            continue
        ctx.call_sites += 1
        dc, wrapper = prog.resolve_method(cls, call.func.attr)
        problems = []
        if wrapper is None:
            problems.append('%s has no method %s' % (cls, call.func.attr))
        else:
            # arity
            npos = len([a for a in wrapper.args.args]) - 1
            if len(call.args) != npos and not any(isinstance(a, ast.Starred) for a in call.args):
                problems.append('%s.%s takes %d positional arguments, %d given' % (dc, call.func.attr, npos, len(call.args)))
            # inner cdef slot(s) called on self
            inner = [c for c in ast.walk(wrapper) if isinstance(c, ast.Call) and isinstance(c.func, ast.Attribute)
                     and src(c.func.value) == 'self' and 'simulate' in c.func.attr]
            if not inner:
                problems.append('%s.%s does not call a simulate slot' % (dc, call.func.attr))
            for ic in inner:
                dc2, impl = prog.resolve_method(cls, ic.func.attr)
                if impl is None:
                    problems.append('slot %s not found for %s' % (ic.func.attr, cls))
                elif is_abstract(impl):
                    problems.append('%s is abstract: %s.%s only raises NotImplementedError' % (cls, dc2, ic.func.attr))
                ctx.functions.add('simulator:%s.%s' % (dc2, ic.func.attr))
            # argument roles: q only with delay, v only with volume
            argt = [src(a) for a in call.args]
            pn = [a.arg for a in wrapper.args.args[1:]]
            fdefs_ = util.single_defs(f)
            for a, p_ in zip(argt, pn):
                role = {'sim': 'Interface', 'timepoints': 'timepoints', 'q': 'q', 'dq': 'q', 'v': 'v'}.get(p_)
                if role == 'q':
                    # the delay queue: a local (whatever it is called) built by ArrayDelayQueue.setup_queue in this function
                    d_ = fdefs_.get(a)
                    if not (d_ is not None and isinstance(d_, ast.Call) and src(d_.func).replace(' ', '').endswith('setup_queue')):
                        problems.append('argument %s passed for parameter %s is not the queue set up for this run' % (a, p_))
                elif role and a != role:
                    problems.append('argument %s passed for parameter %s' % (a, p_))
        ctx.ob('R7.2-concrete-simulator', cls + '@' + call.func.attr, not problems, where,
               'the class instantiated implements the simulate slot reached by %s' % call.func.attr, '; '.join(problems))


RESULT_CLASSES = ['SSAResult', 'DelaySSAResult', 'VolumeSSAResult', 'DelayVolumeSSAResult']
ACCESSORS = ['py_get_dataframe', 'get_timepoints', 'get_result', 'get_volume', 'cell_divided', 'get_delay_queue',
             'py_get_timepoints', 'py_get_result', 'py_get_volume', 'py_cell_divided', 'py_get_delay_queue']


def must_assign(prog, cls, seen=None):
    """self-attributes assigned on every path of cls.__init__ (following super().__init__)."""
    dc, init = prog.resolve_method(cls, '__init__')
    if init is None:
        return set()
    en = paths.Enumerator()
    ps = en.run(init.body, paths.State())
    result = None
    for p in ps:
        if p.exit == 'raise':
            continue
        got = set()
        for e in p.stmts():
            n = e.node
            if isinstance(n, ast.Assign):
                for t in n.targets:
                    if isinstance(t, ast.Attribute) and src(t.value) == 'self':
                        got.add(t.attr)
            for c in ast.walk(n):
                if isinstance(c, ast.Call) and src(c.func) in ('super().__init__', 'super(%s, self).__init__' % dc):
                    bases = prog.classes[dc].bases
                    if bases:
                        got |= must_assign(prog, bases[0])
        result = got if result is None else (result & got)
    return result or set()


def check_results(ctx):
    prog = ctx.prog
    for cls in RESULT_CLASSES:
        ci = prog.cls(cls)
        attrs = prog.all_attrs(cls)
        read = {}
        for m in ACCESSORS:
            dc, fn = prog.resolve_method(cls, m)
            if fn is None:
                continue
            ctx.functions.add('simulator:%s.%s' % (dc, m))
            for n in ast.walk(fn):
                if isinstance(n, ast.Attribute) and isinstance(n.ctx, ast.Load) and src(n.value) == 'self' and n.attr in attrs:
                    read.setdefault(n.attr, m)
        assigned = must_assign(prog, cls)
        dc, init = prog.resolve_method(cls, '__init__')
        where = ctx.loc('simulator', init) if init is not None else ''
        for a, m in sorted(read.items()):
            ctx.ob('R7.3-constructor', '%s.%s' % (cls, a), a in assigned, where,
                   'the constructor of %s sets %s (read by %s) on every path' % (cls, a, m),
                   'assigned on every path: %s' % sorted(assigned))


def only_raises(fn):
    body = [s_ for s_ in fn.body if not (isinstance(s_, ast.Expr) and isinstance(s_.value, ast.Constant))]
    return bool(body) and isinstance(body[0], ast.Raise)


def check_volume_object_ops(ctx):
    """A plain `Volume` is a legitimate volume object (the entry point builds one itself for volume=True / a number): whatever the entry
    point calls on the volume object must be implemented by the base class, not only by its subclasses."""
    prog = ctx.prog
    f = ctx.fn('simulator:py_simulate_model')
    # names that hold the volume object: the `volume` argument and locals assigned from it or from Volume()
    names = {'volume'}
    for n in ast.walk(f):
        if isinstance(n, ast.Assign) and len(n.targets) == 1 and isinstance(n.targets[0], ast.Name):
            v = n.value
            if (isinstance(v, ast.Name) and v.id in names) or (isinstance(v, ast.Call) and src(v.func) in ('Volume', 'types.Volume')) or \
                    (isinstance(v, ast.Call) and isinstance(v.func, ast.Attribute) and isinstance(v.func.value, ast.Name) and v.func.value.id in names):
                names.add(n.targets[0].id)
    problems = []
    n_calls = 0
    for c in ast.walk(f):
        if isinstance(c, ast.Call) and isinstance(c.func, ast.Attribute) and isinstance(c.func.value, ast.Name) and c.func.value.id in names:
            m = c.func.attr
            n_calls += 1
            seen = set()
            while m not in seen:
                seen.add(m)
                dc, fn = prog.resolve_method('Volume', m)
                if fn is None:
                    problems.append('%s.%s(): the base class Volume has no such method' % (c.func.value.id, m))
                    break
                if only_raises(fn):
                    problems.append('%s.%s() (line %d) reaches Volume.%s, which only raises %s' % (c.func.value.id, c.func.attr, c.lineno, m,
                                    src(fn.body[-1] if not fn.body else [s_ for s_ in fn.body if isinstance(s_, ast.Raise)][0].exc)[:60]))
                    break
                # a python wrapper that only forwards to a slot of the same object: follow it
                body = [s_ for s_ in fn.body if not (isinstance(s_, ast.Expr) and isinstance(s_.value, ast.Constant))]
                fwd = body[0].value if len(body) == 1 and isinstance(body[0], (ast.Return, ast.Expr)) else None
                if isinstance(fwd, ast.Call) and isinstance(fwd.func, ast.Attribute) and src(fwd.func.value) == 'self':
                    m = fwd.func.attr
                else:
                    break
    ctx.ob('R7.2-concrete-model-ops', 'Volume@py_simulate_model', not problems and n_calls > 0, ctx.loc('simulator', f),
           'every method the entry point calls on the volume object is implemented by the base class Volume (a plain Volume is what it builds itself)',
           '; '.join(sorted(set(problems))))


def check_optional_model(ctx):
    """With a pre-built interface the entry point has no Model: the data frame conversion gets Model=None.  Every use of the
    optional argument inside the conversion must therefore be under a test that it is there."""
    prog = ctx.prog
    n_methods = 0
    for cls in RESULT_CLASSES:
        dc, fn = prog.resolve_method(cls, 'py_get_dataframe')
        if fn is None:
            raise AnalysisError('anchor vanished: %s.py_get_dataframe' % cls)
        if dc != cls and dc in RESULT_CLASSES:
            continue        # inherited: decided at the defining class
        n_methods += 1
        ctx.functions.add('simulator:%s.py_get_dataframe' % dc)
        args, dfl = fn.args.args, fn.args.defaults
        opt = [a.arg for a, dv in zip(args[len(args) - len(dfl):], dfl) if isinstance(dv, ast.Constant) and dv.value is None]
        bad = []
        for pn in opt:
            present = {'%s!=None' % pn, 'None!=%s' % pn, '%sis notNone' % pn, '%sisnotNone' % pn, pn}
            rebound = any(isinstance(n, ast.Assign) and any(isinstance(t, ast.Name) and t.id == pn for t in n.targets) for n in ast.walk(fn))
            for n in ast.walk(fn):
                if isinstance(n, (ast.Attribute, ast.Subscript)) and isinstance(n.value, ast.Name) and n.value.id == pn and isinstance(n.ctx, ast.Load):
                    st = n
                    while not isinstance(st, ast.stmt):
                        st = st._parent
                    g = {x.replace(' ', '') for x in util.guards_of(st, fn)}
                    here = st.test if isinstance(st, (ast.If, ast.While)) and any(x is n for x in ast.walk(st.test)) else None
                    if here is not None and isinstance(here, ast.BoolOp) and isinstance(here.op, ast.And):
                        # `P is not None and P.x ...`: the earlier conjuncts guard the later ones
                        for v in here.values:
                            if any(x is n for x in ast.walk(v)):
                                break
                            g.add(util.canon_test(v).replace(' ', ''))
                    if not (g & present) and not rebound:
                        bad.append('%s is used (`%s`, line %d) without a test that a %s was given' % (pn, src(n)[:40], n.lineno, pn))
        ctx.ob('R7.3-optional-model', '%s.py_get_dataframe' % dc, not bad, ctx.loc('simulator', fn),
               'an optional argument of the data frame conversion (None when a pre-built interface was simulated) is only used under a test that it is there',
               '; '.join(bad[:3]))
    if n_methods < 2:
        raise AnalysisError('anchor vanished: py_get_dataframe methods of the result classes')


def check_shapes(ctx):
    prog = ctx.prog
    ctor_params = {}
    for cls in RESULT_CLASSES:
        dc, init = prog.resolve_method(cls, '__init__')
        ctor_params[cls] = [a.arg for a in init.args.args[1:]]
    for key in simloop.SIMULATORS:
        sl = simloop.SimLoop(ctx, key)
        f = sl.f
        problems = []
        tp_param = [a.arg for a in f.args.args if a.arg == 'timepoints']
        if not tp_param:
            problems.append('no timepoints parameter')
        res = sl.prelude_assign('c_results')
        nt = sl.prelude_assign('num_timepoints')
        ns = sl.prelude_assign('num_species')
        ctp = sl.prelude_assign('c_timepoints')
        rt = src(res).replace(' ', '') if res is not None else ''
        if not rt.startswith('np.zeros((num_timepoints,num_species)'):
            problems.append('result array allocated as %s' % rt)
        ntt = src(nt).replace(' ', '') if nt is not None else ''
        if ntt not in ('len(timepoints)', 'c_timepoints.shape[0]', 'timepoints.shape[0]', 'len(c_timepoints)'):
            problems.append('num_timepoints = %s' % ntt)
        if ns is None or src(ns).replace(' ', '') not in ('c_stoich.shape[0]',):
            problems.append('num_species = %s' % (src(ns) if ns is not None else None))
        if ctp is None or src(ctp).replace(' ', '') not in ('timepoints', 'timepoints.copy()'):
            problems.append('c_timepoints = %s' % (src(ctp) if ctp is not None else None))
        # recording loop
        rec = [n for n in ast.walk(sl.loop) if isinstance(n, ast.Assign) and isinstance(n.targets[0], ast.Subscript)
               and src(n.targets[0].value) == 'c_results']
        if len(rec) != 1:
            problems.append('expected one store into c_results, found %d' % len(rec))
        else:
            r = rec[0]
            idx = [src(e) for e in r.targets[0].slice.elts] if isinstance(r.targets[0].slice, ast.Tuple) else []
            fors = simloop.enclosing_fors(r, sl.loop)
            if len(idx) != 2 or idx[0] != 'current_index' or not fors or src(fors[0].target) != idx[1] \
                    or src(fors[0].iter) != 'range(num_species)' or src(r.value) != 'c_current_state[%s]' % idx[1]:
                problems.append('recording is not c_results[current_index, s] = c_current_state[s] for all s: %s' % util.stmt_key(r))
            wh = fors[0]._parent if fors else None
            if not (isinstance(wh, ast.While) and util.canon_test(wh.test) == '(c_timepoints[current_index]<=current_time and current_index<num_timepoints)'):
                problems.append('recording loop condition changed: %s' % (src(wh.test) if isinstance(wh, ast.While) else None))
            else:
                incs = [util.stmt_key(x) for x in wh.body]
                if 'current_index += 1' not in incs:
                    problems.append('recording loop does not advance current_index')
                if 'Volume' in key:
                    if 'c_volume_trace[current_index] = current_volume' not in incs:
                        problems.append('volume trace not recorded at the same index as the species row')
        # returned object
        rets = [n for n in ast.walk(f) if isinstance(n, ast.Call) and isinstance(n.func, ast.Name) and n.func.id in RESULT_CLASSES]
        if len(rets) != 1:
            problems.append('expected one result construction, found %d' % len(rets))
        else:
            rc = rets[0]
            want_cls = {'SSASimulator': 'SSAResult', 'DelaySSASimulator': 'DelaySSAResult', 'VolumeSSASimulator': 'VolumeSSAResult',
                        'DelayVolumeSSASimulator': 'DelayVolumeSSAResult'}[key]
            if rc.func.id != want_cls:
                problems.append('returns %s, expected %s' % (rc.func.id, want_cls))
            role = {'timepoints': ('timepoints', 'c_timepoints'), 'result': ('c_results',), 'volume': ('c_volume_trace',),
                    'queue': ('q',), 'divided': ('cell_divided',)}
            got = [src(a).replace(' ', '') for a in rc.args]
            pn = ctor_params.get(rc.func.id, [])
            if len(got) != len(pn):
                problems.append('%s constructed with %d arguments, constructor takes %s' % (rc.func.id, len(got), pn))
            for a, p_ in zip(got, pn):
                if a not in role.get(p_, (a,)):
                    problems.append('constructor parameter %s receives %s' % (p_, a))
        # truncation on division
        if 'Volume' in key:
            trunc = [util.stmt_key(n) for n in ast.walk(f) if isinstance(n, ast.Assign) and isinstance(n.value, ast.Subscript)
                     and isinstance(n.targets[0], ast.Name) and src(n.value.value) == src(n.targets[0])]
            want = {'c_timepoints = c_timepoints[:current_index]', 'c_volume_trace = c_volume_trace[:current_index]',
                    'c_results = c_results[:current_index, :]'}
            if set(trunc) != want:
                problems.append('truncation on division is %s' % sorted(trunc))
        ctx.ob('R7.4-shape', key, not problems, sl.where,
               'result rows: (len(timepoints), num_species), recorded for all species at the running index, returned with the time axis',
               '; '.join(problems))
    # data frame labels
    f = ctx.fn('simulator:SSAResult.py_get_dataframe')
    txt = [util.stmt_key(n) for n in ast.walk(f) if isinstance(n, ast.stmt)]
    # with a model: the frame is built from the result rows with the model's species list as column labels (keyword or positional,
    # through temporaries or not)
    defs_ = {n_: v_ for n_, v_ in util.single_defs(f).items() if v_ is not None}
    frames = [c_ for c_ in ast.walk(f) if isinstance(c_, ast.Call) and src(c_.func).split('.')[-1] == 'DataFrame']
    labelled = []
    for c_ in frames:
        kw = {k_.arg: src(util.inline(k_.value, defs_)).replace(' ', '') for k_ in c_.keywords if k_.arg}
        if c_.args:
            kw.setdefault('data', src(util.inline(c_.args[0], defs_)).replace(' ', ''))
        if 'columns' in kw:
            labelled.append(kw)
    ok = len(labelled) == 1 and labelled[0].get('data') == 'self.get_result()' and labelled[0].get('columns') == 'Model.get_species_list()' \
        and "df['time'] = self.timepoints" in txt
    ctx.ob('R7.4-labels', 'SSAResult.py_get_dataframe', ok, ctx.loc('simulator', f),
           "data frame: data = result rows, columns = the model's species list, 'time' = the result's time axis", '')
    f = ctx.fn('simulator:VolumeSSAResult.py_get_dataframe')
    txt = [util.stmt_key(n) for n in ast.walk(f) if isinstance(n, ast.stmt)]
    ok = "df['volume'] = self.volume" in txt and any(t.startswith('df = super().py_get_dataframe(') for t in txt)
    ctx.ob('R7.4-labels', 'VolumeSSAResult.py_get_dataframe', ok, ctx.loc('simulator', f),
           "volume results add the 'volume' column to the base data frame", '')
    f = ctx.fn('types:Model.get_species_list')
    txt = [util.stmt_key(n) for n in ast.walk(f) if isinstance(n, ast.stmt)]
    ok = 'l[self.species2index[s]] = s' in txt and any(t.startswith('for s in self.species2index') for t in txt)
    ctx.ob('R7.4-labels', 'Model.get_species_list', ok, ctx.loc('types', f),
           'column order: name s is placed at species2index[s] for every species', '')
    # deterministic result
    f = ctx.fn('simulator:DeterministicSimulator._helper_simulate')
    rets = [n for n in ast.walk(f) if isinstance(n, ast.Return)]
    ok = rets and all(src(r.value).replace(' ', '') in ('SSAResult(timepoints,results)', 'SSAResult(timepoints,results*np.nan)',
                                                        'SSAResult(timepoints,np.nan*results)') for r in rets)
    ctx.ob('R7.4-shape', 'DeterministicSimulator', ok, ctx.loc('simulator', f),
           'the deterministic result is SSAResult(timepoints, results) (all-NaN rows when integration failed)', '; '.join(src(r.value) for r in rets))


def check(ctx):
    prog = ctx.prog
    prog.mod('types'); prog.mod('types.pxd'); prog.mod('simulator'); prog.mod('simulator.pxd')
    f = check_lattice(ctx)
    check_dispatch(ctx, f)
    check_results(ctx)
    check_optional_model(ctx)
    check_volume_object_ops(ctx)
    check_shapes(ctx)
    # first-row clause: the row at the initial time is the initial condition with the rules applied - it needs the rules to run first in
    # an iteration (C09 R9.3) and the rows to be recorded before the state is updated (C05 R5.2); both are re-emitted here.
    from ..core import SubCtx
    from . import c05, c09
    sub = SubCtx(ctx)
    for key in ('SSASimulator', 'DelaySSASimulator', 'VolumeSSASimulator', 'DelayVolumeSSASimulator'):
        c05.check_loop(sub, key)
        c09.check_loop(sub, key)
    # ... and it needs the initial condition itself to survive earlier runs: every simulator works on a copy of the interface's initial
    # state and never writes into arrays it shares with the interface or the model (C08 R8.4)
    from . import c08
    c08.check_copies(sub)
    for m_ in ('lineage', 'lineage.pxd'):
        ctx.prog.mod(m_)
    c08.check_pure_evaluation(sub)
    from . import c06
    c06.check_state_readers(sub)
    c09.check_deterministic(sub)        # deterministic mode: every row, the first included, gets the rules exactly once
    for rule, key, ok, where, what, detail in sub.got:
        if rule == 'R9.5-deterministic':
            ctx.ob('R7.4-first-row', '%s/%s' % (rule, key), ok, where, what, detail)
        if rule in ('R5.2-record-before-update', 'R5.2-record-condition', 'R9.3-rules-first', 'R8.4-work-on-copies'):
            ctx.ob('R7.4-first-row', '%s/%s' % (rule, key), ok, where, what, detail)
        if rule == 'R6.1-state-readers':
            # every recorded row (the first one included) is the state as reactions and rules left it: nothing else edits it, safe mode included
            ctx.ob('R7.4-first-row', '%s/%s' % (rule, key), ok, where, what, detail)
        if rule == 'R8.7-pure-evaluation' and key == 'model-accessors':
            # the column labels come from Model.get_species_list() at conversion time: they must describe the model as it is now
            ctx.ob('R7.4-labels', 'R8.7-pure-evaluation/model-accessors', ok, where, what, detail)
    # "never fails from inside": what the simulators call on model objects must be implemented for every concrete class -
    # rule operations in plain and volume mode (C09 R9.2-operation-slot), re-emitted here
    sub = SubCtx(ctx)
    c09.check_rule_slots(sub)
    for rule, key, ok, where, what, detail in sub.got:
        ctx.ob('R7.2-concrete-rule-ops', key, ok, where, what, detail)
    # the same for the other model objects the simulators call into: every leaf class of these families executes a real body
    families = {'Propensity': ('get_propensity', 'get_volume_propensity', 'get_stochastic_propensity', 'get_stochastic_volume_propensity'),
                'Delay': ('get_delay',), 'Term': ('evaluate', 'volume_evaluate')}
    n_leaf = 0
    for base, slots in families.items():
        for cls in sorted(prog.subclasses(base)):
            if prog.subclasses(cls) or prog.classes[cls].module != 'types':
                continue
            n_leaf += 1
            bad = []
            for slot in slots:
                dc, fn = prog.resolve_method(cls, slot)
                body = [s for s in (fn.body if fn is not None else []) if not (isinstance(s, ast.Expr) and isinstance(s.value, ast.Constant))]
                if fn is None or (body and isinstance(body[0], ast.Raise)):
                    bad.append('%s executes %s.%s, which only raises' % (cls, dc, slot))
            ctx.ob('R7.2-concrete-model-ops', cls, not bad, '%s' % prog.mods['types'].rel,
                   'every evaluation slot of the leaf class %s resolves to a real body (no abstract method is reached at run time)' % cls, '; '.join(bad))
    if n_leaf < 25:
        raise AnalysisError('anchor vanished: only %d leaf propensity/delay/term classes found' % n_leaf)
    # "its first row is the initial condition with assignment rules applied" - also for a rule added to a model that was already
    # initialised: every method that adds a rule marks the model for re-initialisation (C08 R8.1) - re-emitted here
    from ..core import SubCtx as _Sub
    from . import c08 as _c08
    for m_ in ('types', 'types.pxd', 'random', 'lineage', 'lineage.pxd', 'inference'):
        ctx.prog.mod(m_)
    sub = _Sub(ctx)
    _c08.check_invalidation(sub, 'Model', _c08.DEF_FIELDS)
    for rule, key, ok, where, what, detail in sub.got:
        if rule == 'R8.1-invalidate' and 'rule' in key.lower():
            ctx.ob('R7.4-first-row', 'C08/%s/%s' % (rule, key), ok, where, what, detail)
    ctx.floor('R7.1-option-lattice', 256)
    ctx.floor('R7.2-concrete-simulator', 5)
    ctx.floor('R7.3-constructor', 8)
    ctx.floor('R7.3-optional-model', 2)
    ctx.floor('R7.4-shape', 5)
