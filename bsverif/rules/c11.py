"""C11 - volume-aware simulation scales rates with volume and tracks growth and division.

R11.1 the volume forms of every propensity class equal the documented volume-scaled rate laws
(shared extraction with C01) and the interfaces evaluate the volume slots for every reaction.
R11.2 pairing: in the volume-aware loops the propensities see the current volume, which is only
ever changed by `current_volume += v.get_volume_step(state, params, current_time,
current_volume, delta_t)`; on every path of an iteration the number of such growth steps equals
the number of advances of the dt queue (`next_* += delta_t`), with delta_t = sim.get_dt().
R11.3 the volume trace is recorded with the species row at the same index.
R11.4 division is tested after the volume update of that step; a positive answer leaves the loop
at once and the result is truncated consistently and flagged.
R11.5 the growth models step by (exp(g*dt) - 1)*V and the time-threshold model divides iff the
division time lies in (time - dt, time].
The constant-volume distributional statement is not decided.
"""
import ast
import math

import sympy as sp

from .. import paths, simloop, symx, util
from ..front import AnalysisError, src
from . import c01

EXPLANATION = __doc__
ASSUMPTIONS = ['growth rates are non-negative when "non-decreasing" is read off (exp(g*dt) - 1 >= 0)']


class Sub:
    """collect obligations of another rule module and re-emit a filtered subset"""

    def __init__(self, ctx):
        self.ctx = ctx
        self.prog = ctx.prog
        self.functions = ctx.functions
        self.call_sites = 0
        self.paths = 0
        self.got = []

    def ob(self, rule, key, ok, where='', what='', detail=''):
        self.got.append((rule, key, ok, where, what, detail))
        return ok

    def note(self, t):
        pass

    def loc(self, m, n):
        return self.ctx.loc(m, n)

    def fn(self, spec):
        return self.ctx.fn(spec)


def check_formulas(ctx):
    sub = Sub(ctx)
    for cls in c01.KEYS:
        roles = c01.check_binding(sub, cls)
        if cls == 'MassActionPropensity':
            c01.check_massaction(sub)
        else:
            need = {'ConstitutivePropensity': ['k'], 'UnimolecularPropensity': ['k', 'species'],
                    'BimolecularPropensity': ['k', 's1', 's2']}.get(cls, list(c01.KEYS[cls]))
            if all(r in roles for r in need):
                c01.check_formulas(sub, cls, roles)
    c01.check_c_arithmetic(sub)
    n = 0
    for rule, key, ok, where, what, detail in sub.got:
        if rule == 'R1.1-formula' and 'volume' in key:
            ctx.ob('R11.1-volume-formula', key, ok, where, what, detail)
            n += 1
        if rule == 'R1.2-binding' and key == 'MassActionPropensity/species':
            # the exponent of V in the mass-action volume forms is num_species - 1: it must be the molecularity (sum of the multiplicities)
            ctx.ob('R11.1-volume-exponent', key, ok, where, what + ' (the volume exponent of mass action is num_species - 1)', detail)
    sub = Sub(ctx)
    for cls in ('ModelCSimInterface', 'SafeModelCSimInterface'):
        for slot in ('compute_volume_propensities', 'compute_stochastic_volume_propensities'):
            c01.check_iface_loop(sub, cls, slot)
    for rule, key, ok, where, what, detail in sub.got:
        ctx.ob('R11.1-volume-iface', key, ok, where, what, detail)


def check_loop(ctx, key):
    sl = simloop.SimLoop(ctx, key)
    pths = sl.iteration_paths()
    v2, v4 = [], []
    dt0 = sl.prelude_assign('delta_t')
    problems = []
    if dt0 is None or src(dt0).replace(' ', '') != 'sim.get_dt()':
        problems.append('delta_t = %s, expected sim.get_dt()' % (src(dt0) if dt0 is not None else None))
    # writers of current_volume
    writers = [n for n in ast.walk(sl.loop) if isinstance(n, (ast.Assign, ast.AugAssign))
               and src((n.targets[0] if isinstance(n, ast.Assign) else n.target)) == 'current_volume']
    single = util.single_defs(sl.f)
    for w in writers:
        # `current_volume += step` in either spelling; the step may be named first (a local assigned once, just before, in the same block)
        af = util.aug_form(w)
        val = util.strip_cast(af[2]) if af is not None and af[1] is ast.Add else None
        if isinstance(val, ast.Name) and single.get(val.id) is not None:
            dstmt = getattr(single[val.id], '_parent', None)
            blk = None
            par = getattr(w, '_parent', None)
            for fld in ('body', 'orelse'):
                if par is not None and w in (getattr(par, fld, None) or []):
                    blk = getattr(par, fld)
            if blk is not None and dstmt in blk and blk.index(dstmt) < blk.index(w) and \
                    not any('current_volume' in util.assigned_names(x) or 'current_time' in util.assigned_names(x) for x in blk[blk.index(dstmt) + 1:blk.index(w)]):
                val = util.strip_cast(single[val.id])
        ok = isinstance(val, ast.Call) and src(val.func) == 'v.get_volume_step' and \
            [src(util.strip_cast(a)).replace(' ', '') for a in val.args] == \
            ['c_current_state.data', 'sim.get_param_values()', 'current_time', 'current_volume', 'delta_t']
        if not ok:
            problems.append('current_volume written by `%s`' % src(w))
    if not writers:
        problems.append('the volume is never updated')
    v0 = sl.prelude_assign('current_volume')
    if v0 is None or src(v0) != 'v.get_volume()':
        problems.append('initial volume is %s' % (src(v0) if v0 is not None else None))
    # the dt queue (the clock of the growth steps) starts one step after the simulation's initial time: growth and the division test run
    # from the start of the simulation, not from the first requested time point
    clocks = set()
    for n in ast.walk(sl.loop):
        if isinstance(n, ast.AugAssign) and isinstance(n.op, ast.Add) and src(n.value) == 'delta_t' and src(n.target).startswith('next_'):
            clocks.add(src(n.target))
    if len(clocks) != 1:
        problems.append('the clock of the growth steps was not found (%s)' % sorted(clocks))
    else:
        c0 = sl.prelude_assign(list(clocks)[0])
        t0 = sl.prelude_assign('current_time', resolve=True)
        c_txt = src(c0).replace(' ', '') if c0 is not None else None
        t_txt = src(util.strip_cast(t0)).replace(' ', '') if t0 is not None else None
        if c_txt not in ('delta_t+current_time', 'current_time+delta_t') or t_txt != 'sim.get_initial_time()':
            problems.append("the first growth step is scheduled at %s with current_time = %s, expected the interface's initial time + delta_t" % (c_txt, t_txt))
    ctx.ob('R11.2-volume-writers', key, not problems, sl.where,
           'the volume starts at v.get_volume() and changes only by += v.get_volume_step(state, params, current_time, current_volume, delta_t), delta_t = sim.get_dt()',
           '; '.join(problems))
    n_steps = 0
    for p in pths:
        ev = [e for e in p.events if e.kind == 'stmt']
        steps = [i for i, e in enumerate(p.events) if e.kind == 'stmt' and paths.stmt_calls(e.node, 'get_volume_step')]
        adv = [i for i, e in enumerate(p.events) if e.kind == 'stmt' and isinstance(e.node, ast.AugAssign) and isinstance(e.node.op, ast.Add)
               and src(e.node.value) == 'delta_t' and src(e.node.target).startswith('next_')]
        sets = [i for i, e in enumerate(p.events) if e.kind == 'stmt' and paths.stmt_calls(e.node, 'set_volume')]
        n_steps += len(steps)
        if len(steps) != len(adv):
            v2.append((p, '%d growth step(s) of length delta_t but the dt queue advanced %d time(s)' % (len(steps), len(adv))))
        elif steps and (len(sets) != 1 or sets[0] < steps[0] or src(paths.stmt_calls(p.events[sets[0]].node, 'set_volume')[0].args[0]) != 'current_volume'):
            v2.append((p, 'the volume object is not updated with the new volume after the growth step'))
        # propensities see the current volume
        i_prop = paths.index_of(p, lambda e: e.kind == 'stmt' and paths.stmt_calls(e.node, 'compute_stochastic_volume_propensities'))
        if i_prop < 0:
            v2.append((p, 'propensities are not the volume-aware stochastic ones'))
        else:
            c = paths.stmt_calls(p.events[i_prop].node, 'compute_stochastic_volume_propensities')[0]
            if len(c.args) != 4 or src(c.args[2]) != 'current_volume':
                v2.append((p, 'propensities evaluated with volume argument %s' % (src(c.args[2]) if len(c.args) > 2 else None)))
        # division
        divs = [i for i, e in enumerate(p.events) if e.kind == 'test' and paths.stmt_calls(e.node, 'cell_divided')]
        for i in divs:
            e = p.events[i]
            c = paths.stmt_calls(e.node, 'cell_divided')[0]
            args = [src(util.strip_cast(a)).replace(' ', '') for a in c.args]
            if args != ['c_current_state.data', 'sim.get_param_values()', 'current_time', 'current_volume', 'delta_t']:
                v4.append((p, 'division tested with %s' % args))
            if not steps or steps[0] > i:
                v4.append((p, 'division tested before the volume update of the step'))
            if e.info:
                after = [util.stmt_key(x.node) for x in p.events[i + 1:] if x.kind == 'stmt']
                if p.exit != 'break' or after not in (['cell_divided = True'], ['cell_divided = 1']):
                    v4.append((p, 'a positive division test does not flag the cell and leave the loop at once (does %s, exit %s)' % (after, p.exit)))
        if p.exit == 'break' and not any(p.events[i].info for i in divs):
            v4.append((p, 'the loop is left without a division'))
        if steps and not divs:
            v4.append((p, 'a growth step is not followed by a division test'))

    def fmt(lst):
        return '; '.join('%s on path [%s]' % (m, paths.describe(p, 7)) for p, m in lst[:2])
    ctx.ob('R11.2-pairing', key, not v2 and n_steps > 0, sl.where,
           'on every path of an iteration: #growth steps == #advances of the dt queue; propensities see current_volume', fmt(v2) or '%d paths' % len(pths))
    ctx.ob('R11.4-division', key, not v4, sl.where,
           'division is tested after each growth step with the updated volume; a positive test flags the cell and breaks', fmt(v4))
    # R11.3 trace
    rec = [n for n in ast.walk(sl.loop) if isinstance(n, ast.While) and n is not sl.loop and 'c_timepoints[current_index]' in src(n.test)]
    ok = len(rec) == 1 and 'c_volume_trace[current_index] = current_volume' in [util.stmt_key(s) for s in rec[0].body] and \
        [util.stmt_key(s) for s in rec[0].body][-1] == 'current_index += 1'
    ctx.ob('R11.3-volume-trace', key, ok, sl.where, 'the volume is recorded with the species row at the same index', '')
    # result flagged
    rets = [n for n in ast.walk(sl.f) if isinstance(n, ast.Call) and isinstance(n.func, ast.Name) and n.func.id.endswith('SSAResult')]
    ok = len(rets) == 1 and src(rets[0].args[-1]) == 'cell_divided' and src(rets[0].args[2]) == 'c_volume_trace'
    ctx.ob('R11.4-result-flag', key, ok, sl.where, 'the result carries the volume trace and the division flag', '')
    post_if = [s for s in sl.post if isinstance(s, ast.If) and src(s.test) == 'cell_divided']
    ok = len(post_if) == 1 and sorted(util.stmt_key(s) for s in post_if[0].body) == sorted(
        ['c_timepoints = c_timepoints[:current_index]', 'c_volume_trace = c_volume_trace[:current_index]', 'c_results = c_results[:current_index, :]'])
    ctx.ob('R11.4-truncation', key, ok, sl.where, 'on division the three arrays are truncated by the same index', '')


def check_growth(ctx):
    prog = ctx.prog
    for cls, gexpr in (('StochasticTimeThresholdVolume', None), ('StateDependentVolume', 'evaluate')):
        f = ctx.fn('types:%s.get_volume_step' % cls)
        a = [x.arg for x in f.args.args[1:]]
        se = symx.SymExec(prog, cls)
        V, dt = symx.possym('V'), symx.possym('dt')
        cases = se.run(f, {a[3]: V, a[4]: dt})
        ok = False
        detail = ''
        if len(cases) == 1:
            val = cases[0].value
            detail = str(val)
            if gexpr is None:
                g = sp.Symbol('self.growth_rate', real=True)
            else:
                cands = [x for x in val.atoms(sp.Function) if 'growth_rate' in str(x.func)]
                g = cands[0] if cands else sp.Symbol('g')
                call = [c for c in ast.walk(f) if isinstance(c, ast.Call) and src(c.func) == 'self.growth_rate.evaluate']
                sd_ = util.single_defs(f)
                if len(call) != 1 or [src(util.resolve_alias(x, sd_)) for x in call[0].args] != [a[0], a[1], a[2]]:
                    detail += '; growth rate not evaluated at (state, params, time)'
                    g = None
            if g is not None:
                ok, _ = symx.equal(val, (sp.exp(g * dt) - 1) * V)
        ctx.ob('R11.5-growth-law', '%s.get_volume_step' % cls, ok, ctx.loc('types', f),
               'one growth step is (exp(g*dt) - 1) * V', detail)
    f = ctx.fn('types:StochasticTimeThresholdVolume.cell_divided')
    a = [x.arg for x in f.args.args[1:]]
    se = symx.SymExec(prog, 'StochasticTimeThresholdVolume')
    tm, dt, D = sp.Symbol('tm', real=True), sp.Symbol('dt', real=True), sp.Symbol('self.division_time', real=True)
    cases = se.run(f, {a[2]: tm, a[4]: dt})
    bad = None
    for dv in (sp.Rational(1, 2), 1, sp.Rational(3, 2), 2, sp.Rational(5, 2)):
        pt = {tm: 2, dt: 1, D: dv}
        got = None
        for c in cases:
            if all(bool(x.subs(pt)) == t for x, t in c.conds):
                got = c.value
                break
        exp = 1 if (dv > 1 and dv <= 2) else 0
        if got is None or got != exp:
            bad = (dv, got, exp)
    ctx.ob('R11.5-division-window', 'StochasticTimeThresholdVolume.cell_divided', bad is None, ctx.loc('types', f),
           'the cell divides iff division_time lies in (time - dt, time]', '' if bad is None else 'division_time %s with time 2, dt 1 gives %s, expected %s' % bad)
    f = ctx.fn('types:StateDependentVolume.cell_divided')
    a = [x.arg for x in f.args.args[1:]]
    ifs = [s for s in f.body if isinstance(s, ast.If)]
    import ast as _ast
    accepted = {util.canon_test(_ast.parse(t_, mode='eval').body) for t_ in ('%s > self.division_volume' % a[3], '%s >= self.division_volume' % a[3])}
    ok = len(ifs) == 1 and util.canon_test(ifs[0].test) in accepted and \
        [util.stmt_key(s) for s in ifs[0].body] == ['return 1'] and util.stmt_key(f.body[-1]) == 'return 0'
    ctx.ob('R11.5-division-window', 'StateDependentVolume.cell_divided', ok, ctx.loc('types', f),
           'the cell divides iff the volume exceeds the pre-drawn division volume', '')
    f = ctx.fn('types:StochasticTimeThresholdVolume.__init__')
    g = [s for s in f.body if isinstance(s, ast.Assign) and src(s.targets[0]) == 'self.growth_rate']
    ok = False
    if len(g) == 1 and isinstance(g[0].value, ast.BinOp) and isinstance(g[0].value.op, ast.Div):
        c = util.const_num(g[0].value.left)
        ok = (c is not None and abs(c - math.log(2)) < 1e-9 and src(g[0].value.right) == f.args.args[1].arg) or \
            (src(g[0].value.left).replace(' ', '') in ('log(2)', 'np.log(2)', 'log(2.0)') and src(g[0].value.right) == f.args.args[1].arg)
    ctx.ob('R11.5-growth-law', 'StochasticTimeThresholdVolume.growth_rate', ok, ctx.loc('types', f),
           'the growth rate is log(2) / cell_cycle_time', '')
    f = ctx.fn('types:Volume.get_volume_step')
    rets = [s for s in f.body if isinstance(s, ast.Return)]
    ok = len(rets) == 1 and util.const_num(rets[0].value) == 0
    ctx.ob('R11.5-growth-law', 'Volume.get_volume_step', ok, ctx.loc('types', f), 'the plain Volume (constant volume) never grows', '')
    f = ctx.fn('types:Volume.cell_divided')
    rets = [s for s in f.body if isinstance(s, ast.Return)]
    ok = len(rets) == 1 and util.const_num(rets[0].value) == 0
    ctx.ob('R11.5-division-window', 'Volume.cell_divided', ok, ctx.loc('types', f), 'the plain Volume never divides', '')


def check_volume_clock(ctx):
    """The volume is stepped on the dt grid for the whole run: inside the main loop of VolumeSSASimulator the time of the next volume step
    is only ever moved on by one dt (never parked beyond the end of the run, never reset) - whatever the size of the last growth step."""
    f = ctx.fn('simulator:VolumeSSASimulator.volume_simulate')
    loops = [n for n in f.body if isinstance(n, ast.While)]
    if len(loops) != 1:
        loops = [n for n in ast.walk(f) if isinstance(n, ast.While)][:1]
    if not loops:
        raise AnalysisError('VolumeSSASimulator.volume_simulate: main loop not found')
    lp = loops[0]
    # the clock variable: the local that the current time is set to when the volume step wins
    clock = None
    for n in ast.walk(lp):
        if isinstance(n, ast.Assign) and len(n.targets) == 1 and src(n.targets[0]) == 'current_time' and isinstance(n.value, ast.Name) \
                and n.value.id != 'proposed_time' and 'queue' in n.value.id:
            clock = n.value.id
    if clock is None:
        ctx.note('R11.2-volume-clock: the volume clock variable was not identified; no verdict from this rule')
        return
    step_names = {'delta_t'}
    for n in ast.walk(f):
        if isinstance(n, (ast.Assign, ast.AnnAssign)) and getattr(n, 'value', None) is not None:
            t_ = n.targets[0] if isinstance(n, ast.Assign) else n.target
            if isinstance(t_, ast.Name) and isinstance(n.value, ast.Name) and n.value.id in step_names:
                step_names.add(t_.id)
    problems = []
    n_adv = 0
    for n in ast.walk(lp):
        tgt = None
        if isinstance(n, ast.Assign) and len(n.targets) == 1:
            tgt, val = n.targets[0], n.value
        elif isinstance(n, ast.AugAssign):
            tgt, val = n.target, ast.BinOp(left=n.target, op=n.op, right=n.value)
        if tgt is None or not (isinstance(tgt, ast.Name) and tgt.id == clock):
            continue
        val = util.strip_cast(val)
        ok = isinstance(val, ast.BinOp) and isinstance(val.op, ast.Add) and \
            ((src(val.left) == clock and src(val.right) in step_names) or (src(val.right) == clock and src(val.left) in step_names))
        if ok:
            n_adv += 1
        else:
            problems.append('`%s` (%s): the next volume step is not "one dt later"' % (util.stmt_key(n)[:70], ctx.loc('simulator', n)))
    if n_adv == 0:
        problems.append('the volume clock %s is never advanced in the loop' % clock)
    ctx.ob('R11.2-volume-clock', 'VolumeSSASimulator', not problems, ctx.loc('simulator', lp),
           'the time of the next volume step only moves on by one dt: volume growth and the division test run at every dt until the run ends',
           '; '.join(problems[:2]))


def check(ctx):
    prog = ctx.prog
    prog.mod('types'); prog.mod('types.pxd'); prog.mod('simulator'); prog.mod('simulator.pxd')
    check_formulas(ctx)
    for key in ('VolumeSSASimulator', 'DelayVolumeSSASimulator'):
        check_loop(ctx, key)
    from .c05 import RACE_WHAT
    for key in ('VolumeSSASimulator', 'DelayVolumeSSASimulator'):
        sl_ = simloop.SimLoop(ctx, key)
        pr_, n_ = simloop.event_race(sl_)
        try:
            pr2_, n2_ = simloop.event_race_run(sl_)
        except AnalysisError as e_:
            # the scripted run cannot be evaluated on this source (a value the evaluator does not know decides the control flow): this
            # rule gives no verdict - the path rules of the property do - and says so
            ctx.note('R11.2-event-race %s: the scripted run was not evaluated (%s)' % (key, e_))
            pr2_, n2_ = [], 0
        if pr_ is None:     # a pass is not evaluable in isolation (it reads locals carried between passes): the run decides
            pr_, n_ = [], 0
        ctx.ob('R11.2-event-race', key, not pr_ and not pr2_, sl_.where, RACE_WHAT % (n_, n2_), '; '.join((pr2_ + pr_)[:2]))
    check_growth(ctx)
    check_volume_clock(ctx)
    # a 'general' rate sees the volume through its compiled expression: every node computes its operator over its children evaluated
    # with the same volume, and the translation builds the tree of the written formula (C02 R2.1 / R2.2) - re-emitted here
    from ..core import SubCtx
    from . import c02
    sub = SubCtx(ctx)
    c02.check_nodes(sub)
    c02.check_translation(sub)
    c02.check_users(sub)
    for rule, key, ok, where, what, detail in sub.got:
        if (rule == 'R2.1-node-semantics' and key.endswith('.volume_evaluate')) or rule == 'R2.2-translation' or \
                (rule == 'R2.1-users' and key == 'GeneralPropensity.get_volume_propensity'):
            ctx.ob('R11.1-general-rates', '%s/%s' % (rule, key), ok, where, what, detail)
    ctx.floor('R11.1-volume-formula', 16)
    ctx.floor('R11.2-pairing', 2)
    ctx.floor('R11.5-growth-law', 3)
