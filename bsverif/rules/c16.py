"""C16 - built-in priors are the log-densities they are named after.

R16.1 density identity: for each of the seven prior functions the value returned on the
in-support path is log(textbook density) of the family named in the check_prior dispatch, with
the distribution parameters read from positions 1, 2 of the prior list (sympy comparison).
R16.2 support rejection: each function is interpreted abstractly (sign x NaN x inf domain, NumPy
scalar semantics) with the value in every out-of-support class and the distribution parameters
ranging over their legal sets; no path may return a finite value (inf / NaN / an exception are
the module's rejection outcomes).
R16.3 aggregation: check_prior applies the 'positive' test first, dispatches each family name to
the function of that family, raises on an unknown name and returns the sum.
R16.4 a non-finite prior is turned into -inf before the model is touched.
Sample points of R16.1 include, for every comparison of the value or a distribution parameter with a number in the code, the point with
that quantity set to the number; tail calls to sibling prior methods are analysed with the sibling body in place.
"""
import ast

import sympy as sp

from .. import absint, paths, symx, util
from ..absint import K, NEG, ZERO, POS, NAN, PINF, NINF, FINITE
from ..front import AnalysisError, src

EXPLANATION = __doc__
ASSUMPTIONS = ['finite floating-point arithmetic is assumed not to overflow or underflow',
               'distribution parameters are in their legal ranges (scale/shape/rate parameters positive)']

FAMILIES = {
    'uniform': 'uniform_prior', 'gaussian': 'gaussian_prior', 'exponential': 'exponential_prior', 'gamma': 'gamma_prior',
    'beta': 'beta_prior', 'log-uniform': 'log_uniform_prior', 'log-gaussian': 'log_gaussian_prior',
}
x, a, b = sp.Symbol('x', positive=True), sp.Symbol('p1', positive=True), sp.Symbol('p2', positive=True)
mu = sp.Symbol('p1', real=True)


def densities():
    return {
        'uniform': (1 / (b - a), [{a: 1, b: 4, x: 2}, {a: sp.Rational(1, 2), b: 3, x: sp.Rational(5, 2)}, {a: -5, b: 5, x: sp.Rational(5, 2)}]),
        'gaussian': (sp.exp(-(x - a) ** 2 / (2 * b ** 2)) / (b * sp.sqrt(2 * sp.pi)), [{a: 1, b: 2, x: 3}, {a: sp.Rational(1, 3), b: sp.Rational(7, 5), x: 2},
                                                                                            {a: 0, b: 1, x: 9}, {a: 0, b: sp.Rational(1, 10), x: -1}, {a: 2, b: 1, x: 30}]),
        'exponential': (a * sp.exp(-a * x), [{a: 2, x: 3}, {a: sp.Rational(1, 3), x: sp.Rational(7, 2)}, {a: 2, x: 30}, {a: 1, x: 400}]),
        'gamma': (b ** a / sp.gamma(a) * x ** (a - 1) * sp.exp(-b * x), [{a: 2, b: 3, x: sp.Rational(1, 2)}, {a: sp.Rational(5, 2), b: sp.Rational(1, 3), x: 4},
                                                                                  {a: 2, b: 3, x: 20}, {a: 5, b: 1, x: sp.Rational(1, 100000)}]),
        'beta': (x ** (a - 1) * (1 - x) ** (b - 1) / sp.beta(a, b), [{a: 2, b: 3, x: sp.Rational(1, 3)}, {a: sp.Rational(5, 2), b: sp.Rational(3, 2), x: sp.Rational(3, 4)},
                                                                           {a: 6, b: 3, x: sp.Rational(1, 10000)}, {a: 2, b: 9, x: sp.Rational(9999, 10000)}]),
        'log-uniform': (1 / (x * (sp.log(b) - sp.log(a))), [{a: 1, b: 10, x: 3}, {a: sp.Rational(1, 2), b: 7, x: 2}]),
        'log-gaussian': (sp.exp(-(sp.log(x) - a) ** 2 / (2 * b ** 2)) / (x * b * sp.sqrt(2 * sp.pi)), [{a: 1, b: 2, x: 3}, {a: sp.Rational(1, 3), b: sp.Rational(7, 5), x: 2},
                                                                                                               {a: 25, b: 2, x: sp.exp(32)}, {a: 0, b: 1, x: sp.exp(-9)}]),
    }


# out-of-support classes: (label, kinds of x, relations, kinds of p1, p2)
def scenarios():
    any_fin = FINITE
    return {
        'uniform': [('x<lower', any_fin, {('x', '#1'): '<'}, any_fin, any_fin), ('x>upper', any_fin, {('x', '#2'): '>'}, any_fin, any_fin)],
        'log-uniform': [('x<lower', any_fin, {('x', '#1'): '<'}, K(POS), K(POS)), ('x>upper', K(POS), {('x', '#2'): '>'}, K(POS), K(POS))],
        'exponential': [('x<0', K(NEG), {}, K(POS), K(POS))],
        'gamma': [('x<0', K(NEG), {}, K(POS), K(POS))],
        'beta': [('x<0', K(NEG), {('x', '1.0'): '<'}, K(POS), K(POS)), ('x>1', K(POS), {('x', '1.0'): '>'}, K(POS), K(POS))],
        'log-gaussian': [('x<0', K(NEG), {}, any_fin, K(POS)), ('x=0', K(ZERO), {}, any_fin, K(POS))],
        'gaussian': [],
    }


def find_class(ctx):
    m = ctx.prog.mod('pid_interfaces')
    for n in m.tree.body:
        if isinstance(n, ast.ClassDef) and n.name == 'PIDInterface':
            return n
    raise AnalysisError('anchor vanished: pid_interfaces:PIDInterface')


def method(cls, name, raw=False):
    meths = {s.name: s for s in cls.body if isinstance(s, ast.FunctionDef)}
    if name not in meths:
        raise AnalysisError('anchor vanished: PIDInterface.%s' % name)
    # a prior that hands over to a sibling (`return self.other_prior(name, value)`) is analysed with the sibling's body in place
    return meths[name] if raw else util.split_parallel_assigns(util.inline_helper_calls(util.inline_tail_self_calls(meths[name], meths), meths))


def _v(pt, name):
    for k_, v_ in pt.items():
        if str(k_) == name:
            return v_
    raise KeyError(name)


SUPPORT = {
    'uniform': lambda pt: _v(pt, 'p1') < _v(pt, 'x') < _v(pt, 'p2'),
    'gaussian': lambda pt: _v(pt, 'p2') > 0,
    'exponential': lambda pt: _v(pt, 'p1') > 0 and _v(pt, 'x') > 0,
    'gamma': lambda pt: _v(pt, 'p1') > 0 and _v(pt, 'p2') > 0 and _v(pt, 'x') > 0,
    'beta': lambda pt: _v(pt, 'p1') > 0 and _v(pt, 'p2') > 0 and 0 < _v(pt, 'x') < 1,
    'log-uniform': lambda pt: 0 < _v(pt, 'p1') < _v(pt, 'x') < _v(pt, 'p2'),
    'log-gaussian': lambda pt: _v(pt, 'p2') > 0 and _v(pt, 'x') > 0,
}


def boundary_points(fam, cases, points):
    """points at which a value test of the code changes sides: every comparison of the value or of a distribution parameter with a number
    gives, for each sample point, the point with that quantity set to the number (kept when it is inside the support)"""
    out = []
    syms = {str(a): a, str(x): x, str(b): b}
    for c in cases:
        for cond, _ in c.conds:
            for rel in cond.atoms(sp.core.relational.Relational):
                l, r = rel.args
                for s_, v_ in ((l, r), (r, l)):
                    if s_.is_Symbol and str(s_) in syms and v_.is_number:
                        for pt in points:
                            q = dict(pt)
                            key = [k_ for k_ in q if str(k_) == str(s_)]
                            if not key:
                                continue
                            q[key[0]] = sp.nsimplify(v_)
                            try:
                                inside = bool(SUPPORT[fam](q))
                            except Exception:
                                inside = False
                            if inside and q not in out and q not in points:
                                out.append(q)
    return out


def check_density(ctx, cls):
    dens = densities()
    for fam, meth in FAMILIES.items():
        f = method(cls, meth)
        ctx.functions.add('pid_interfaces:PIDInterface.%s' % meth)
        where = ctx.loc('pid_interfaces', f)
        xname = f.args.args[2].arg

        # the bounds of a uniform prior and the location of a (log-)gaussian are any real numbers: no sign is assumed for them
        real_params = {'uniform': (1, 2), 'gaussian': (1,), 'log-gaussian': (1,)}.get(fam, ())

        def psym(i):
            return sp.Symbol('p%d' % i, real=True) if i in real_params else sp.Symbol('p%d' % i, positive=True)

        def leaf(n, env, se):
            if isinstance(n, ast.Subscript) and isinstance(n.slice, ast.Constant) and isinstance(n.slice.value, int) \
                    and isinstance(n.value, ast.Subscript):
                return psym(n.slice.value)
            if isinstance(n, ast.Attribute) and src(n) == 'self.prior':
                return sp.Symbol('PRIOR')
            return None

        def call(n, env, se):
            nm = src(n.func)
            if nm.split('.')[-1] == 'gamma' and len(n.args) == 1:
                return sp.gamma(se.ex(n.args[0], env))
            if nm.split('.')[-1] == 'beta' and len(n.args) == 2:
                return sp.beta(se.ex(n.args[0], env), se.ex(n.args[1], env))
            return None

        def leaf2(n, env, se):
            r = leaf(n, env, se)
            if r is not None:
                return r
            t = src(n).replace(' ', '')
            consts = {'np.finfo(float).eps': 2.220446049250313e-16, 'np.finfo(float).tiny': 2.2250738585072014e-308,
                      'np.finfo(np.float64).eps': 2.220446049250313e-16, 'sys.float_info.epsilon': 2.220446049250313e-16,
                      'sys.float_info.min': 2.2250738585072014e-308, 'np.finfo(float).smallest_normal': 2.2250738585072014e-308}
            if t in consts:
                return sp.Float(consts[t], 30)
            return None
        se = symx.SymExec(None, None, leaf=leaf2, call=call)
        import copy
        g = copy.copy(f)
        g.body = [s for s in f.body if not isinstance(s, (ast.Import, ast.ImportFrom))]
        try:
            cases = se.run(g, {xname: x})
        except symx.Unsupported as e:
            raise AnalysisError('%s: %s' % (meth, e))
        density, points = dens[fam]
        resym = {a: psym(1), b: psym(2)}
        density = density.xreplace(resym)
        points = [{resym.get(k_, k_): v_ for k_, v_ in pt_.items()} for pt_ in points]
        points = list(points) + boundary_points(fam, cases, points)
        problems = []
        n_in = 0
        for pt in points:
            pt = dict(pt)
            pt[sp.Symbol('PRIOR')] = 1
            # the cases (paths) this point can take: every condition that can be decided at the point must agree; a condition about
            # something the point does not fix (e.g. whether the prior list carries a keyword) leaves both sides open, and the density
            # must come out on each of them
            hits = []
            for c in cases:
                ok = True
                free = []
                for cond, truth in c.conds:
                    try:
                        if any(getattr(fn.func, '__name__', '') == 'cmp_Is' for fn in cond.atoms(sp.Function)):
                            v = False       # `prior_dict is None`: a prior dictionary is present
                        elif any(getattr(fn.func, '__name__', '') == 'cmp_IsNot' for fn in cond.atoms(sp.Function)):
                            v = True
                        else:
                            v = cond.xreplace(pt)
                            if v not in (sp.true, sp.false):
                                v2 = sp.simplify(v)
                                v = v2 if v2 in (sp.true, sp.false) else None
                            v = bool(v) if v is not None else None
                    except Exception:
                        v = None
                    if v is None:
                        free.append(str(cond)[:50])
                        continue
                    if v != truth:
                        ok = False
                        break
                if ok:
                    hits.append((c, free))
            if not hits or all(c.value == sp.Symbol('RAISE') for c, _ in hits):
                problems.append('no returning path for the in-support point %s' % pt)
                continue
            exp = sp.N(sp.log(density).xreplace(pt), 30)
            n_in += 1
            for hit, free in hits:
                if hit.value == sp.Symbol('RAISE'):
                    if not free:
                        problems.append('the in-support point %s raises' % pt)
                    continue
                got = sp.N(hit.value.xreplace(pt), 30)
                if not (got.is_number and abs(got - exp) < sp.Float('1e-20')):
                    problems.append('at %s%s returns %s, log-density is %s' % ({str(k): str(v) for k, v in pt.items() if str(k) != 'PRIOR'},
                                    (' when ' + ' / '.join(free)) if free else '', sp.N(got, 8) if got.is_number else got, sp.N(exp, 8)))
        ctx.evaluations = getattr(ctx, 'evaluations', 0) + len(points)
        ctx.ob('R16.1-density', fam, not problems and n_in == len(points), where,
               '%s returns log(%s) inside the support, far tails included (the density is positive there, however small)' % (meth, density),
               '; '.join(problems[:3]))


def check_support(ctx, cls):
    for fam, scs in scenarios().items():
        f = method(cls, FAMILIES[fam])
        where = ctx.loc('pid_interfaces', f)
        xname = f.args.args[2].arg
        for label, xk, rels, k1, k2 in scs:
            rel = {}
            for (l, r), v in rels.items():
                rel[(xname if l == 'x' else l, r)] = v
            it = absint.Interp({xname: xk}, rel, {1: k1, 2: k2}, xname)
            env = {xname: xk, f.args.args[1].arg: K(POS)}
            res = it.run(f, env)
            bad = [(k & FINITE, node, dec) for k, node, dec in res.returns if k & FINITE]
            ctx.paths += len(res.returns) + len(res.raises)
            detail = ''
            if bad:
                k, node, dec = bad[0]
                detail = 'with %s the return at %s may be finite (%s) on path [%s]' % (
                    label, ctx.loc('pid_interfaces', node), '/'.join(sorted(k)), ' ; '.join(dec))
                if fam in ('gamma', 'beta'):
                    detail += ' - witness: integer shape parameters make the negative base to a power finite and positive'
            ctx.ob('R16.2-support', '%s/%s' % (fam, label), not bad and (res.returns or res.raises), where,
                   'with %s no path of %s returns a finite value (inf, NaN or an exception reject the value)' % (label, FAMILIES[fam]), detail)


MUTATORS = ('remove', 'pop', 'append', 'insert', 'clear', 'extend', 'sort', 'reverse', 'update', 'popitem', 'setdefault', '__setitem__', '__delitem__')


def prior_mutations(ctx, mod_tree):
    """Stores into the prior dictionary the caller handed in, or into one of its specification lists, anywhere in pid_interfaces.py.
    Taint: 'C' the dictionary itself (`prior`, `self.prior`, aliases), 'S' a shallow copy of it (own container, shared lists),
    'E' one specification list (an item of C or S)."""
    found = []
    for fn_ in [x for x in ast.walk(mod_tree) if isinstance(x, ast.FunctionDef)]:
        taint = {'self.prior': 'C'}
        for a_ in fn_.args.args:
            if a_.arg in ('prior', 'prior_dict'):
                taint[a_.arg] = 'C'

        def level(n):
            t = src(n).replace(' ', '')
            if t in taint:
                return taint[t]
            if isinstance(n, ast.Subscript) and level(n.value) in ('C', 'S'):
                return 'E' if not isinstance(n.slice, ast.Slice) else None
            if isinstance(n, ast.Call) and isinstance(n.func, ast.Attribute) and n.func.attr == 'get' and level(n.func.value) in ('C', 'S'):
                return 'E'
            if isinstance(n, ast.Call) and isinstance(n.func, ast.Attribute) and n.func.attr == 'copy' and level(n.func.value) == 'C':
                return 'S'
            if isinstance(n, ast.Call) and src(n.func) in ('dict', 'OrderedDict', 'copy.copy') and len(n.args) == 1 and level(n.args[0]) in ('C', 'S'):
                return 'S'
            return None
        for _ in range(3):      # a few passes: aliases defined after use in loops
            for n in ast.walk(fn_):
                if isinstance(n, ast.Assign) and len(n.targets) == 1 and isinstance(n.targets[0], (ast.Name, ast.Attribute)):
                    lv = level(n.value)
                    if lv is not None and src(n.targets[0]).replace(' ', '') != 'self.prior':
                        taint[src(n.targets[0]).replace(' ', '')] = lv
                if isinstance(n, (ast.For, ast.comprehension)):
                    it = n.iter
                    if isinstance(it, ast.Call) and isinstance(it.func, ast.Attribute) and level(it.func.value) in ('C', 'S'):
                        if it.func.attr == 'items' and isinstance(n.target, ast.Tuple) and len(n.target.elts) == 2:
                            taint[src(n.target.elts[1])] = 'E'
                        elif it.func.attr == 'values' and isinstance(n.target, ast.Name):
                            taint[n.target.id] = 'E'
        for n in ast.walk(fn_):
            if isinstance(n, ast.Call) and isinstance(n.func, ast.Attribute) and n.func.attr in MUTATORS and level(n.func.value) in ('C', 'E'):
                found.append('%s(): `%s` changes the %s (%s)' % (fn_.name, src(n)[:60], 'prior dictionary' if level(n.func.value) == 'C' else
                                                               "caller's prior specification", ctx.loc('pid_interfaces', n)))
            if isinstance(n, (ast.Assign, ast.AugAssign)):
                for t in (n.targets if isinstance(n, ast.Assign) else [n.target]):
                    if isinstance(t, ast.Subscript) and level(t.value) in ('C', 'E'):
                        found.append('%s(): `%s` stores into the %s (%s)' % (fn_.name, util.stmt_key(n)[:60], 'prior dictionary' if level(t.value) == 'C'
                                                                            else "caller's prior specification", ctx.loc('pid_interfaces', n)))
            if isinstance(n, ast.Delete):
                for t in n.targets:
                    if isinstance(t, ast.Subscript) and level(t.value) in ('C', 'E'):
                        found.append('%s(): `%s` (%s)' % (fn_.name, util.stmt_key(n)[:60], ctx.loc('pid_interfaces', n)))
    return found


def positive_set_attr(cls, attr):
    """is self.<attr> assigned exactly once in the class, to the set / list of the names whose prior specification carries 'positive'
    (a comprehension over prior.items())?"""
    defs = [n for n in ast.walk(cls) if isinstance(n, ast.Assign) and any(src(t).replace(' ', '') == 'self.%s' % attr for t in n.targets)]
    others = [n for n in ast.walk(cls) if isinstance(n, ast.Call) and isinstance(n.func, ast.Attribute) and src(n.func.value).replace(' ', '') == 'self.%s' % attr
              and n.func.attr in MUTATORS + ('add', 'discard')]
    # (`x = A if c else set()` reaches this rule in statement form: the empty alternative is not a second source of names)
    defs = [d for d in defs if src(d.value).replace(' ', '') not in ('set()', '[]', '()', 'frozenset()')]
    if len(defs) != 1 or others:
        return False
    v = defs[0].value
    if isinstance(v, ast.IfExp) and src(v.orelse).replace(' ', '') in ('set()', '[]', '()', 'frozenset()') and \
            util.canon_test(v.test).replace(' ', '') in ('priorisnotNone', 'self.priorisnotNone'):  # canon_test keeps the blank inside 
        v = v.body      # no prior dictionary: no flagged names
    if isinstance(v, ast.Call) and src(v.func) in ('set', 'frozenset', 'list', 'tuple') and len(v.args) == 1:
        v = v.args[0]
    if not isinstance(v, (ast.SetComp, ast.ListComp, ast.GeneratorExp)) or len(v.generators) != 1:
        return False
    g = v.generators[0]
    if not (isinstance(g.iter, ast.Call) and isinstance(g.iter.func, ast.Attribute) and g.iter.func.attr == 'items'
            and src(g.iter.func.value).replace(' ', '') in ('prior', 'self.prior') and isinstance(g.target, ast.Tuple) and len(g.target.elts) == 2):
        return False
    kv, vv = src(g.target.elts[0]), src(g.target.elts[1])
    conds = [util.canon_test(c).replace(' ', '') for c in g.ifs]
    return src(v.elt) == kv and conds in (["'positive'in%s" % vv], ["'positive'in%s[1:]" % vv])


def check_hyperparameters_as_given(ctx, cls):
    """The densities are computed from the hyper-parameters the user wrote (Python numbers): they are not packed into a NumPy array on the
    way - an all-integer specification would become fixed-width integers, whose powers (rate ** shape) wrap around silently."""
    bad = []
    for fn_ in [x for x in cls.body if isinstance(x, ast.FunctionDef)]:
        for c in ast.walk(fn_):
            if isinstance(c, ast.Call) and src(c.func).replace(' ', '') in ('np.array', 'np.asarray', 'numpy.array', 'numpy.asarray', 'np.fromiter') and c.args:
                a0 = src(c.args[0])
                kw = {k_.arg: src(k_.value) for k_ in c.keywords}
                if ('prior' in a0) and kw.get('dtype', '').replace('np.', '').replace("'", '') not in ('float', 'float64', 'double'):
                    bad.append('%s(): `%s` (%s)' % (fn_.name, src(c)[:60], ctx.loc('pid_interfaces', c)))
    f = method(cls, 'check_prior')
    ctx.ob('R16.1-density', 'hyperparameters-as-given', not bad, ctx.loc('pid_interfaces', f),
           'prior hyper-parameters reach the density formulas as the numbers given, not through an integer-typed NumPy array', '; '.join(bad[:2]))


def check_aggregation(ctx, cls):
    f = method(cls, 'check_prior')
    where = ctx.loc('pid_interfaces', f)
    # the prior dictionary belongs to the caller (it is handed to every interface built for a run): nothing in the module changes it
    # or the specification lists in it
    muts = prior_mutations(ctx, ctx.prog.mod('pid_interfaces').tree)
    ctx.ob('R16.3-aggregation', 'prior-untouched', not muts, where,
           "no method changes the caller's prior dictionary or a specification list in it (a second interface built from the same "
           'dictionary sees the same priors and flags)', '; '.join(muts[:3]))
    # the prior of a parameter is looked up by the parameter's name: the dictionary is never walked by position alongside another sequence
    positional = []
    for fn_ in [x for x in cls.body if isinstance(x, ast.FunctionDef)]:
        for n_ in ast.walk(fn_):
            if isinstance(n_, ast.Call) and isinstance(n_.func, ast.Attribute) and n_.func.attr in ('values', 'items') and \
                    src(n_.func.value) in ('self.prior', 'prior_dict'):
                par = getattr(n_, '_parent', None)
                if n_.func.attr == 'values' or (isinstance(par, ast.Call) and src(par.func) in ('zip', 'enumerate')):
                    positional.append('%s(): %s (%s)' % (fn_.name, src(par if isinstance(par, ast.Call) else n_)[:70], ctx.loc('pid_interfaces', n_)))
    ctx.ob('R16.3-aggregation', 'by-name', not positional, where,
           "a parameter's prior specification is taken from the prior dictionary under the parameter's own name (never paired by position)",
           '; '.join(positional[:2]))
    # the loops over the parameters: the one that accumulates the sum, and possibly screening loops in front of it
    ploops = [s for s in f.body if isinstance(s, ast.For) and src(s.iter) == '%s.items()' % f.args.args[1].arg
              and isinstance(s.target, ast.Tuple) and len(s.target.elts) == 2]
    main = [l_ for l_ in ploops if any(isinstance(n_, ast.AugAssign) and isinstance(n_.op, ast.Add) for n_ in ast.walk(l_))]
    problems = []
    if len(main) != 1 or [s for s in f.body if isinstance(s, ast.For) and s not in ploops]:
        raise AnalysisError('check_prior: loop over the parameters not found')
    lp = main[0]
    screens = [l_ for l_ in ploops if l_ is not lp]
    if any(f.body.index(l_) > f.body.index(lp) for l_ in screens):
        raise AnalysisError('check_prior: a loop over the parameters follows the summation')
    kv, vv = [src(e) for e in lp.target.elts]
    k_ = lambda t: t.replace(' ', '')
    spec = 'self.prior[%s]' % kv

    def body_defs(loop):
        bf = ast.FunctionDef(name='_body', args=ast.arguments(posonlyargs=[], args=[], kwonlyargs=[], kw_defaults=[], defaults=[]),
                             body=loop.body, decorator_list=[], type_params=[])
        return bf, {n_: v_ for n_, v_ in util.single_defs(bf).items() if v_ is not None}
    # aliases defined once inside the loop body (`prior_spec = self.prior[key]`, `prior_type = prior_spec[0]`) are read through
    body_fn, defs = body_defs(lp)
    # the rejections: the `return np.inf` statements of the loops, each with the conditions under which it runs (nested ifs and
    # conjunctions are the same thing here)
    flagged, extra = [], []
    for loop in ploops:
        _, ldefs = body_defs(loop)
        lk, lv = [src(e) for e in loop.target.elts]
        for r_ in [n_ for b_ in loop.body for n_ in ast.walk(b_) if isinstance(n_, ast.Return) and n_.value is not None
                   and k_(src(n_.value)) in ('np.inf', 'numpy.inf')]:
            tests = []
            cur = r_
            top = r_
            while getattr(cur, '_parent', None) is not None and cur is not loop:
                par = cur._parent
                if isinstance(par, ast.If):
                    tests.append(par.test if cur in par.body else ast.UnaryOp(op=ast.Not(), operand=par.test))
                if par is not loop:
                    top = par
                cur = par
            flat = []
            for t in tests:
                t = util.inline(t, ldefs)
                flat += list(t.values) if isinstance(t, ast.BoolOp) and isinstance(t.op, ast.And) else [t]
            conj = sorted(k_(util.canon_test(v)) for v in flat)
            (flagged if any('positive' in c_ for c_ in conj) else extra).append((loop, r_, top, conj, lk, lv))
    ok_pos = False
    pos_detail = ''
    if len(flagged) == 1:
        loop, r_, top, conj, lk, lv = flagged[0]
        lspec = 'self.prior[%s]' % lk
        ok_pos = conj in (sorted(["'positive'in%s" % lspec, '%s<0' % lv]), sorted(["'positive'in%s[1:]" % lspec, '%s<0' % lv]))
        if not ok_pos and len(conj) == 2 and '%s<0' % lv in conj:
            # the flag looked up in a set of names computed once from the prior specifications
            other = [c_ for c_ in conj if c_ != '%s<0' % lv][0]
            if other.startswith('%sinself.' % lk) and other[len('%sinself.' % lk):].isidentifier():
                ok_pos = positive_set_attr(cls, other[len('%sinself.' % lk):])
        pos_detail = '' if ok_pos else 'rejection test is %s' % ' and '.join(conj)
        # nothing between the loop head and the rejection may return or add to the sum
        if top in loop.body:
            before = loop.body[:loop.body.index(top)]
            if any(isinstance(x, (ast.Return, ast.AugAssign)) for b in before for x in ast.walk(b)):
                ok_pos = False
                pos_detail = 'the family is consulted before the positive flag'
        else:
            ok_pos = False
            pos_detail = 'the rejection is not a statement of the loop over the parameters'
    else:
        pos_detail = '%d rejection tests on the positive flag found' % len(flagged)
    ctx.ob('R16.3-aggregation', 'positive-flag', ok_pos, where,
           "a negative value under the 'positive' flag of *this* parameter is rejected before the family is consulted", pos_detail)
    # "the log-prior of a parameter vector is the sum over parameters": what check_prior returns on the normal exit is the running sum
    # itself, unconditionally - nothing between the loop and the return inspects, clips or replaces it
    accs0 = sorted({src(n_.target) for n_ in ast.walk(lp) if isinstance(n_, ast.AugAssign) and isinstance(n_.op, ast.Add) and isinstance(n_.target, ast.Name)})
    after = f.body[f.body.index(lp) + 1:]
    after = [s_ for s_ in after if not (isinstance(s_, ast.Expr) and isinstance(s_.value, ast.Constant))]
    sum_problems = []
    if len(accs0) != 1:
        sum_problems.append('running sums found: %s' % accs0)
    else:
        if not (len(after) == 1 and isinstance(after[0], ast.Return) and after[0].value is not None and src(after[0].value) == accs0[0]):
            sum_problems.append('after the loop over the parameters: %s (expected only `return %s`)' % ('; '.join(util.stmt_key(s_)[:70] for s_ in after) or 'nothing', accs0[0]))
        init = [s_ for s_ in f.body[:f.body.index(lp)] if isinstance(s_, ast.Assign) and src(s_.targets[0]) == accs0[0]]
        if len(init) != 1 or util.const_num(init[0].value) != 0:
            sum_problems.append('the sum does not start at 0')
        for n_ in ast.walk(lp):
            if isinstance(n_, ast.Assign) and any(src(t_) == accs0[0] for t_ in n_.targets):
                sum_problems.append('the sum is overwritten inside the loop: %s' % util.stmt_key(n_)[:70])
    ctx.ob('R16.3-aggregation', 'sum-returned', not sum_problems, where,
           'check_prior returns the sum of the per-parameter log-priors, started at 0, unconditionally and unchanged', '; '.join(sum_problems))
    # the verdict on one parameter must not depend on the parameters seen before it: apart from the running sum, no variable written in
    # the loop body may be read in a later iteration before it is written again
    assigned = set()
    for n_ in ast.walk(body_fn):
        if isinstance(n_, (ast.Assign, ast.AugAssign, ast.AnnAssign)):
            for t_ in (n_.targets if isinstance(n_, ast.Assign) else [n_.target]):
                for x in ast.walk(t_):
                    if isinstance(x, ast.Name) and isinstance(x.ctx, ast.Store):
                        assigned.add(x.id)
    accs = {src(n_.target) for n_ in ast.walk(body_fn) if isinstance(n_, ast.AugAssign) and isinstance(n_.op, ast.Add) and isinstance(n_.target, ast.Name)}
    reads, _ = paths.definite_assignment(lp.body, {kv, vv}, assigned - accs)
    for loop in screens:
        la = set()
        for n_ in ast.walk(loop):
            if isinstance(n_, (ast.Assign, ast.AugAssign, ast.AnnAssign)):
                for t_ in (n_.targets if isinstance(n_, ast.Assign) else [n_.target]):
                    for x in ast.walk(t_):
                        if isinstance(x, ast.Name) and isinstance(x.ctx, ast.Store):
                            la.add(x.id)
        r2, _ = paths.definite_assignment(loop.body, {src(e) for e in loop.target.elts}, la)
        reads = list(reads) + list(r2)
    carried = sorted({n_ for n_, _ in reads})
    if extra and not carried:
        # a further rejection that depends on the parameter at hand only: whether it is right is a question about the family's support,
        # which the density and support rules (R16.1 / R16.2, evaluated through check_prior's callees) answer - not this rule
        ctx.note('check_prior rejects values under further conditions (%s): left to the density / support rules' % ' and '.join(extra[0][3]))
    ctx.ob('R16.3-aggregation', 'per-parameter', not carried, where,
           'what is decided for one parameter depends on that parameter only: no variable other than the running sum is carried from one '
           'loop iteration into the next', '' if not carried else 'carried across iterations: %s (first read at %s)' % (
               ', '.join(carried), ctx.loc('pid_interfaces', reads[0][1])))
    var = None
    for s_ in lp.body:
        if isinstance(s_, ast.Assign) and len(s_.targets) == 1 and isinstance(s_.targets[0], ast.Name) and \
                k_(src(util.inline(s_.value, {a: b for a, b in defs.items() if a != s_.targets[0].id}))) == '%s[0]' % spec:
            var = s_.targets[0].id
    if var is None:
        if positional:
            return          # reported above; the by-name dispatch this rule describes is not there to analyse
        raise AnalysisError('check_prior: family name not read from position 0')
    disp = util.string_dispatch(lp.body, var)
    if disp is None:
        raise AnalysisError('check_prior: dispatch not found')
    table, other, node = disp
    acc = None
    for fam, meth in FAMILIES.items():
        body = table.get(fam)
        t = [util.stmt_key(s).replace(' ', '') for s in (body or [])]
        if len(t) != 1 or not t[0].endswith('+=self.%s(%s,%s)' % (meth, kv, vv)):
            problems.append("'%s' is handled by %s" % (fam, t))
        else:
            acc = t[0].split('+=')[0]
    if other is None or not any(isinstance(s, ast.Raise) for s in other):
        problems.append('an unknown family name does not raise')
    ctx.ob('R16.3-aggregation', 'dispatch', not problems, where, 'each family name adds the log-prior of the function of the same family; unknown names raise', '; '.join(problems))
    pre = [util.stmt_key(s).replace(' ', '') for s in f.body]
    rets = [s for s in f.body if isinstance(s, ast.Return)]
    ok = acc is not None and ('%s=0.0' % acc in pre or '%s=0' % acc in pre) and len(rets) == 1 and src(rets[0].value) == acc and \
        not any(isinstance(x, (ast.Break, ast.Continue)) for x in ast.walk(lp))
    ctx.ob('R16.3-aggregation', 'sum', ok, where, 'the log-prior of a vector is the sum over all parameters, starting from 0', '')


def check_rejection(ctx):
    m = ctx.prog.mod('pid_interfaces')
    for cname in ('StochasticInference', 'DeterministicInference'):
        cls = [n for n in m.tree.body if isinstance(n, ast.ClassDef) and n.name == cname]
        if not cls:
            raise AnalysisError('anchor vanished: %s' % cname)
        f = method(cls[0], 'get_likelihood_function')
        ctx.functions.add('pid_interfaces:%s.get_likelihood_function' % cname)
        en = paths.Enumerator()
        ps = en.run(f.body, paths.State())
        ctx.paths += len(ps)
        problems = []
        seen_reject = False
        for p in ps:
            if p.exit == 'raise':
                continue
            stm = p.stmts()
            i_prior = paths.index_of(p, lambda e: e.kind == 'stmt' and paths.stmt_calls(e.node, 'check_prior'))
            i_model = paths.index_of(p, lambda e: e.kind == 'stmt' and (paths.stmt_calls(e.node, 'set_init_params') or paths.stmt_calls(e.node, 'py_log_likelihood')))
            tests = {util.canon_test(e.node).replace(' ', ''): e.info for e in p.events if e.kind == 'test'}
            if 'np.isfinite(lp)' in tests and 'notnp.isfinite(lp)' not in tests:
                tests['notnp.isfinite(lp)'] = not tests['np.isfinite(lp)']      # `if np.isfinite(lp): ... else: reject` is the same test
            if i_prior < 0:
                problems.append('a path returns without consulting the prior')
                continue
            if i_model >= 0 and i_model < i_prior:
                problems.append('the model is touched before the prior is checked')
            fin = tests.get('notnp.isfinite(lp)')
            if fin is None:
                problems.append('the prior value is not tested for finiteness')
            elif fin is True:
                seen_reject = True
                ret = p.events[-1].node
                if i_model >= 0 or not (isinstance(ret, ast.Return) and src(ret.value).replace(' ', '') == '-np.inf'):
                    problems.append('a non-finite prior does not return -inf at once')
        ctx.ob('R16.4-rejection-reaches-cost', cname, not problems and seen_reject, ctx.loc('pid_interfaces', f),
               'check_prior precedes every model access; a non-finite prior returns -inf without touching the model', '; '.join(sorted(set(problems))))


def check(ctx):
    ctx.prog.mod('pid_interfaces')
    cls = find_class(ctx)
    check_hyperparameters_as_given(ctx, cls)
    check_density(ctx, cls)
    check_support(ctx, cls)
    check_aggregation(ctx, cls)
    check_rejection(ctx)
    # "the log-prior of a parameter vector is the sum over parameters" of each parameter's own density at its own value: the sampler's
    # coordinates are attached to the estimated parameters name by name before check_prior sees them (C15 R15.5, by evaluation) - re-emitted
    from ..core import SubCtx
    from . import c15
    for m_ in ('inference_setup',):
        ctx.prog.mod(m_)
    sub = SubCtx(ctx)
    c15.check_evaluation(sub)
    for rule, key, ok, where, what, detail in sub.got:
        if rule == 'R15.5-function-of-theta' and key in ('DeterministicInference', 'StochasticInference'):
            ctx.ob('R16.3-aggregation', 'own-value/%s' % key, ok, where, what, detail)
    ctx.floor('R16.1-density', 7)
    ctx.floor('R16.2-support', 10)
    ctx.floor('R16.3-aggregation', 3)
