"""C02 - rate and rule expressions evaluate to their mathematical meaning (translation + node semantics).

R2.1 node semantics: every Term class computes the operator it stands for, in `evaluate` and in
`volume_evaluate`; `volume_evaluate` passes the volume down to every child (only VolumeTerm may
differ: 1 without a volume, the volume with one).
R2.2 translation table: sympy_recursion maps each parsed node kind to the Term class of that
operator with the operands in the right roles and every argument added.
R2.3 rejection: a name that is neither species, parameter, `volume` nor `t`, a node that is
neither a known operator nor a number, and a string that does not parse all end in an exception.
R2.4 the name classifier used when the model is built applies the same spelling substitutions
and clash table as the parser, and both strip one leading underscore.
What sympy.sympify returns for a given string is not decided.
"""
import ast

import sympy as sp

from .. import paths, symx, util
from ..front import AnalysisError, src
from .c01 import instantiate

EXPLANATION = __doc__
ASSUMPTIONS = ['sympy.sympify returns the tree the user wrote (third-party parser behaviour is outside the claim)',
               'the comparison used by Heaviside at exactly 0 is left open by the property']


def k(t):
    return t.replace(' ', '')


CHILD = sp.Function('E')
UNARY = {'ExpTerm': sp.exp, 'LogTerm': sp.log, 'AbsTerm': sp.Abs}
TABLE = {'Add': 'SumTerm', 'Mul': 'ProductTerm', 'Pow': 'PowerTerm', 'exp': 'ExpTerm', 'log': 'LogTerm', 'Heaviside': 'StepTerm',
         'Abs': 'AbsTerm', 'Max': 'MaxTerm', 'Min': 'MinTerm'}


def extract(ctx, cls, meth):
    prog = ctx.prog
    dc, f = prog.resolve_method(cls, meth)
    if f is None or dc == 'Term':
        raise AnalysisError('%s does not define %s' % (cls, meth))
    ctx.functions.add('types:%s.%s' % (dc, meth))
    a = [x.arg for x in f.args.args[1:]]
    vol = meth == 'volume_evaluate'
    want_args = a
    bad_calls = []

    syms = [sp.Symbol(x, real=True) for x in a]

    def call(n, env, se):
        if isinstance(n.func, ast.Attribute) and n.func.attr in ('evaluate', 'volume_evaluate'):
            recv = util.strip_cast(n.func.value)
            if isinstance(recv, ast.Name) and recv.id == 'self':
                return None     # the node's own other method: followed through the class table (its child calls come back here)
            got = [se.ex(x, env) for x in n.args]
            if vol:
                if n.func.attr != 'volume_evaluate':
                    bad_calls.append('child evaluated with %s inside %s (the volume is not passed down)' % (n.func.attr, meth))
                elif got != syms:
                    bad_calls.append('child evaluated at %s, expected %s' % (got, syms))
            else:
                # without a volume a child is evaluated at (species, params, time), or - the same thing - with volume 1
                unit = [syms[0], syms[1], sp.Integer(1), syms[2]]
                g_ = [sp.Integer(1) if (getattr(x, 'is_Number', False) and x == 1) else x for x in got]
                if not ((n.func.attr == 'evaluate' and got == syms) or (n.func.attr == 'volume_evaluate' and g_ == unit)):
                    bad_calls.append('child evaluated with %s at %s, expected evaluate at %s (or volume_evaluate at unit volume)' % (n.func.attr, got, syms))
            return CHILD(se.ex(recv, env))
        return None
    se = symx.SymExec(prog, cls, call=call)
    env = {}
    cases = se.run(f, env)
    return f, a, cases, bad_calls


def check_nodes(ctx):
    prog = ctx.prog
    terms = sp.Function('self.terms', positive=True)
    for cls in ('ConstantTerm', 'SpeciesTerm', 'ParameterTerm', 'VolumeTerm', 'TimeTerm', 'SumTerm', 'ProductTerm', 'PowerTerm', 'ExpTerm', 'LogTerm',
                'AbsTerm', 'StepTerm'):
        for meth in ('evaluate', 'volume_evaluate'):
            f, a, cases, bad = extract(ctx, cls, meth)
            where = ctx.loc('types', f)
            problems = list(bad)
            sp_, pa_, tm_ = a[0], a[1], a[-1]
            vol_ = a[2] if meth == 'volume_evaluate' else None
            size = [x for c in cases for x in c.value.atoms(sp.Function) if 'size' in str(x.func)]
            tab = {x: sp.Integer(3) for x in size}
            vals = [(c, instantiate(c.value, tab)) for c in cases]
            def one():
                if len(vals) != 1 or vals[0][0].conds:
                    problems.append('unexpected case split')
                    return None
                return vals[0][1]
            kids = [CHILD(symx.posfun('self.terms')(sp.Integer(i))) for i in range(3)]
            if cls == 'ConstantTerm':
                exp = sp.Symbol('self.value', real=True)
            elif cls == 'SpeciesTerm':
                exp = symx.posfun(sp_)(sp.Symbol('self.index', real=True))
            elif cls == 'ParameterTerm':
                exp = symx.posfun(pa_)(sp.Symbol('self.index', real=True))
            elif cls == 'VolumeTerm':
                exp = sp.Symbol(vol_, real=True) if vol_ else sp.Integer(1)
            elif cls == 'TimeTerm':
                exp = sp.Symbol(tm_, real=True)
            elif cls == 'SumTerm':
                exp = sum(kids)
            elif cls == 'ProductTerm':
                exp = kids[0] * kids[1] * kids[2]
            elif cls == 'PowerTerm':
                exp = CHILD(sp.Symbol('self.base', real=True)) ** CHILD(sp.Symbol('self.exponent', real=True))
            elif cls in UNARY:
                exp = UNARY[cls](CHILD(sp.Symbol('self.arg', real=True)))
            else:
                exp = None
            if cls == 'StepTerm':
                arg = CHILD(sp.Symbol('self.arg', real=True))
                # module-level numeric constants the test may mention (`EPS = 1e-9`) are put in; arguments close to 0 are tried too:
                # Heaviside(e) is 0 for every negative e, however small
                consts = {}
                for st_ in prog.mod('types').tree.body:
                    if isinstance(st_, ast.Assign) and len(st_.targets) == 1 and isinstance(st_.targets[0], ast.Name):
                        try:
                            cv_ = ast.literal_eval(st_.value)
                        except Exception:
                            continue
                        if isinstance(cv_, (int, float)) and not isinstance(cv_, bool):
                            consts[st_.targets[0].id] = sp.nsimplify(cv_, rational=True)

                def decide(cond, av):
                    v_ = cond.subs(arg, av)
                    v_ = v_.subs({x_: consts[str(x_)] for x_ in v_.free_symbols if str(x_) in consts})
                    if v_ in (sp.true, sp.false):
                        return bool(v_)
                    return None
                for av, want in ((2, 1), (-3, 0), (sp.Rational(-1, 10**15), 0), (sp.Rational(1, 10**15), 1)):
                    got = None
                    for c, v in vals:
                        ds_ = [decide(cond, av) for cond, t in c.conds]
                        if any(d_ is None for d_ in ds_):
                            problems.append('the step test %s depends on something other than the argument' % [str(cond) for cond, t in c.conds])
                            break
                        if all(d_ == t for d_, (cond, t) in zip(ds_, c.conds)):
                            got = v
                            break
                    if got is None or sp.simplify(got - want) != 0:
                        problems.append('argument %s gives %s, expected %s' % (av, got, want))
            else:
                got = one()
                if got is not None and sp.simplify(got - exp) != 0:
                    problems.append('computes %s, expected %s' % (got, exp))
            ctx.ob('R2.1-node-semantics', '%s.%s' % (cls, meth), not problems, where,
                   '%s.%s computes its operator over its children evaluated in the same mode' % (cls, meth), '; '.join(problems[:3]))
    # Max / Min folds
    for cls, ops in (('MaxTerm', (ast.Gt, ast.GtE)), ('MinTerm', (ast.Lt, ast.LtE))):
        for meth in ('evaluate', 'volume_evaluate'):
            dc, f = prog.resolve_method(cls, meth)
            ctx.functions.add('types:%s.%s' % (dc, meth))
            a = [x.arg for x in f.args.args[1:]]
            problems = []
            if dc != cls:
                problems.append('%s does not override %s' % (cls, meth))
            else:
                childcall = "__cast__('Term',self.terms[%s])." + meth + '(' + ','.join(a) + ')'
                asg = {}
                for s in f.body:
                    if isinstance(s, ast.Assign) and isinstance(s.targets[0], ast.Name):
                        asg.setdefault(s.targets[0].id, k(src(s.value)))
                loops = [s for s in f.body if isinstance(s, ast.For)]
                rets = [s for s in f.body if isinstance(s, ast.Return)]
                if len(loops) != 1 or len(rets) != 1:
                    problems.append('fold structure not found')
                else:
                    lp = loops[0]
                    i = src(lp.target)
                    acc = src(rets[0].value)
                    if asg.get(acc) != childcall % '0':
                        problems.append('the fold starts from %s, not from child 0' % asg.get(acc))
                    if k(src(lp.iter)) != 'range(1,self.terms.size())':
                        problems.append('the fold runs over %s, not over children 1..n-1' % src(lp.iter))
                    body = lp.body
                    if len(body) != 2 or not isinstance(body[0], ast.Assign) or not isinstance(body[1], ast.If) or body[1].orelse:
                        problems.append('fold body is not `temp = child i; if temp <op> ans: ans = temp`')
                    else:
                        tmp = src(body[0].targets[0])
                        if k(src(body[0].value)) != childcall % i:
                            problems.append('folded value is %s' % src(body[0].value))
                        t = body[1].test
                        okc = isinstance(t, ast.Compare) and len(t.ops) == 1 and ((src(t.left) == tmp and src(t.comparators[0]) == acc and isinstance(t.ops[0], ops)) or
                                                                                    (src(t.left) == acc and src(t.comparators[0]) == tmp and isinstance(t.ops[0], tuple(
                                                                                        {ast.Gt: ast.Lt, ast.GtE: ast.LtE, ast.Lt: ast.Gt, ast.LtE: ast.GtE}[o] for o in ops))))
                        if not okc:
                            problems.append('the comparison `%s` does not select the %s' % (src(t), 'maximum' if cls == 'MaxTerm' else 'minimum'))
                        if [k(util.stmt_key(x)) for x in body[1].body] != ['%s=%s' % (acc, tmp)]:
                            problems.append('the selected value is not kept')
            ctx.ob('R2.1-node-semantics', '%s.%s' % (cls, meth), not problems, ctx.loc('types', f),
                   '%s.%s folds all children with %s, each evaluated in the same mode' % (cls, meth, 'max' if cls == 'MaxTerm' else 'min'), '; '.join(problems))
    # setters
    for cls, m_, fld in (('PowerTerm', 'set_base', 'base'), ('PowerTerm', 'set_exponent', 'exponent'), ('ExpTerm', 'set_arg', 'arg'), ('LogTerm', 'set_arg', 'arg'),
                         ('StepTerm', 'set_arg', 'arg'), ('AbsTerm', 'set_arg', 'arg')):
        f = ctx.fn('types:%s.%s' % (cls, m_))
        ok = [k(util.stmt_key(s)) for s in f.body] == ['self.%s=%s' % (fld, f.args.args[1].arg)]
        ctx.ob('R2.1-setters', '%s.%s' % (cls, m_), ok, ctx.loc('types', f), '%s stores its operand in the field %s' % (m_, fld), '')
    f = ctx.fn('types:BinaryTerm.add_term')
    t = [k(util.stmt_key(s)) for s in f.body]
    a = f.args.args[1].arg
    ctx.ob('R2.1-setters', 'BinaryTerm.add_term', t == ["self.terms.push_back(__cast__('void*',%s))" % a, 'self.terms_list.append(%s)' % a], ctx.loc('types', f),
           'add_term appends the child to the evaluated vector (and its list twin)', str(t))


def check_translation(ctx):
    f = ctx.fn('types:sympy_recursion')
    where = ctx.loc('types', f)
    tree, s2i, p2i = [x.arg for x in f.args.args]
    chain = [s for s in f.body if isinstance(s, ast.If)]
    if len(chain) != 1:
        raise AnalysisError('sympy_recursion: dispatch chain not found')
    branches = {}
    other = None
    for test, body in util.if_chain(chain[0]):
        if test is None:
            other = body
            continue
        t = k(src(test))
        if t.startswith('type(%s)==sympy.' % tree):
            branches[t.split('sympy.')[1]] = body
    asg = {k(util.stmt_key(s)) for s in f.body}
    if 'args=%s.args' % tree in asg:
        A = 'args'
    elif not any(isinstance(n_, ast.Name) and n_.id == 'args' and isinstance(n_.ctx, ast.Store) for n_ in ast.walk(f)):
        A = '%s.args' % tree        # the argument tuple read in place (also the normal form with the temporary read through)
    else:
        raise AnalysisError('sympy_recursion: args is not the node argument tuple')
    rec = 'sympy_recursion(%s,' + s2i + ',' + p2i + ')'
    for kind, cls in TABLE.items():
        body = branches.get(kind)
        problems = []
        if body is None:
            problems.append('no branch for sympy.%s' % kind)
        else:
            defs = {n_: v_ for n_, v_ in util.single_defs(f).items() if isinstance(v_, ast.Call) and src(v_.func) == 'sympy_recursion'}
            t = [k(src(util.inline(s, defs))) for s in body
                 if not (isinstance(s, ast.Assign) and isinstance(s.targets[0], ast.Name) and s.targets[0].id in defs)]
            var = None
            for s in body:
                if isinstance(s, ast.Assign) and isinstance(s.value, ast.Call) and src(s.value.func).endswith('Term') and not s.value.args:
                    var = src(s.targets[0])
                    if src(s.value.func) != cls:
                        problems.append('sympy.%s builds a %s' % (kind, src(s.value.func)))
            # one node per branch, whatever the arguments look like: the meaning of a node does not depend on the form of its operand
            made = [c_ for s_ in body for c_ in ast.walk(s_) if isinstance(c_, ast.Call) and src(c_.func).endswith('Term') and not c_.args
                    and src(c_.func)[:1].isupper()]
            rets = [r_ for s_ in body for r_ in ast.walk(s_) if isinstance(r_, ast.Return)]
            if len(made) > 1:
                problems.append('the branch builds %d nodes (%s): the translation depends on the form of the operand'
                                % (len(made), ', '.join(sorted({src(c_.func) for c_ in made}))))
            if len(rets) > 1:
                problems.append('the branch returns from %d places' % len(rets))
            if cls not in ('SumTerm', 'ProductTerm', 'MaxTerm', 'MinTerm') and any(isinstance(x_, (ast.If, ast.For, ast.While)) for s_ in body for x_ in ast.walk(s_)):
                problems.append('the branch is not straight-line code (the node built depends on a condition)')
            if var is None:
                problems.append('no node created')
            else:
                if t[-1] != 'return%s' % var:
                    problems.append('does not return the node it built')
                if cls in ('SumTerm', 'ProductTerm', 'MaxTerm', 'MinTerm'):
                    loops = [s for s in body if isinstance(s, ast.For)]
                    ok_loop = False
                    if len(loops) == 1:
                        lp_ = loops[0]
                        it_ = k(src(lp_.iter))
                        elem_ = src(lp_.target) if it_ == A else ('%s[%s]' % (A, src(lp_.target)) if it_ == 'range(len(%s))' % A else None)
                        # the element may be translated into a named temporary first
                        wrap_ = ast.FunctionDef(name='_b', args=ast.arguments(posonlyargs=[], args=[], kwonlyargs=[], kw_defaults=[], defaults=[]),
                                                body=lp_.body, decorator_list=[], type_params=[])
                        ld_ = {n_: v_ for n_, v_ in util.single_defs(wrap_).items() if v_ is not None}
                        eff_ = [k(src(util.inline(x, ld_))) for x in lp_.body
                                if not (isinstance(x, ast.Assign) and isinstance(x.targets[0], ast.Name) and x.targets[0].id in ld_)]
                        ok_loop = elem_ is not None and eff_ == ['%s.add_term(%s)' % (var, rec % elem_)]
                    if not ok_loop:
                        problems.append('not every argument is translated and added')
                elif cls == 'PowerTerm':
                    if '%s.set_base(%s)' % (var, rec % (A + '[0]')) not in t or '%s.set_exponent(%s)' % (var, rec % (A + '[1]')) not in t:
                        problems.append('base/exponent are not args[0]/args[1]: %s' % t)
                else:
                    if '%s.set_arg(%s)' % (var, rec % (A + '[0]')) not in t:
                        problems.append('the argument is not args[0]: %s' % t)
        ctx.ob('R2.2-translation', kind, not problems, where, 'sympy.%s becomes a %s with its operands in the right roles' % (kind, cls), '; '.join(problems))
    # R2.3 rejection
    body = branches.get('Symbol')
    problems = []
    if body is None:
        problems.append('no Symbol branch')
    else:
        en = paths.Enumerator()
        ps = en.run(body, paths.State())
        ctx.paths += len(ps)
        seen = set()
        for p in ps:
            tests = [(k(src(e.node)), e.info) for e in p.events if e.kind == 'test']
            last = p.events[-1].node
            if p.exit == 'raise':
                seen.add('raise')
                continue
            if p.exit != 'return':
                problems.append('a path leaves the Symbol branch without a node or an exception')
                continue
            v = k(src(last.value))
            true_tests = [t for t, info in tests if info]
            if v == 'SpeciesTerm(%s[name])' % s2i:
                ok = 'namein%s' % s2i in true_tests
                seen.add('species')
            elif v == 'ParameterTerm(%s[name])' % p2i:
                ok = 'namein%s' % p2i in true_tests
                seen.add('parameter')
            elif v == 'VolumeTerm()':
                ok = "name=='volume'" in true_tests
                seen.add('volume')
            elif v == 'TimeTerm()':
                ok = "name=='t'" in true_tests
                seen.add('time')
            else:
                ok = False
            if not ok:
                problems.append('returns %s under the tests %s' % (v, true_tests))
        if seen != {'raise', 'species', 'parameter', 'volume', 'time'}:
            problems.append('outcomes %s' % sorted(seen))
        t = [k(util.stmt_key(s)) for s in body]
        if 'name=str(%s)' % tree not in t:
            problems.append('the name is not the symbol itself')
    ctx.ob('R2.3-rejection', 'unknown-name', not problems, where,
           'a symbol is looked up in the matching dictionary (species / parameter / volume / t) or rejected with an exception', '; '.join(sorted(set(problems))[:3]))
    problems = []
    if other is None or len(other) != 1 or not isinstance(other[0], ast.Try):
        problems.append('no guarded numeric fallback')
    else:
        tr = other[0]
        # what the fallback returns: the constant term of the node's own numeric value - float() of the node or of its plain evalf(),
        # nothing that rounds, chops or rescales it
        wrap_ = ast.FunctionDef(name='_fallback', args=ast.arguments(posonlyargs=[], args=[], kwonlyargs=[], kw_defaults=[], defaults=[]),
                                body=tr.body, decorator_list=[], type_params=[])
        defs_ = {n_: v_ for n_, v_ in util.single_defs(wrap_).items() if v_ is not None}
        rets_ = [n_ for n_ in ast.walk(wrap_) if isinstance(n_, ast.Return)]
        accepted = (tree, '%s.evalf()' % tree, 'sympy.N(%s)' % tree, 'sp.N(%s)' % tree)
        for r_ in rets_:
            v_ = util.inline(r_.value, defs_) if r_.value is not None else None
            inner = v_.args[0] if isinstance(v_, ast.Call) and src(v_.func) == 'ConstantTerm' and len(v_.args) == 1 and not v_.keywords else None
            if not (isinstance(inner, ast.Call) and src(inner.func) == 'float' and len(inner.args) == 1 and k(src(inner.args[0])) in accepted):
                problems.append('a number becomes %s, not the constant term of its own value' % (src(v_) if v_ is not None else None))
        if not rets_ or any(not isinstance(s_, (ast.Assign, ast.Return)) for s_ in tr.body):
            problems.append('fallback is %s' % [util.stmt_key(s) for s in tr.body])
        if not tr.handlers or not all(any(isinstance(x, ast.Raise) for x in h.body) and not any(isinstance(x, ast.Return) for x in ast.walk(h)) for h in tr.handlers):
            problems.append('a non-numeric node is not rejected')
    ctx.ob('R2.3-rejection', 'unknown-node', not problems, where, 'a node that is neither a known operator nor a number raises', '; '.join(problems))
    g = ctx.fn('types:parse_expression')
    a = g.args.args[0].arg
    t = [k(util.stmt_key(s)) for s in g.body]
    tr = [s for s in g.body if isinstance(s, ast.Try)]
    problems = []
    call = None
    if len(tr) == 1 and len(tr[0].body) == 1 and isinstance(tr[0].body[0], ast.Assign) and src(tr[0].body[0].targets[0]) == 'parse_tree' \
            and isinstance(tr[0].body[0].value, ast.Call) and src(tr[0].body[0].value.func) == 'sympy.sympify' \
            and tr[0].body[0].value.args and src(tr[0].body[0].value.args[0]) == a:
        call = tr[0].body[0].value
    if call is None or not all(any(isinstance(x, ast.Raise) for x in h.body) for h in tr[0].handlers):
        problems.append('a string that does not parse is not rejected')
    # the namespace handed to sympy must be neutral: plain symbols without assumptions (the `_clash1` table), otherwise sympy rewrites
    # the formula while parsing (abs(x) -> x for a non-negative x, ...) and the translated tree is not the written one
    neutral = []
    if call is not None:
        ns = call.args[1] if len(call.args) > 1 else None
        for kw in call.keywords:
            if kw.arg == 'locals':
                ns = kw.value
            elif kw.arg not in ('evaluate',) or not (isinstance(kw.value, ast.Constant) and kw.value.value is True):
                neutral.append('sympify called with %s=%s' % (kw.arg, src(kw.value)))
        if ns is None:
            neutral.append('sympify is called without the clash table (names like E, I, S, N, Q would be read as sympy constants)')
        else:
            name = src(ns)
            if name != '_clash1':
                dfn = [x for x in ast.walk(g) if isinstance(x, ast.Assign) and any(src(t_) == name for t_ in x.targets)]
                stores = [x for x in ast.walk(g) if isinstance(x, (ast.Assign, ast.AugAssign)) and
                          any(isinstance(t_, ast.Subscript) and src(t_.value) == name for t_ in (x.targets if isinstance(x, ast.Assign) else [x.target]))]
                upd = [c_ for c_ in ast.walk(g) if isinstance(c_, ast.Call) and isinstance(c_.func, ast.Attribute) and src(c_.func.value) == name
                       and c_.func.attr in ('update', 'setdefault', 'pop', '__setitem__')]
                if not (isinstance(ns, ast.Name) and len(dfn) == 1 and k(src(dfn[0].value)) in ('dict(_clash1)', '_clash1.copy()', '_clash1')):
                    neutral.append('the namespace handed to sympify is %s, not the neutral symbol table _clash1' % name)
                elif stores or upd:
                    neutral.append('the namespace handed to sympify is modified (%s): symbols with assumptions or other objects make sympy rewrite the '
                                   'formula while parsing' % '; '.join(util.stmt_key(x) for x in (stores + [c_ for c_ in upd])[:2]))
    for c_ in ast.walk(g):
        if isinstance(c_, ast.Call) and isinstance(c_.func, ast.Attribute) and c_.func.attr in ('simplify', 'expand', 'factor', 'subs', 'doit', 'nsimplify', 'refine'):
            neutral.append('the parsed tree is transformed by %s before translation' % src(c_.func))
    ctx.ob('R2.3-parse-neutral', 'parse_expression', call is not None and not neutral, ctx.loc('types', g),
           'the string is parsed with the neutral symbol table only (no assumptions, no rewriting) before it is translated node by node',
           '; '.join(neutral))
    if t[-1] != 'returnsympy_recursion(parse_tree,%s,%s)' % (g.args.args[1].arg, g.args.args[2].arg):
        problems.append('the parsed tree is not what is translated')
    ctx.ob('R2.3-rejection', 'unparsable-string', not problems, ctx.loc('types', g), 'a string sympy cannot parse raises; the parsed tree is translated', '; '.join(problems))
    # R2.4
    h = ctx.fn('types:sympy_species_and_parameters')
    b = h.args.args[0].arg
    th = [k(util.stmt_key(s)) for s in h.body]
    def replace_pairs(fn):
        calls = [c for c in ast.walk(fn) if isinstance(c, ast.Call) and isinstance(c.func, ast.Attribute) and c.func.attr == 'replace'
                 and len(c.args) == 2 and all(isinstance(x, ast.Constant) for x in c.args)]
        calls.sort(key=lambda c: (c.end_lineno if hasattr(c, 'end_lineno') else c.lineno, -_depth(c)))
        return [(c.args[0].value, c.args[1].value) for c in calls if 'eaviside' not in str(c.args[0].value)]

    def _depth(c):
        d = 0
        x = c.func.value
        while isinstance(x, ast.Call) and isinstance(x.func, ast.Attribute):
            d += 1
            x = x.func.value
        return d
    subs_p, subs_c = replace_pairs(g), replace_pairs(h)
    ok = sorted(subs_p) == sorted(subs_c) == sorted([('^', '**'), ('|', '_')]) and 'root=sympy.sympify(%s,_clash1)' % b in th
    names = [s for s in h.body if isinstance(s, ast.Assign) and src(s.targets[0]) == 'names']
    ok2 = len(names) == 1 and "str(n)[1:]" in src(names[0].value) and "str(n)[0] == '_'" in src(names[0].value)
    sym = branches.get('Symbol') or []
    ok3 = any(isinstance(s, ast.If) and k(src(s.test)) == "name[0]=='_'" and [k(util.stmt_key(x)) for x in s.body] == ['name=name[1:]'] for s in sym)
    ctx.ob('R2.4-classifier-agreement', 'spelling', ok and ok2 and ok3, ctx.loc('types', h),
           "parser and name classifier apply '^'->'**', '|'->'_', the same clash table, and both accept one leading underscore", '')
    sp_ = [s for s in h.body if isinstance(s, ast.Assign) and src(s.targets[0]) in ('species_names', 'param_names')]
    def conj(n):
        if isinstance(n, ast.BoolOp) and isinstance(n.op, ast.And):
            out = set()
            for v in n.values:
                out |= conj(v)
            return out
        return {src(n)}
    ok = len(sp_) == 2 and "s in species2index" in src(sp_[0].value) and isinstance(sp_[1].value, ast.ListComp) and \
        len(sp_[1].value.generators[0].ifs) == 1 and \
        conj(sp_[1].value.generators[0].ifs[0]) == {"s not in species2index", "s != 'volume'", "s != 't'"}
    ctx.ob('R2.4-classifier-agreement', 'built-ins', ok, ctx.loc('types', h), "the classifier treats 'volume' and 't' as built-ins, like the parser", '')


def check_users(ctx):
    def ret_of(fn_):
        # the value returned, read through single-definition temporaries (`rate = ...; return rate`)
        g_ = util.inline_pure_temps(fn_)
        d_ = {n_: v_ for n_, v_ in util.single_defs(g_).items() if v_ is not None}
        r_ = [s_ for s_ in g_.body if isinstance(s_, ast.Return)]
        other = [s_ for s_ in g_.body if not isinstance(s_, (ast.Return, ast.AnnAssign)) and not (isinstance(s_, ast.Expr) and isinstance(s_.value, ast.Constant))
                 and not (isinstance(s_, ast.Assign) and isinstance(s_.targets[0], ast.Name) and s_.targets[0].id in d_)]
        if len(r_) != 1 or other:
            return None
        return k(src(util.inline(r_[0].value, d_)))
    f = ctx.fn('types:GeneralPropensity.get_propensity')
    a = [x.arg for x in f.args.args[1:]]
    ok = ret_of(f) == 'self.term.evaluate(%s)' % ','.join(a)
    ctx.ob('R2.1-users', 'GeneralPropensity.get_propensity', ok, ctx.loc('types', f), 'a general rate is the compiled expression at (state, params, time)', '')
    f = ctx.fn('types:GeneralPropensity.get_volume_propensity')
    a = [x.arg for x in f.args.args[1:]]
    ok = ret_of(f) == 'self.term.volume_evaluate(%s)' % ','.join(a)
    ctx.ob('R2.1-users', 'GeneralPropensity.get_volume_propensity', ok, ctx.loc('types', f), 'with a volume the expression sees that volume', '')
    f = ctx.fn('types:GeneralPropensity.initialize')
    t = [k(util.stmt_key(s)) for s in f.body]
    a = [x.arg for x in f.args.args[1:]]
    ok = ("instring=%s['rate']" % a[0] in t and 'self.term=parse_expression(instring,%s,%s)' % (a[1], a[2]) in t) or \
        "self.term=parse_expression(%s['rate'],%s,%s)" % (a[0], a[1], a[2]) in t
    ctx.ob('R2.1-users', 'GeneralPropensity.initialize', ok, ctx.loc('types', f), "the compiled expression is the parse of the 'rate' string over the model's dictionaries", '')


def check(ctx):
    for m in ('types', 'types.pxd'):
        ctx.prog.mod(m)
    check_nodes(ctx)
    check_translation(ctx)
    check_users(ctx)
    # rule right-hand sides: the plain slot evaluates the compiled expression without a volume ('volume' reads 1), the volume slot
    # evaluates it with the volume in play, for parameter and species targets alike (C09 R9.2) - re-emitted here
    from ..core import SubCtx
    from . import c09
    sub = SubCtx(ctx)
    c09.check_operations(sub)
    for rule, key, ok, where, what, detail in sub.got:
        if rule == 'R9.2-operation' and key.startswith('General'):
            ctx.ob('R2.1-users', key, ok, where, what + "; the right-hand side is evaluate(...) in the plain slot and volume_evaluate(..., volume, ...) in the volume slot", detail)
    # a name that is neither a species nor a declared parameter is registered as a parameter without a value; what rejects it when the
    # model is built is the NaN sentinel and the initialisation check (C03 R3.5) - re-emitted here
    from . import c03
    sub = SubCtx(ctx)
    c03.check_init(sub)
    for rule, key, ok, where, what, detail in sub.got:
        if rule == 'R3.5-initialisation-check':
            ctx.ob('R2.3-rejection', 'undefined-name/%s' % key, ok, where, what, detail)
    # growth laws are the third user of compiled expressions: the growth rate of a StateDependentVolume is its expression at the
    # (state, params, time) it is asked about (C11 R11.5) - re-emitted here
    from . import c11
    ctx.prog.mod('simulator'); ctx.prog.mod('simulator.pxd')
    sub = SubCtx(ctx)
    c11.check_growth(sub)
    n_g = 0
    for rule, key, ok, where, what, detail in sub.got:
        if rule == 'R11.5-growth-law' and key.startswith('StateDependentVolume'):
            ctx.ob('R2.1-users', 'growth-law/%s' % key, ok, where, what + '; the growth rate g is the compiled growth law at (state, params, time)', detail)
            n_g += 1
    if not n_g:
        raise AnalysisError('anchor vanished: growth law of StateDependentVolume')
    f = util.inline_pure_temps(ctx.fn('types:StateDependentVolume.setup'))
    a = [x.arg for x in f.args.args[1:]]
    st = [k(util.stmt_key(s_)) for s_ in f.body if isinstance(s_, ast.Assign) and k(src(s_.targets[0])) == 'self.growth_rate']
    ok = len(a) == 4 and st == ['self.growth_rate=%s.parse_general_expression(%s)' % (a[3], a[2])]
    ctx.ob('R2.1-users', 'growth-law/StateDependentVolume.setup', ok, ctx.loc('types', f),
           "the growth law is the model's parse of the string handed in, unchanged", str(st))
    f = util.inline_pure_temps(ctx.fn('types:Model.parse_general_expression'))
    a = [x.arg for x in f.args.args[1:]]
    body = [k(util.stmt_key(s_)) for s_ in f.body if not (isinstance(s_, ast.Expr) and isinstance(s_.value, ast.Constant))]
    ok = body == ['returnparse_expression(%s,self.species2index,self.params2index)' % a[0]]
    ctx.ob('R2.1-users', 'growth-law/Model.parse_general_expression', ok, ctx.loc('types', f),
           "parse_general_expression compiles the string over the model's species and parameter dictionaries", str(body))
    # "evaluates to the same real value as the written formula" whenever it is compiled and evaluated: compilation and evaluation
    # keep no state between calls (no cache of compiled trees, no memo in a node) - C08 R8.7, re-emitted here
    from . import c08
    for m_ in ('random', 'lineage', 'lineage.pxd', 'inference'):
        ctx.prog.mod(m_)
    sub = SubCtx(ctx)
    c08.check_pure_evaluation(sub)
    for rule, key, ok, where, what, detail in sub.got:
        if rule == 'R8.7-pure-evaluation' and key in ('methods', 'module-state'):
            ctx.ob('R2.1-users', '%s/%s' % (rule, key), ok, where, what, detail)
    ctx.floor('R2.1-users', 12)
    ctx.floor('R2.1-node-semantics', 28)
    ctx.floor('R2.2-translation', 9)
    ctx.floor('R2.3-rejection', 3)
