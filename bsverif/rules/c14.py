"""C14 - exported kinetic laws equal the model's own rate laws.

For every propensity type x {deterministic, stochastic} export, and for mass action every reactant
multiset of order <= 4, the kinetic-law string add_reaction builds is extracted as a template
(model-supplied ids and values are named holes) and
R14.1 identifier closure: every identifier in the template is a hole (a literal identifier in the
text is a symbol no SBML document defines);
R14.2 value: the template equals the model's rate law - the deterministic closed form, or the
falling-factorial form for a stochastic mass-action export (sympy, with witness);
R14.3 stoichiometry: reactant/product references get the multiplicity of each distinct species;
R14.5 mode forwarding: generate_sbml_model hands add_reaction the export's stochastic flag and the
reaction's own recorded fields for every reaction (shared with C12 R12.3).
R14.6 formula language: the libsbml parser that turns the rate string into MathML (identified at the call site, with its
settings) gives every function name of bioscrape's expression language (exp, log, abs, min, max, Heaviside) and the operator
grammar (unary minus vs ^, associativity of ^) the meaning bioscrape's own parser gives it.
R14.4 modifiers: every species a Hill/general law mentions that is neither reactant nor product
is declared as a modifier of the reaction.
R14.7 parameter values: the value written for a parameter is the model's value, unchanged (shared with C12 R12.3).
"""
import ast
import re

import sympy as sp

from .. import symx, templates, util
from ..front import AnalysisError, src
from ..templates import Hole
from . import c01

EXPLANATION = __doc__
ASSUMPTIONS = ['general rate strings are passed through as written (their value is C02)',
               'the libsbml parsers behave as documented (tables L3_LANG / LEGACY_LANG: log is log10 for the L3 parser unless '
               'L3ParserSettings.setParseLog says otherwise; the legacy parser binds unary minus tighter than ^)',
               'min/max MathML (SBML L3V2) is taken as defined']
HILLS = ['hillpositive', 'hillnegative', 'proportionalhillpositive', 'proportionalhillnegative']


def get_func(ctx, name):
    m = ctx.prog.mod('sbmlutil')
    for n in m.tree.body:
        if isinstance(n, ast.FunctionDef) and n.name == name:
            ctx.functions.add('sbmlutil:' + name)
            return n
    raise AnalysisError('anchor vanished: sbmlutil:%s' % name)


def build(f, ptype, stochastic, counts, delay=None, values=None, tracked=('ratestring',)):
    """Evaluate add_reaction on a sample reaction of the given type.  `values`: concrete values for propensity_params[key]
    (default: the named hole P_<key>); `delay`: the delay dictionary handed in.  The string handed to setAnnotation is kept
    in `ex.annotation`."""
    a = [x.arg for x in f.args.args]
    inputs = [Hole('S%d' % i) for i in range(len(counts))]

    def hole_sub(n, ex):
        if isinstance(n.value, ast.Name) and n.value.id == 'propensity_params' and isinstance(n.slice, ast.Constant):
            if values is not None and n.slice.value in values:
                return values[n.slice.value]
            return Hole('P_%s' % n.slice.value)
        return None

    def call(n, ex):
        t = src(n.func)
        if t.endswith('.getId') and isinstance(n.func.value, ast.Call) and src(n.func.value.func) == 'getSpeciesByName':
            v = ex.ev(n.func.value.args[1])
            return v if isinstance(v, Hole) else None
        if t.endswith('.setAnnotation') and len(n.args) == 1:
            ex.annotation = ex.ev(n.args[0])
        if isinstance(n.func, ast.Attribute) and n.func.attr in ('getListOfParameters', 'getListOfSpecies') and not n.args:
            return []       # the sample document: the reaction's own species and parameters are holes, nothing else is in it
        return None
    env = {'propensity_type': ptype, 'stochastic': stochastic, 'inputs': inputs, 'input_coefs': list(counts),
           'outputs': [], 'output_coefs': [], 'delay_annotation_dict': delay}
    ex = templates.StrExec(env, tracked=set(tracked), hole_for_subscript=hole_sub, call_hook=call,
                           frozen={'inputs', 'input_coefs', 'outputs', 'output_coefs', 'propensity_type', 'stochastic', 'delay_annotation_dict'})
    ex.annotation = None
    ex.run(f.body)
    if ex.aborted:
        raise AnalysisError('add_reaction raises for type %s: %s' % (ptype, ex.aborted))
    return ex.env.get('ratestring'), ex


IDENT = re.compile(r'[A-Za-z_][A-Za-z_0-9]*')


def parse(text):
    names = set(IDENT.findall(text))
    loc = {n: sp.Symbol(n, positive=True) for n in names}
    try:
        e = sp.sympify(text.replace('^', '**'), locals=loc)
    except Exception as ex:
        raise AnalysisError('kinetic-law template does not parse: %r (%s)' % (text, ex))
    return e, names


def spec(ptype, stochastic, counts):
    k = sp.Symbol('P_k', positive=True)
    if ptype == 'massaction':
        e = k
        for i, c in enumerate(counts):
            s = sp.Symbol('S%d' % i, positive=True)
            if stochastic:
                for j in range(c):
                    e = e * (s - j)
            else:
                e = e * s ** c
        return e
    s, K, n = sp.Symbol('P_s1', positive=True), sp.Symbol('P_K', positive=True), sp.Symbol('P_n', positive=True)
    if 'positive' in ptype:
        e = k * (s / K) ** n / (1 + (s / K) ** n)
    else:
        e = k / (1 + (s / K) ** n)
    if ptype.startswith('proportional'):
        e = e * sp.Symbol('P_d', positive=True)
    return e


def check_templates(ctx, f):
    where = ctx.loc('sbmlutil', f)
    # mass action
    for stochastic in (False, True):
        bad1, bad2 = None, None
        n = 0
        for counts in c01.multisets():
            text, ex = build(f, 'massaction', stochastic, counts)
            if not isinstance(text, str):
                raise AnalysisError('mass-action template not determined for %s' % (counts,))
            e, names = parse(text)
            holes = {'P_k'} | {'S%d' % i for i in range(len(counts))}
            n += 1
            if not names <= holes and bad1 is None:
                bad1 = (counts, text, sorted(names - holes))
            ok, wit = symx.equal(e, spec('massaction', stochastic, counts))
            if not ok and bad2 is None:
                bad2 = (counts, text, wit)
        mode = 'stochastic' if stochastic else 'deterministic'
        ctx.ob('R14.1-identifiers', 'massaction/%s' % mode, bad1 is None, where,
               'every identifier of the exported mass-action law is an exported species id or parameter',
               '' if bad1 is None else 'multiplicities %s: "%s" contains the undefined identifier(s) %s' % bad1)
        ctx.ob('R14.2-value', 'massaction/%s' % mode, bad2 is None, where,
               'the exported %s mass-action law equals %s for every reactant multiset of order <= 4 (%d multisets)'
               % (mode, 'k*prod (s)(s-1)...(s-m+1)' if stochastic else 'k*prod s^m', n),
               '' if bad2 is None else 'multiplicities %s: "%s"; witness %s' % bad2)
    for ptype in HILLS:
        texts = {}
        for stochastic in (False, True):
            text, ex = build(f, ptype, stochastic, (1,))
            if not isinstance(text, str):
                raise AnalysisError('%s template not determined' % ptype)
            texts[stochastic] = text
        if texts[False] != texts[True]:
            ctx.note('%s: deterministic and stochastic export differ: %r vs %r' % (ptype, texts[False], texts[True]))
        for stochastic, text in texts.items():
            if stochastic and text == texts[False]:
                continue
            suffix = '' if not stochastic else '/stochastic'
            e, names = parse(text)
            holes = {'P_k', 'P_K', 'P_n', 'P_s1', 'P_d', 'S0'}
            extra = sorted(names - holes)
            ctx.ob('R14.1-identifiers', ptype + suffix, not extra, where,
                   'every identifier of the exported %s law is an exported species id or parameter/value' % ptype,
                   '' if not extra else 'template "%s" contains the literal identifier(s) %s, which no SBML document defines' % (text, extra),
                   fp=str(e))
            ok, wit = symx.equal(e, spec(ptype, stochastic, (1,)))
            ctx.ob('R14.2-value', ptype + suffix, ok, where,
                   'the exported %s law equals the model rate %s' % (ptype, spec(ptype, False, (1,))),
                   '' if ok else 'template "%s" differs; witness %s' % (text, wit), fp=str(e))
    text, ex = build(f, 'general', False, (1,))
    ctx.ob('R14.2-value', 'general', isinstance(text, Hole) and text == 'P_rate', where,
           "a general rate is exported as written (only '**' -> '^')", 'template %r' % (text,))
    # the final spelling step and the parse
    txt = [util.stmt_key(s).replace(' ', '') for s in f.body]
    _, (_, _, pcall) = parser_at(ctx, 'add_reaction')
    par = getattr(pcall, '_parent', None)
    res = src(par.targets[0]) if isinstance(par, ast.Assign) and len(par.targets) == 1 else None
    ok = "ratestring=str(ratestring).replace('**','^')" in txt and pcall.args and src(pcall.args[0]) == 'ratestring' and res is not None and \
        any(t.endswith('ratelaw.setMath(%s)' % res) for t in txt)
    # after the per-type templates the string is only re-spelled ('**' -> '^'): no other rewriting of the finished text (a textual
    # replace cannot tell an identifier from a part of one)
    extra = []
    pstmt = pcall
    while not isinstance(pstmt, ast.stmt):
        pstmt = pstmt._parent
    if pstmt in f.body:
        disp_end = max([i for i, st in enumerate(f.body) if isinstance(st, ast.If) and 'propensity_type' in src(st.test)
                        and any(isinstance(n, (ast.Assign, ast.AugAssign)) and src((n.targets[0] if isinstance(n, ast.Assign) else n.target)) == 'ratestring'
                                for n in ast.walk(st))] or [-1])
        for st in f.body[disp_end + 1:f.body.index(pstmt)]:
            for n in ast.walk(st):
                if isinstance(n, (ast.Assign, ast.AugAssign)) and src((n.targets[0] if isinstance(n, ast.Assign) else n.target)) == 'ratestring':
                    if util.stmt_key(n).replace(' ', '') != "ratestring=str(ratestring).replace('**','^')":
                        extra.append(util.stmt_key(n)[:80])
    else:
        extra.append('the parse call is not at the top level of add_reaction')
    ok = ok and not extra
    ctx.ob('R14.2-value', 'parse-and-set', ok, where, 'the built string is what is parsed and set as the kinetic law', '; '.join(extra))


# ---- the expression language on both sides of the writer's parser ------------------------------------------------------------
# what a name / the operator grammar means to bioscrape's own parser (C02: sympy reading, TABLE of translated nodes)
BIOSCRAPE_LANG = {'exp': 'exp', 'log': 'ln', 'abs': 'abs', 'min': 'min', 'max': 'max', 'Heaviside': 'step',
                  'operators': 'unary minus binds weaker than ^, ^ associates to the right',
                  'model-names': 'the species or parameter of that name'}
BUILTIN = 'the built-in constant or symbol of that name where one exists (pi, time, avogadro, true, inf ... matched case-insensitively)'
UNDEF = 'a call of an undefined function'
# what the same text means to the libsbml parsers (libsbml documentation of SBML_parseL3Formula / L3ParserSettings / SBML_parseFormula)
L3_LANG = {'exp': 'exp', 'log': 'log10', 'abs': 'abs', 'min': 'min', 'max': 'max', 'Heaviside': UNDEF,
           'operators': 'unary minus binds weaker than ^, ^ associates to the right', 'model-names': BUILTIN}
LEGACY_LANG = {'exp': 'exp', 'log': 'ln', 'abs': 'abs', 'min': UNDEF, 'max': UNDEF, 'Heaviside': UNDEF,
               'operators': 'unary minus binds tighter than ^, ^ associates to the left', 'model-names': BUILTIN}


def parser_at(ctx, fname):
    """which libsbml parser turns the formula string into MathML in sbmlutil.<fname> -> (language table, description, call node)"""
    f = get_func(ctx, fname)
    m = ctx.prog.mod('sbmlutil')
    sites = []
    for c in ast.walk(f):
        if not isinstance(c, ast.Call):
            continue
        name = src(c.func)
        if name in ('libsbml.parseL3Formula', 'parseL3Formula'):
            sites.append((dict(L3_LANG), 'libsbml.parseL3Formula (default settings)', c))
        elif name in ('libsbml.parseFormula', 'parseFormula'):
            sites.append((dict(LEGACY_LANG), 'libsbml.parseFormula (legacy infix parser)', c))
        elif isinstance(c.func, ast.Attribute) and c.func.attr == 'setFormula':
            sites.append((dict(LEGACY_LANG), '%s (uses the legacy infix parser)' % name, c))
        elif name in ('libsbml.parseL3FormulaWithSettings', 'parseL3FormulaWithSettings') and len(c.args) == 2:
            sv = src(c.args[1])
            lang = dict(L3_LANG)
            modes = []
            for n in list(ast.walk(f)) + list(ast.walk(m.tree)):
                if isinstance(n, ast.Call) and isinstance(n.func, ast.Attribute) and n.func.attr == 'setParseLog' and src(n.func.value) == sv and n.args:
                    modes.append(src(n.args[0]).split('.')[-1])
            modes = sorted(set(modes))
            if modes == ['L3P_PARSE_LOG_AS_LN']:
                lang['log'] = 'ln'
            elif modes == ['L3P_PARSE_LOG_AS_ERROR']:
                lang['log'] = 'rejected'
            elif modes not in ([], ['L3P_PARSE_LOG_AS_LOG10']):
                raise AnalysisError('%s: parser settings %s not understood (%s)' % (fname, sv, modes))
            # the model handed to the settings before this call (in this function): its identifiers take precedence over built-ins
            model_arg = f.args.args[0].arg
            given = [n for n in ast.walk(f) if isinstance(n, ast.Call) and isinstance(n.func, ast.Attribute) and n.func.attr == 'setModel'
                     and src(n.func.value) == sv and n.args and src(n.args[0]) == model_arg and n.lineno <= c.lineno
                     and not util.guards_of(n, f)]
            if given:
                lang['model-names'] = BIOSCRAPE_LANG['model-names']
            sites.append((lang, 'libsbml.parseL3FormulaWithSettings (log read as %s)' % lang['log'], c))
    if len(sites) != 1:
        raise AnalysisError('%s: expected exactly one formula-parsing call, found %d' % (fname, len(sites)))
    return f, sites[0]


def readback(meaning):
    """what bioscrape's reader (formulaToL3String, then its own parser) makes of a parsed node"""
    if meaning == 'log10':
        return "rejected on import ('log10' is not in bioscrape's expression language)"
    return meaning      # ln is printed as ln(..) = sympy log; undefined functions come back under their own name


def check_formula_language(ctx, rule, fname, site, mode):
    """mode 'sbml': the MathML must mean, as plain SBML, what the text means to bioscrape (C14);
    mode 'roundtrip': reading the MathML back must give bioscrape the same meaning (C12)."""
    f, (lang, desc, call) = parser_at(ctx, fname)
    ctx.call_sites += 1
    where = ctx.loc('sbmlutil', call)
    for name, mine in BIOSCRAPE_LANG.items():
        theirs = lang[name]
        if mode == 'sbml':
            ok = theirs == mine or (mine == 'step' and False)
            detail = '' if ok else "%s reads %s as %s; bioscrape evaluates it as %s" % (
                desc, "'%s(...)'" % name if name != 'operators' else 'the operator grammar', theirs, mine)
        else:
            back = readback(theirs)
            ok = back == mine or (theirs == UNDEF)      # an undefined function is written and read back by name
            if name == 'model-names' and theirs == BUILTIN:
                ok = False
            detail = '' if ok else "%s reads %s as %s, which comes back as: %s; bioscrape's own reading is %s" % (
                desc, "'%s(...)'" % name if name != 'operators' else 'the operator grammar', theirs, back, mine)
        ctx.ob(rule, '%s/%s' % (site, name), ok, where,
               ("the writer's parser gives '%s' the meaning bioscrape gives it" % name) if mode == 'sbml' else
               ("'%s' written to SBML and read back keeps bioscrape's meaning" % name), detail, fp=theirs)


def check_definitions_first(ctx, rule):
    """model names win over the parser's built-ins only for names that are in the document when a formula is parsed (the settings hold
    the model, the lookup happens at parse time): in generate_sbml_model every add_species / add_parameter call therefore comes, on
    every path, before the first add_reaction / add_rule call."""
    f = ctx.fn('types:Model.generate_sbml_model')
    definers, parsers = ('add_parameter', 'add_species'), ('add_reaction', 'add_rule')
    pos = {}
    for i, st in enumerate(f.body):
        for n in ast.walk(st):
            if isinstance(n, ast.Call) and src(n.func).split('.')[-1] in definers + parsers:
                pos.setdefault(src(n.func).split('.')[-1], []).append((i, n))
    missing = [x for x in definers + parsers if x not in pos]
    if missing:
        raise AnalysisError('generate_sbml_model: no call of %s' % missing)
    first_parse = min(i for x in parsers for i, _ in pos[x])
    late = sorted({x for x in definers for i, n in pos[x] if i >= first_parse})
    ctx.ob(rule, 'model-names/defined-first', not late, ctx.loc('types', f),
           'every species and parameter is in the document before the first kinetic law or rule formula is parsed against it',
           '' if not late else '%s is called after formulas have been parsed: a model name that is also a parser built-in (time, pi, avogadro ...) '
           'is then written as the built-in' % ', '.join(late))


# ---- the other direction: libsbml's printers, whose text bioscrape's reader parses -----------------------------------------------
# (SBML_formulaToL3String / SBML_formulaToString as documented and as observed with the libsbml the repository installs)
L3_PRINTER = {'functions': 'ln, exp, abs, min, max are printed under those names (ln with one argument)',
              'unary-minus': 'minus applied to a power is printed as -(a^b) / -a^b, a negative base as (-a)^b',
              'nested-power': 'a power whose base is a power is printed without parentheses: (a^b)^c becomes a^b^c'}
LEGACY_PRINTER = {'functions': 'ln is printed as log, min / max as calls of functions of that name',
                  'unary-minus': 'minus applied to a power is printed as -a^b',
                  'nested-power': 'a power whose base is a power is printed without parentheses: (a^b)^c becomes a^b^c'}
BIOSCRAPE_READS = {'functions': 'ln, exp, abs, min, max are printed under those names (ln with one argument)',
                   'unary-minus': 'minus applied to a power is printed as -(a^b) / -a^b, a negative base as (-a)^b',
                   'nested-power': 'a^b^c is a^(b^c): a power whose base is a power needs its parentheses'}


def check_printer_language(ctx, rule, fname, site):
    """the text libsbml's printer produces for the document's MathML means to bioscrape's parser what the MathML means"""
    f = get_func(ctx, fname)
    printers = ('formulaToL3String', 'formulaToString', 'formulaToL3StringWithSettings', 'getFormula')
    calls = [c for c in ast.walk(f) if isinstance(c, ast.Call) and src(c.func).split('.')[-1] in printers]
    if not calls:
        # through a helper of the module
        m = ctx.prog.mod('sbmlutil')
        helpers = {g.name: g for g in m.tree.body if isinstance(g, ast.FunctionDef)}
        for c in ast.walk(f):
            if isinstance(c, ast.Call) and isinstance(c.func, ast.Name) and c.func.id in helpers:
                calls += [x for x in ast.walk(helpers[c.func.id]) if isinstance(x, ast.Call) and src(x.func).split('.')[-1] in printers]
    kinds = sorted({src(c.func).split('.')[-1] for c in calls})
    if len(kinds) != 1:
        for row in BIOSCRAPE_READS:
            ctx.ob(rule, '%s/%s' % (site, row), False, ctx.loc('sbmlutil', f), "libsbml's printer writes '%s' the way bioscrape's parser reads it" % row,
                   'the formula text of %s comes from %s' % (fname, kinds or 'no libsbml printer'), fp='printers:%s' % ','.join(kinds))
        return
    name = kinds[0]
    table = L3_PRINTER if name.startswith('formulaToL3String') else LEGACY_PRINTER
    # a helper that re-parenthesises the tree before printing would show as a call on the printed argument: none is recognised, so the
    # table describes the printer as called
    for row, mine in BIOSCRAPE_READS.items():
        ok = table[row] == mine
        ctx.ob(rule, '%s/%s' % (site, row), ok, ctx.loc('sbmlutil', calls[0]),
               "libsbml's printer writes '%s' the way bioscrape's parser reads it" % row,
               '' if ok else "libsbml.%s: %s; bioscrape's parser: %s" % (name, table[row], mine), fp='%s/%s' % (name, row))


def check_parameter_ids(ctx, rule):
    """the id a parameter gets in the document is the name the laws and annotations use for it: no renaming on the way"""
    f = get_func(ctx, 'add_parameter')
    pn = f.args.args[1].arg
    problems = []
    rebinds = [n for n in ast.walk(f) if isinstance(n, (ast.Assign, ast.AugAssign)) and
               any(src(t) == pn for t in (n.targets if isinstance(n, ast.Assign) else [n.target]))]
    for n in rebinds:
        problems.append('add_parameter rewrites the name: `%s`' % util.stmt_key(n)[:70])
    ids = [c for c in ast.walk(f) if isinstance(c, ast.Call) and isinstance(c.func, ast.Attribute) and c.func.attr == 'setId']
    if len(ids) != 1 or src(ids[0].args[0]) != pn:
        problems.append('the id is set to %s' % [src(c.args[0]) for c in ids])
    g = ctx.fn('types:Model.generate_sbml_model')
    calls = util.calls_in(g, suffix='add_parameter')
    if len(calls) != 1:
        problems.append('%d add_parameter calls in generate_sbml_model' % len(calls))
    else:
        kw = {k.arg: k.value for k in calls[0].keywords}
        name = kw.get('param_name', calls[0].args[1] if len(calls[0].args) > 1 else None)
        loop = calls[0]
        while loop is not None and not isinstance(loop, ast.For):
            loop = getattr(loop, '_parent', None)
        if name is None or loop is None or src(name) != src(loop.target):
            problems.append('the exported name is %s, not the loop variable over the model parameters' % (src(name) if name is not None else None))
        else:
            for n in ast.walk(loop):
                if isinstance(n, (ast.Assign, ast.AugAssign)) and any(src(t) == src(loop.target) for t in (n.targets if isinstance(n, ast.Assign) else [n.target])):
                    problems.append('generate_sbml_model rewrites the name before exporting it: `%s`' % util.stmt_key(n)[:70])
    ctx.ob(rule, 'parameter-ids', not problems, ctx.loc('sbmlutil', f),
           "a parameter is exported under its own name: the id in the document is the spelling the kinetic laws and annotations use",
           '; '.join(problems))


def check_stoichiometry(ctx, f):
    where = ctx.loc('sbmlutil', f)
    a = [x.arg for x in f.args.args]
    txt = [util.stmt_key(s).replace(' ', '') for s in f.body]
    need = ['inputs=list(OrderedDict.fromkeys(%s))' % a[1], 'outputs=list(OrderedDict.fromkeys(%s))' % a[2]]
    miss = [n for n in need if n not in txt]
    # multiplicities: coefs = [<argument list>.count(v) for v in <distinct list>], whatever the comprehension variable is called
    for lst_, coefs_, arg_ in (('inputs', 'input_coefs', a[1]), ('outputs', 'output_coefs', a[2])):
        d_ = [s_ for s_ in f.body if isinstance(s_, ast.Assign) and src(s_.targets[0]) == coefs_]
        ok_ = False
        if len(d_) == 1 and isinstance(d_[0].value, ast.ListComp) and len(d_[0].value.generators) == 1:
            g_ = d_[0].value.generators[0]
            e_ = d_[0].value.elt
            ok_ = isinstance(g_.target, ast.Name) and not g_.ifs and src(g_.iter) == lst_ and isinstance(e_, ast.Call) and \
                src(e_.func).replace(' ', '') == '%s.count' % arg_ and len(e_.args) == 1 and src(e_.args[0]) == g_.target.id
        if not ok_:
            miss.append('%s is not the list of the multiplicities of %s in %s' % (coefs_, lst_, arg_))
    for lst, coefs, creator in (('inputs', 'input_coefs', 'createReactant'), ('outputs', 'output_coefs', 'createProduct')):
        loops = [s_ for s_ in f.body if isinstance(s_, ast.For) and any(isinstance(c, ast.Call) and src(c.func) == 'reaction.%s' % creator for c in ast.walk(s_))]
        if len(loops) != 1:
            miss.append('loop creating the %s references' % lst)
            continue
        lp = loops[0]
        # species list and multiplicities stay aligned: once the multiplicities have been counted, neither list is reordered, changed or
        # re-bound before (or while) the references are written
        cdef_ = [s_ for s_ in f.body if isinstance(s_, ast.Assign) and src(s_.targets[0]) == coefs]
        if len(cdef_) == 1 and f.body.index(cdef_[0]) < f.body.index(lp):
            for s_ in f.body[f.body.index(cdef_[0]) + 1:f.body.index(lp) + 1]:
                for n_ in ast.walk(s_):
                    if isinstance(n_, ast.Call) and isinstance(n_.func, ast.Attribute) and isinstance(n_.func.value, ast.Name) and n_.func.value.id in (lst, coefs) \
                            and n_.func.attr in ('sort', 'reverse', 'append', 'pop', 'remove', 'insert', 'extend', 'clear'):
                        miss.append('%s is changed by `%s` after the multiplicities were counted: species and multiplicities no longer correspond'
                                    % (n_.func.value.id, src(n_)))
                    if isinstance(n_, (ast.Assign, ast.AugAssign, ast.Delete)):
                        for t_ in (n_.targets if isinstance(n_, (ast.Assign, ast.Delete)) else [n_.target]):
                            b_ = t_.value if isinstance(t_, ast.Subscript) else t_
                            if isinstance(b_, ast.Name) and b_.id in (lst, coefs):
                                miss.append('%s is re-bound or written by `%s` after the multiplicities were counted' % (b_.id, util.stmt_key(n_)[:60]))
        it = src(lp.iter).replace(' ', '')
        if it == 'range(len(%s))' % lst and isinstance(lp.target, ast.Name):
            elem, coef = '%s[%s]' % (lst, lp.target.id), '%s[%s]' % (coefs, lp.target.id)
        elif it == 'zip(%s,%s)' % (lst, coefs) and isinstance(lp.target, ast.Tuple) and len(lp.target.elts) == 2:
            elem, coef = src(lp.target.elts[0]), src(lp.target.elts[1])
        elif it == 'enumerate(%s)' % lst and isinstance(lp.target, ast.Tuple):
            elem, coef = src(lp.target.elts[1]), '%s[%s]' % (coefs, src(lp.target.elts[0]))
        else:
            miss.append('%s references are created in a loop over %s' % (lst, src(lp.iter)))
            continue
        defs = util.single_defs(ast.Module(body=lp.body, type_ignores=[]))
        for x in ast.walk(lp.target):
            if isinstance(x, ast.Name):
                defs.pop(x.id, None)        # the loop variables themselves stand for the element / its multiplicity
        var = None
        for s_ in lp.body:
            if isinstance(s_, ast.Assign) and isinstance(s_.value, ast.Call) and src(s_.value.func) == 'reaction.%s' % creator:
                var = src(s_.targets[0])
        sets = [c for c in ast.walk(lp) if isinstance(c, ast.Call) and isinstance(c.func, ast.Attribute) and src(c.func.value) == var]
        sp_call = [c for c in sets if c.func.attr == 'setSpecies']
        st_call = [c for c in sets if c.func.attr == 'setStoichiometry']
        if len(sp_call) != 1 or len(st_call) != 1:
            miss.append('%s: setSpecies/setStoichiometry not called once on the new reference' % lst)
            continue
        sid = src(util.inline(sp_call[0].args[0], defs)).replace(' ', '')
        want_sid = "getSpeciesByName(model,str(%s).replace(\"'\",'')).getId()" % elem
        if sid != want_sid:
            miss.append('%s: species of the reference is %s' % (lst, sid))
        sto = src(util.inline(st_call[0].args[0], defs)).replace(' ', '')
        if sto != coef.replace(' ', ''):
            miss.append('%s: stoichiometry of the reference is %s, expected the multiplicity %s' % (lst, sto, coef))
        if any(isinstance(x, (ast.Break, ast.Continue)) for x in ast.walk(lp)):
            miss.append('%s: the loop can skip species' % lst)
    ctx.ob('R14.3-stoichiometry', 'references', not miss, where,
           'each distinct reactant/product gets one reference whose stoichiometry is its multiplicity in the reaction', str(miss) if miss else '')


def check_modifiers(ctx, f):
    where = ctx.loc('sbmlutil', f)
    # second dispatch chain (the one with the Hill f-strings)
    chains = [s for s in f.body if isinstance(s, ast.If) and util.eq_literals(s.test, 'propensity_type') == ['hillpositive']]
    if len(chains) != 1:
        raise AnalysisError('add_reaction: Hill dispatch chain not found')
    table = {}
    for test, body in util.if_chain(chains[0]):
        lits = util.eq_literals(test, 'propensity_type') if test is not None else None
        if lits:
            table[lits[0]] = body
    for ptype in HILLS + ['general']:
        body = table.get(ptype)
        problems = []
        if body is None:
            problems.append('no branch')
        else:
            mods = [n for n in ast.walk(ast.Module(body=body, type_ignores=[])) if isinstance(n, ast.If)
                    and any(util.stmt_key(x).replace(' ', '') == 'modifier=reaction.createModifier()' for x in n.body)]
            guarded = {}
            for m in mods:
                t = src(m.test).replace(' ', '')
                mm = re.match(r'^(\w+)notinreactants_listand(\w+)notinproducts_list$', t)
                sets = [util.stmt_key(x).replace(' ', '') for x in m.body]
                if mm and mm.group(1) == mm.group(2) and 'modifier.setSpecies(%s)' % mm.group(1) in sets:
                    guarded[mm.group(1)] = True
                else:
                    problems.append('modifier guard not understood: %s' % src(m.test))
            want = {'hillpositive': ['s_species_id'], 'hillnegative': ['s_species_id'], 'proportionalhillpositive': ['s_species_id', 'd_species_id'],
                    'proportionalhillnegative': ['s_species_id', 'd_species_id'], 'general': ['s']}[ptype]
            for w in want:
                if w not in guarded:
                    problems.append('species %s of the law gets no modifier reference when it is neither reactant nor product' % w)
            if ptype == 'general':
                bt = [util.stmt_key(x).replace(' ', '') for x in body]
                if 'species_list=_get_species_list_in_formula(ratestring,allspecies)' not in bt:
                    problems.append('species of a general rate are not collected from the formula')
        ctx.ob('R14.4-modifiers', ptype, not problems, where,
               'a species the law mentions that is neither reactant nor product is declared as a modifier', '; '.join(problems))
    # the species ids collected as reactants/products are what the guards test
    b = [util.stmt_key(s).replace(' ', '') for s in ast.walk(f) if isinstance(s, ast.stmt)]
    ok = 'reactants_list.append(species_id)' in b and 'products_list.append(species_id)' in b
    ctx.ob('R14.4-modifiers', 'lists', ok, where, 'reactant and product ids are collected for the modifier test', '')


def check_unique_ids(ctx, f):
    """An identifier in a kinetic law denotes one element of the document: the id given to a reaction is made unique against the ids of
    ALL elements written so far (species and parameters share the namespace with reactions; a species called r1 must not meet a
    reaction r1) - the id comes from SetIdFromNames(getAllIds(<document>.getListOfAllElements())).getValidIdForName(...)."""
    sd = {n_: v_ for n_, v_ in util.single_defs(f).items() if v_ is not None}
    sets = [c for c in ast.walk(f) if isinstance(c, ast.Call) and isinstance(c.func, ast.Attribute) and c.func.attr == 'setId'
            and src(c.func.value) == 'reaction' and len(c.args) == 1]
    problems = []
    if len(sets) != 1:
        raise AnalysisError('add_reaction: reaction.setId(...) not found')
    a = util.inline(sets[0].args[0], sd)
    txt = src(a).replace(' ', '')
    import re
    m = re.match(r'^SetIdFromNames\(getAllIds\((.+)\.getListOfAllElements\(\)\)\)\.getValidIdForName\((.+)\)$', txt)
    if not m:
        problems.append('the reaction id is %s: not made unique against the ids of all elements of the document' % src(a)[:120])
    elif not (m.group(1) in ('model.getSBMLDocument()', 'document') or m.group(1).endswith('getSBMLDocument()')):
        problems.append('ids are collected from %s, not from the whole document' % m.group(1))
    ctx.ob('R14.1-identifiers', 'unique-ids/reaction', not problems, ctx.loc('sbmlutil', sets[0]),
           'a reaction id is distinct from every id already in the document (an identifier in a law denotes one species or parameter)',
           '; '.join(problems))
    g = get_func(ctx, 'getAllIds')
    rets = [r for r in ast.walk(g) if isinstance(r, ast.Return)]
    app = [c for c in ast.walk(g) if isinstance(c, ast.Call) and isinstance(c.func, ast.Attribute) and c.func.attr == 'append']
    loops = [l for l in ast.walk(g) if isinstance(l, ast.For)]
    ok = len(loops) == 1 and len(app) == 1 and src(app[0].args[0]).replace(' ', '') == 'current.getId()' \
        and src(loops[0].iter).replace(' ', '') in ('range(0,allElements.getSize())', 'range(allElements.getSize())')
    if ok:
        # the only elements left out are those without an id and local parameters (their scope is their own reaction)
        tests = []
        cur = app[0]
        while getattr(cur, '_parent', None) is not None and cur is not loops[0]:
            if isinstance(cur._parent, ast.If) and cur in cur._parent.body:
                t_ = cur._parent.test
                tests += [src(v_).replace(' ', '') for v_ in (t_.values if isinstance(t_, ast.BoolOp) and isinstance(t_.op, ast.And) else [t_])]
            elif isinstance(cur._parent, ast.If):
                tests.append('else-branch')
            cur = cur._parent
        ok = sorted(tests) == sorted(['current.isSetId()', 'current.getTypeCode()!=libsbml.SBML_LOCAL_PARAMETER'])
        det = '' if ok else 'ids are kept under %s' % tests
    else:
        det = 'the collecting loop was not recognised'
    ctx.ob('R14.1-identifiers', 'unique-ids/getAllIds', ok, ctx.loc('sbmlutil', g),
           'getAllIds returns the id of every element that has one (local parameters aside)', det)


def check(ctx):
    ctx.prog.mod('sbmlutil')
    f = get_func(ctx, 'add_reaction')
    check_unique_ids(ctx, f)
    check_templates(ctx, f)
    check_stoichiometry(ctx, f)
    check_modifiers(ctx, f)
    for m_ in ('types', 'types.pxd'):
        ctx.prog.mod(m_)
    check_parameter_ids(ctx, 'R14.1-identifiers')
    check_formula_language(ctx, 'R14.6-formula-language', 'add_reaction', 'kinetic-law', 'sbml')
    check_definitions_first(ctx, 'R14.6-formula-language')
    ctx.floor('R14.6-formula-language', 9)
    # "the deterministic rate in a deterministic export and the combinatorial stochastic rate in a stochastic export": the templates
    # above are selected by add_reaction's `stochastic` argument, which must be the export's flag for every reaction, together with
    # the reaction's own 8 fields (C12 R12.3) - re-emitted here
    from ..core import SubCtx
    from . import c12
    for m in ('types', 'types.pxd'):
        ctx.prog.mod(m)
    sub = SubCtx(ctx)
    c12.check_forwarding(sub)
    n = 0
    for rule, key, ok, where, what, detail in sub.got:
        if rule == 'R12.3-forwarding' and key in ('generate_sbml_model', 'write_sbml_model', 'reaction_definitions'):
            ctx.ob('R14.5-mode-forwarding', key, ok, where, what, detail)
            n += 1
    ctx.floor('R14.5-mode-forwarding', 3)
    # the law is "evaluated over the exported species and parameters": the value a parameter has in the model is the number written
    # for it (C12 R12.3 add_parameter/value) - re-emitted here
    sub = SubCtx(ctx)
    c12.check_writer_values(sub)
    c12.check_values_kept(sub)
    for rule, key, ok, where, what, detail in sub.got:
        if rule == 'R12.3-forwarding' and key in ('add_parameter/value', 'values-kept'):
            ctx.ob('R14.7-parameter-values', key, ok, where, what, detail)
    ctx.floor('R14.7-parameter-values', 2)
    ctx.floor('R14.1-identifiers', 6)
    ctx.floor('R14.2-value', 7)
    ctx.floor('R14.4-modifiers', 5)
