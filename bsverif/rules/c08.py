"""C08 - results depend only on the model's current definition and the seed.

The mechanisms that make history irrelevant are each decided on every path:
R8.1 every method of Model / LineageModel that writes a definition field clears `initialized`
on the paths on which it does so.
R8.2 interfaces initialise a stale model on construction, the simulator wrappers check the
interface first, and the model interface refuses a model that changed afterwards.
R8.3 every _create_vectors (Model, and the LineageModel override incl. its super() call) clears
each C vector / list before the single loop that refills it; matrices are allocated afresh.
R8.4 simulators work on a copy of the initial state and never store into the interface's or the
model's arrays; the interface shares the model's arrays and is not re-bound to a copy.
R8.5 seeding writes the whole generator state from the seed; no simulation module draws from
any other random source.
R8.6 the process-wide simulator pointer and buffer are re-assigned from the current interface
before every integration.
"""
import ast

from .. import paths, simloop, util
from ..front import AnalysisError, src

EXPLANATION = __doc__
ASSUMPTIONS = ['rules that assign parameters are excluded by the property statement']

DEF_FIELDS = {'species2index', 'params2index', 'reaction_list', 'repeat_rules', 'reaction_updates', 'delay_reaction_updates',
              'reaction_definitions', 'rule_definitions', '_next_species_index', '_next_params_index'}
REBIND_FIELDS = {'species_values', 'params_values'}
LINEAGE_DEF = {'volume_rules', 'death_rules', 'division_rules_list', 'volume_events_list', 'division_events_list', 'death_events_list'}
MUTATING = {'append', 'extend', 'pop', 'remove', 'clear', 'insert', 'update', 'setdefault', 'popitem'}
EXEMPT = {'__init__', '__cinit__', '__setstate__', '_initialize', 'py_initialize', '_create_vectors', '_create_stochiometric_matrices',
          '__getstate__', '__reduce__'}


def direct_def_write(node, fields):
    """does this simple statement write a definition field of self directly?"""
    out = []
    for n in ast.walk(node):
        if isinstance(n, (ast.Assign, ast.AugAssign)):
            tg = n.targets if isinstance(n, ast.Assign) else [n.target]
            for t in tg:
                if isinstance(t, ast.Attribute) and src(t.value) == 'self' and (t.attr in fields or t.attr in REBIND_FIELDS):
                    out.append(t.attr)
                if isinstance(t, ast.Subscript) and isinstance(t.value, ast.Attribute) and src(t.value.value) == 'self' \
                        and t.value.attr in fields:
                    out.append(t.value.attr)
        if isinstance(n, ast.Call) and isinstance(n.func, ast.Attribute) and n.func.attr in MUTATING:
            o = n.func.value
            if isinstance(o, ast.Attribute) and src(o.value) == 'self' and o.attr in fields:
                out.append(o.attr)
    return out


def clears_flag(node):
    for n in ast.walk(node):
        if isinstance(n, ast.Assign) and any(src(t) == 'self.initialized' for t in n.targets) and \
                isinstance(n.value, ast.Constant) and n.value.value in (False, 0):
            return True
    return False


def prune_irrelevant(stmts, fields):
    """Leave out compound statements in which nothing writes a definition field, clears the flag, calls a method of self or leaves
    the function / loop: which of their branches runs cannot matter to the rule, and leaving them out keeps the number of paths small."""
    out = []
    for st in stmts:
        if isinstance(st, (ast.If, ast.For, ast.While, ast.Try, ast.With)):
            relevant = clears_flag(st) or direct_def_write(st, fields) or self_calls(st) or \
                any(isinstance(x, (ast.Return, ast.Raise, ast.Continue, ast.Break)) for x in ast.walk(st))
            if not relevant:
                continue
            if isinstance(st, ast.If):
                new = ast.If(test=st.test, body=prune_irrelevant(st.body, fields) or [ast.Pass()], orelse=prune_irrelevant(st.orelse, fields))
                ast.copy_location(new, st)
                for x in new.body + new.orelse:
                    if not hasattr(x, 'lineno'):
                        ast.copy_location(x, st)
                out.append(new)
                continue
        out.append(st)
    return out


def self_calls(node):
    out = []
    for n in ast.walk(node):
        if isinstance(n, ast.Call) and isinstance(n.func, ast.Attribute) and src(n.func.value) == 'self':
            out.append(n.func.attr)
    return out


def check_invalidation(ctx, cls, fields):
    prog = ctx.prog
    methods = {}
    for c in reversed(prog.mro(cls)):
        for name, f in prog.classes[c].methods.items():
            if getattr(f, 'cy_kind', 'def') in ('def', 'cpdef', 'cdef'):
                methods[name] = (c, f)
    # path sets per method
    P = {}
    TOPCLEAR = {}

    def top_clear(f, must):
        for st in f.body:
            if isinstance(st, (ast.If, ast.For, ast.While, ast.Try, ast.With)):
                if any(isinstance(x, ast.Return) for x in ast.walk(st)):
                    return False
                continue
            if isinstance(st, ast.Return):
                return False
            if clears_flag(st) or any(must.get(c, False) for c in self_calls(st)):
                return True
        return False
    for name, (c, f) in methods.items():
        if name in EXEMPT:
            continue
        if top_clear(f, {}):
            TOPCLEAR[name] = True
            P[name] = []
            continue
        try:
            en = paths.Enumerator(limit=4000)
            P[name] = en.run(prune_irrelevant(f.body, fields), paths.State())
        except AnalysisError:
            P[name] = None
    # must_clear fixpoint
    must = {n: bool(TOPCLEAR.get(n)) for n in P}
    for _ in range(4):
        for name, ps in P.items():
            if ps is None or TOPCLEAR.get(name):
                continue
            ok = True
            for p in ps:
                if p.exit == 'raise':
                    continue
                if not any(clears_flag(e.node) or any(must.get(c, False) for c in self_calls(e.node)) for e in p.stmts()):
                    ok = False
                    break
            must[name] = ok
    n_checked = 0
    for name, ps in sorted(P.items()):
        c, f = methods[name]
        if c not in (cls,) and cls != 'Model':
            # inherited methods are checked with the base class
            if c == 'Model':
                continue
        has_direct = bool(direct_def_write(f, fields))
        if not has_direct:
            continue
        n_checked += 1
        mod = prog.classes[c].module
        ctx.functions.add('%s:%s.%s' % (mod, c, name))
        if TOPCLEAR.get(name) or top_clear(f, must):
            ctx.ob('R8.1-invalidate', '%s.%s' % (c, name), True, ctx.loc(mod, f),
                   'a path that writes a definition field clears `initialized` (directly or through a helper that always does)',
                   'cleared unconditionally at the top of the method')
            continue
        if ps is None:
            raise AnalysisError('%s.%s: too many paths' % (c, name))
        ctx.paths += len(ps)
        bad = []
        for p in ps:
            if p.exit == 'raise':
                continue
            w = []
            cleared = False
            for e in p.stmts():
                w += direct_def_write(e.node, fields)
                if clears_flag(e.node) or any(must.get(x, False) for x in self_calls(e.node)):
                    cleared = True
            if w and not cleared:
                bad.append((p, sorted(set(w))))
        ctx.ob('R8.1-invalidate', '%s.%s' % (c, name), not bad, ctx.loc(mod, f),
               'a path that writes a definition field clears `initialized` (directly or through a helper that always does)',
               '; '.join('writes %s without clearing the flag on path [%s]' % (w, paths.describe(p, 6)) for p, w in bad[:2]))
    return n_checked


def check_refusal(ctx):
    f = ctx.fn('simulator:ModelCSimInterface.__init__')
    en = paths.Enumerator()
    ps = en.run(f.body, paths.State())
    problems = []
    for p in ps:
        txt = [util.stmt_key(e.node) for e in p.stmts()]
        dec = {src(e.node).replace(' ', ''): e.info for e in p.events if e.kind == 'test'}
        getters = [i for i, t in enumerate(txt) if 'self.model.get_' in t]
        if not getters:
            problems.append('no arrays fetched from the model')
            continue
        if dec.get('notself.model.initialized') is True:
            if 'self.model.py_initialize()' not in txt or txt.index('self.model.py_initialize()') > getters[0]:
                problems.append('an uninitialised model is not initialised before its vectors/arrays are fetched')
        elif 'notself.model.initialized' not in dec:
            problems.append('the initialised flag is not consulted')
    ctx.ob('R8.2-stale-refused', 'ModelCSimInterface.__init__', not problems, ctx.loc('simulator', f),
           'a model whose flag is clear is (re)initialised before the interface fetches anything from it', '; '.join(sorted(set(problems))))
    want = {'self.update_array': 'self.model.get_update_array()', 'self.delay_update_array': 'self.model.get_delay_update_array()',
            'self.initial_state': 'self.model.get_species_values()', 'self.np_param_values': 'self.model.get_params_values()',
            'self.c_propensities': 'self.model.get_c_propensities()', 'self.c_delays': 'self.model.get_c_delays()',
            'self.c_repeat_rules': 'self.model.get_c_repeat_rules()'}
    got = {src(s.targets[0]): src(s.value) for s in f.body if isinstance(s, ast.Assign)}
    bad = {k: got.get(k) for k, v in want.items() if got.get(k) != v}
    ctx.ob('R8.4-shared-arrays', 'ModelCSimInterface.__init__', not bad, ctx.loc('simulator', f),
           "the interface binds the model's own arrays and vectors (values set on the model later are seen)", str(bad) if bad else '')
    f = ctx.fn('simulator:ModelCSimInterface.check_interface')
    ifs = [s for s in f.body if isinstance(s, ast.If)]
    ok = len(ifs) == 1 and src(ifs[0].test).replace(' ', '') == 'notself.model.initialized' and any(isinstance(x, ast.Raise) for x in ifs[0].body)
    ctx.ob('R8.2-stale-refused', 'ModelCSimInterface.check_interface', ok, ctx.loc('simulator', f),
           'an interface whose model changed since construction raises', '')
    for cls, wrapper in (('RegularSimulator', 'py_simulate'), ('DeterministicSimulator', 'py_simulate'), ('DelaySimulator', 'py_delay_simulate'),
                         ('VolumeSimulator', 'py_volume_simulate'), ('DelayVolumeSimulator', 'py_delay_volume_simulate')):
        f = ctx.fn('simulator:%s.%s' % (cls, wrapper))
        stm = [util.stmt_key(s) for s in f.body if not (isinstance(s, ast.Expr) and isinstance(s.value, ast.Constant))]
        sim = f.args.args[1].arg
        ok = stm and stm[0] == '%s.check_interface()' % sim
        ctx.ob('R8.2-stale-refused', '%s.%s' % (cls, wrapper), ok, ctx.loc('simulator', f),
               'the public wrapper checks the interface before simulating', str(stm[:1]))
    # getters on the model return the arrays themselves
    for g, fld in (('get_species_values', 'species_values'), ('get_params_values', 'params_values')):
        f = ctx.fn('types:Model.%s' % g)
        rets = [s for s in f.body if isinstance(s, ast.Return)]
        ctx.ob('R8.4-shared-arrays', 'Model.%s' % g, len(rets) == 1 and src(rets[0].value) == 'self.%s' % fld, ctx.loc('types', f),
               'the getter hands out the model array itself', '')
    f = ctx.fn('simulator:ModelCSimInterface.set_initial_state')
    stm = [util.stmt_key(s) for s in f.body]
    ctx.ob('R8.4-shared-arrays', 'ModelCSimInterface.set_initial_state', stm == ['np.copyto(self.initial_state, %s)' % f.args.args[1].arg],
           ctx.loc('simulator', f), 'an explicit set_initial_state copies into the shared array (no re-binding)', str(stm))


def vector_pairing(prog, cls, meth):
    """(vector -> {'clear': n, 'push_loops': n}) over the body of cls.meth including super() calls, in execution order."""
    dc, f = prog.resolve_method(cls, meth)
    info = {}
    order = []
    sources = {}

    def _source(loop):
        it = src(loop.iter).replace(' ', '')
        # `for i in range(self.num_x): item = self.x_list[i]` -> the list that is indexed by the loop variable
        if it.startswith('range('):
            v = src(loop.target)
            for n in ast.walk(loop):
                if isinstance(n, ast.Subscript) and src(n.slice) == v and src(n.value).startswith('self.'):
                    return src(n.value)
        return it

    def visit(c, fn):
        for s in fn.body:
            if isinstance(s, ast.Expr) and isinstance(s.value, ast.Call) and src(s.value.func) in ('super().%s' % meth, 'super(%s, self).%s' % (c, meth)):
                b = prog.classes[c].bases
                if b:
                    c2, f2 = prog.resolve_method(b[0], meth)
                    if f2 is not None:
                        visit(c2, f2)
                continue
            t = util.stmt_key(s)
            if isinstance(s, ast.Expr) and isinstance(s.value, ast.Call) and isinstance(s.value.func, ast.Attribute) and s.value.func.attr == 'clear' \
                    and src(s.value.func.value).startswith('self.'):
                order.append(('clear', src(s.value.func.value), s, c))
            elif isinstance(s, ast.Assign) and src(s.targets[0]).startswith('self.') and isinstance(s.value, ast.List) and not s.value.elts:
                order.append(('clear', src(s.targets[0]), s, c))
            elif isinstance(s, ast.For):
                seen = set()
                for n in ast.walk(s):
                    if isinstance(n, ast.Call) and isinstance(n.func, ast.Attribute) and n.func.attr in ('push_back', 'append') \
                            and src(n.func.value).startswith('self.'):
                        v = src(n.func.value)
                        if v not in seen:
                            seen.add(v)
                            order.append(('push', v, s, c))
                            sources.setdefault(v, []).append(_source(s))
    visit(dc, f)
    return dc, f, order, sources


PER_INIT = ('_initialize', '_create_vectors', '_create_stochiometric_matrices', 'py_initialize', 'check_parameters', 'check_species')


def _not_idempotent(f):
    """why running this initialize() a second time on the same object gives another object state (or None): a C vector that is appended
    to without having been cleared in the same call, or an in-place update of an attribute"""
    cleared = set()
    for st in f.body:
        if isinstance(st, ast.Expr) and isinstance(st.value, ast.Call) and isinstance(st.value.func, ast.Attribute) and st.value.func.attr == 'clear':
            cleared.add(src(st.value.func.value).replace(' ', ''))
        for n in ast.walk(st):
            if isinstance(n, ast.Call) and isinstance(n.func, ast.Attribute) and n.func.attr in ('push_back', 'append', 'extend', 'insert') and \
                    src(n.func.value).replace(' ', '').startswith('self.') and src(n.func.value).replace(' ', '') not in cleared:
                return '%s grows on every call (`%s`, never cleared in %s)' % (src(n.func.value), src(n)[:50], f.name)
            if isinstance(n, ast.AugAssign) and src(n.target).replace(' ', '').startswith('self.') and not isinstance(n.target, ast.Subscript):
                return '%s is updated in place (`%s`)' % (src(n.target), util.stmt_key(n)[:50])
    return None


def check_initialize_once(ctx):
    """Propensity, delay and rule objects are set up (initialize) when they are created.  Setting them up again on every model
    initialisation would be harmless only for classes whose initialize() is idempotent; a call of X.initialize(...) from a method that
    runs per initialisation is therefore checked against every class X can be."""
    prog = ctx.prog
    for cname in ('Model', 'LineageModel'):
        ci = prog.classes[cname]
        for mname in PER_INIT:
            f = ci.methods.get(mname)
            if f is None:
                continue
            bad = []
            for c in ast.walk(f):
                if isinstance(c, ast.Call) and isinstance(c.func, ast.Attribute) and c.func.attr == 'initialize' and len(c.args) >= 2 and \
                        not (isinstance(c.func.value, ast.Name) and c.func.value.id == 'self'):
                    rn = src(c.func.value).lower()
                    bases = [b for b, w in (('Rule', 'rule'), ('Propensity', 'prop'), ('Delay', 'delay')) if w in rn] or ['Rule', 'Propensity', 'Delay']
                    for base in bases:
                        for sub in [base] + prog.subclasses(base):
                            dc, g = prog.resolve_method(sub, 'initialize')
                            why = _not_idempotent(g) if g is not None else None
                            if why:
                                bad.append('%s (%s) calls initialize() on every model initialisation; %s.initialize is not idempotent: %s'
                                           % (src(c)[:50], ctx.loc(ci.module, c), dc, why))
            ctx.ob('R8.3-rebuild', '%s.%s/objects-set-up-once' % (cname, mname), not bad, ctx.loc(ci.module, f),
                   'no per-initialisation method re-runs initialize() of an object whose set-up accumulates', '; '.join(sorted(set(bad))[:2]))


def check_rebuild(ctx):
    prog = ctx.prog
    for cls in ('Model', 'LineageModel'):
        dc, f, order, sources = vector_pairing(prog, cls, '_create_vectors')
        mod = prog.classes[dc].module
        ctx.functions.add('%s:%s._create_vectors' % (mod, dc))
        state = {}
        pushes = {}
        problems = {}
        for kind, v, node, c in order:
            if kind == 'clear':
                state[v] = 'cleared'
            else:
                pushes[v] = pushes.get(v, 0) + 1
                if state.get(v) != 'cleared':
                    problems[v] = 'filled without being cleared first'
                elif len(set(sources.get(v, []))) != len(sources.get(v, [])):
                    problems[v] = 'filled more than once from the same source list: %s' % sources.get(v)
        for v in sorted(pushes):
            ctx.ob('R8.3-rebuild', '%s/%s' % (cls, v), v not in problems, ctx.loc(mod, f),
                   'on every initialisation %s is cleared and then refilled, once per source list' % v, problems.get(v, ''))
    f = ctx.fn('types:Model._create_stochiometric_matrices')
    txt = [util.stmt_key(s).replace(' ', '') for s in f.body]
    ok = any(t.startswith('self.update_array=np.zeros((') for t in txt) and any(t.startswith('self.delay_update_array=np.zeros((') for t in txt)
    ctx.ob('R8.3-rebuild', 'Model/matrices', ok, ctx.loc('types', f), 'the stoichiometric matrices are allocated afresh (zeros) on every initialisation', '')
    f = ctx.fn('types:Model._initialize')
    txt = [util.stmt_key(s) for s in f.body]
    need = ['self._create_vectors()', 'self._create_stochiometric_matrices()', 'self.check_parameters()', 'self.initialized = True']
    ok = all(n in txt for n in need) and txt.index('self.initialized = True') == len(txt) - 1
    ctx.ob('R8.3-rebuild', 'Model/_initialize', ok, ctx.loc('types', f),
           'initialisation rebuilds vectors and matrices and only then sets the flag', str(txt))


def check_copies(ctx):
    keys = list(simloop.SIMULATORS)
    for key in keys:
        sl = simloop.SimLoop(ctx, key)
        sname = sl.state_name()
        init = sl.prelude_assign(sname, resolve=True)
        problems = []
        if init is None or src(init).replace(' ', '') != 'sim.get_initial_state().copy()':
            problems.append('working state bound to %s' % (src(init) if init is not None else None))
        # every subscript store goes to a local allocated here or the copy
        local_ok = set()
        for s in sl.pre:
            if isinstance(s, ast.Assign) and isinstance(s.targets[0], ast.Name):
                v = src(s.value).replace(' ', '')
                if v.startswith('np.zeros(') or v.endswith('.copy()') or v.startswith('np.empty('):
                    local_ok.add(s.targets[0].id)
                if v == 'sim.get_update_array()+sim.get_delay_update_array()':
                    local_ok.add(s.targets[0].id)
        for n in ast.walk(sl.f):
            if isinstance(n, (ast.Assign, ast.AugAssign)):
                for t in (n.targets if isinstance(n, ast.Assign) else [n.target]):
                    if isinstance(t, ast.Subscript):
                        base = t.value
                        while isinstance(base, ast.Subscript):
                            base = base.value
                        b = src(base)
                        if b not in local_ok:
                            problems.append('store into %s, which is not a local copy or a locally allocated array (%s)' % (b, sl.loc(n)))
        # arrays handed out by the interface (not copied, not a fresh sum) are shared with the model: no in-place arithmetic on them
        shared = set()
        for n in ast.walk(sl.f):
            if isinstance(n, ast.Assign) and len(n.targets) == 1 and isinstance(n.targets[0], ast.Name) and n.targets[0].id not in local_ok:
                v = src(util.strip_cast(n.value)).replace(' ', '')
                if v.startswith('sim.get_') or v.startswith('sim.py_get_') or v in shared:
                    shared.add(n.targets[0].id)
        for n in ast.walk(sl.f):
            if isinstance(n, ast.AugAssign) and isinstance(n.target, ast.Name) and n.target.id in shared:
                problems.append('in-place `%s` on %s, an array shared with the interface and the model (%s)' % (util.stmt_key(n)[:60], n.target.id, sl.loc(n)))
            if isinstance(n, ast.Call):
                for kw in n.keywords:
                    if kw.arg == 'out' and src(kw.value) in shared:
                        problems.append('`%s` writes into the shared array %s' % (src(n)[:60], src(kw.value)))
                if isinstance(n.func, ast.Attribute) and src(n.func.value) in shared and n.func.attr in ('fill', 'sort', 'resize', 'put', 'itemset', 'partition', 'setfield'):
                    problems.append('`%s` modifies the shared array %s' % (src(n)[:60], src(n.func.value)))
        calls = [c for c in ast.walk(sl.f) if isinstance(c, ast.Call) and isinstance(c.func, ast.Attribute) and src(c.func.value) == 'sim'
                 and c.func.attr in ('set_initial_state', 'py_set_initial_state', 'set_param_values', 'py_set_param_values')]
        if calls:
            problems.append('the simulator re-binds interface arrays: %s' % [src(c) for c in calls])
        ctx.ob('R8.4-work-on-copies', key, not problems, sl.where,
               'the simulator updates a copy of the initial state and only locally allocated arrays; it never re-binds interface arrays',
               '; '.join(sorted(set(problems))[:3]))
    f = ctx.fn('simulator:DeterministicSimulator._helper_simulate')
    problems = []
    asg = {src(s.targets[0]): src(s.value).replace(' ', '') for s in f.body if isinstance(s, ast.Assign)}
    # the state the integrator starts from: the second argument of the odeint call, whatever the local is called
    y0 = [src(c.args[1]) for c in ast.walk(f) if isinstance(c, ast.Call) and src(c.func).split('.')[-1] == 'odeint' and len(c.args) >= 2]
    if len(set(y0)) != 1:
        raise AnalysisError('_helper_simulate: odeint call not found')
    if asg.get(y0[0]) != 'sim.get_initial_state().copy()':
        problems.append('%s = %s' % (y0[0], asg.get(y0[0])))
    calls = [c for c in ast.walk(f) if isinstance(c, ast.Call) and isinstance(c.func, ast.Attribute) and src(c.func.value) == 'sim'
             and c.func.attr in ('set_initial_state', 'py_set_initial_state', 'set_param_values', 'py_set_param_values')]
    for c in calls:
        problems.append("re-binds the interface's parameter array: %s (a pre-built interface stops following Model.set_parameter)" % src(c))
    ctx.ob('R8.4-work-on-copies', 'DeterministicSimulator', not problems, ctx.loc('simulator', f),
           'the integrator starts from a copy of the initial state and never re-binds the interface arrays', '; '.join(problems))
    # what is written back into the parameter array the interface shares with the model (to undo what rules did while integrating)
    # is a copy of that array taken in this very call, before the integration - never something kept from an earlier run
    problems = []
    fresh = ('sim.py_get_param_values().copy()', 'sim.get_param_values().copy()', 'np.array(sim.py_get_param_values())',
             'np.copy(sim.py_get_param_values())', 'np.array(sim.get_param_values())', 'np.copy(sim.get_param_values())')
    alldefs = {}
    for n in ast.walk(f):
        if isinstance(n, (ast.Assign, ast.AnnAssign)) and getattr(n, 'value', None) is not None:
            for t in (n.targets if isinstance(n, ast.Assign) else [n.target]):
                if isinstance(t, ast.Name):
                    alldefs.setdefault(t.id, []).append(n)
    ode = [n for n in ast.walk(f) if isinstance(n, ast.Call) and src(n.func) in ('odeint', 'scipy.integrate.odeint')]
    first_ode = min((n.lineno for n in ode), default=None)
    stores = []
    for n in ast.walk(f):
        if isinstance(n, ast.Call) and src(n.func) in ('np.copyto', 'numpy.copyto') and len(n.args) >= 2 and \
                src(n.args[0]).replace(' ', '') in ('sim.py_get_param_values()', 'sim.get_param_values()'):
            stores.append((n, n.args[1]))
        if isinstance(n, ast.Assign) and isinstance(n.targets[0], ast.Subscript) and \
                src(n.targets[0].value).replace(' ', '') in ('sim.py_get_param_values()', 'sim.get_param_values()'):
            stores.append((n, n.value))
    for n, v in stores:
        v = util.strip_cast(v)
        if not isinstance(v, ast.Name):
            if src(v).replace(' ', '') not in fresh:
                problems.append('the parameter array is overwritten with %s' % src(v))
            continue
        ds = alldefs.get(v.id, [])
        bad = [d for d in ds if src(util.strip_cast(d.value)).replace(' ', '') not in fresh]
        if not ds or bad:
            problems.append('the parameter array is overwritten with %s, which can be %s - not a copy of the parameters taken in this call'
                            % (v.id, src(bad[0].value) if bad else 'an argument'))
        elif first_ode is not None and any(d.lineno > first_ode for d in ds):
            problems.append('the reference copy %s is taken after the integration has started' % v.id)
        elif any(not util.guards_of(d, f) <= util.guards_of(n, f) for d in ds):
            problems.append('the reference copy %s is taken under a condition that need not hold where it is written back' % v.id)
    ctx.ob('R8.4-work-on-copies', 'DeterministicSimulator/parameters-restored', not problems, ctx.loc('simulator', f),
           'parameters written back after a deterministic run are a copy taken in the same call before the integration (%d write-backs)' % len(stores),
           '; '.join(problems))
    return f


def check_seed(ctx):
    f = ctx.fn('random:mt_seed')
    seed = f.args.args[0].arg
    txt = [util.stmt_key(s).replace(' ', '') for s in f.body]
    problems = []
    if 'mt[0]=%s' % seed not in txt:
        problems.append('mt[0] is not set from the seed')
    loops = [s for s in f.body if isinstance(s, ast.For)]
    ok_loop = False
    for lp in loops:
        it = src(lp.iter).replace(' ', '')
        v = src(lp.target)
        if it == 'range(1,NN)' and len(lp.body) == 1 and isinstance(lp.body[0], ast.Assign) and src(lp.body[0].targets[0]) == 'mt[%s]' % v \
                and 'mt[%s-1]' % v in src(lp.body[0].value).replace(' ', ''):
            ok_loop = True
            names = {n.id for n in ast.walk(lp.body[0].value) if isinstance(n, ast.Name)}
            if not names <= {'mt', v}:
                problems.append('the state recurrence reads %s' % sorted(names - {'mt', v}))
    if not ok_loop:
        problems.append('words 1..NN-1 are not all derived from the previous word')
    if not any(t.startswith('mag01[0]=') for t in txt) or not any(t.startswith('mag01[1]=') for t in txt):
        problems.append('mag01 not fully written')
    if not txt or txt[-1] != 'mti=NN':
        problems.append('the word index is not reset to NN at the end (forces regeneration on the next draw)')
    g = ctx.fn('random:genrand64')
    if 'mti >= NN' not in [src(s.test) for s in g.body if isinstance(s, ast.If)]:
        problems.append('genrand64 does not regenerate when mti >= NN')
    ctx.ob('R8.5-seed', 'mt_seed', not problems, ctx.loc('random', f),
           'seeding writes every word of the generator state, the mag table and the index as a function of the seed alone', '; '.join(problems))
    # generator state = every module-level variable of random.pyx that some function writes; seeding must (re)write all of it
    rmod = ctx.prog.mod('random')
    module_vars = set()
    for n in rmod.tree.body:
        if isinstance(n, ast.AnnAssign) and isinstance(n.target, ast.Name):
            module_vars.add(n.target.id)
        elif isinstance(n, ast.Assign):
            for t in n.targets:
                if isinstance(t, ast.Name):
                    module_vars.add(t.id)

    def written(fn):
        g = set()
        for n in ast.walk(fn):
            if isinstance(n, ast.Global):
                g |= set(n.names)
        w = set()
        for n in ast.walk(fn):
            if isinstance(n, (ast.Assign, ast.AugAssign, ast.For)):
                tg = n.targets if isinstance(n, ast.Assign) else [n.target]
                for t in tg:
                    base = t
                    while isinstance(base, ast.Subscript):
                        base = base.value
                    if isinstance(base, ast.Name) and base.id in module_vars and (base.id in g or isinstance(t, ast.Subscript)):
                        w.add(base.id)
        return w
    state = {}
    for n in rmod.tree.body:
        if isinstance(n, ast.FunctionDef) and n.name != 'mt_seed':
            for v in written(n):
                state.setdefault(v, n.name)
    seeded = written(f)
    missing = sorted(v for v in state if v not in seeded)
    ctx.ob('R8.5-seed', 'generator-state', not missing and {'mt', 'mti'} <= set(state), ctx.loc('random', f),
           'every module-level variable of the random module that a drawing function writes (the hidden generator state) is rewritten by mt_seed',
           '; '.join('%s is written by %s() but not reset by mt_seed: it survives re-seeding' % (v, state[v]) for v in missing) or 'state variables: %s' % sorted(state))
    f = ctx.fn('random:seed_random')
    s = f.args.args[0].arg
    # on every path on which the seed is not 0, the generator is seeded exactly once, with the seed itself
    ok = True
    n_nonzero = 0
    for p_ in paths.Enumerator().run(f.body, paths.State()):
        tests = {util.canon_test(e.node).replace(' ', ''): e.info for e in p_.events if e.kind == 'test'}
        zero = tests.get('0==%s' % s, tests.get('%s==0' % s))
        if zero is None and ('0!=%s' % s in tests or '%s!=0' % s in tests):
            zero = not tests.get('0!=%s' % s, tests.get('%s!=0' % s))
        calls = [src(c).replace(' ', '') for e in p_.stmts() for c in paths.stmt_calls(e.node, 'mt_seed')]
        if zero is None:
            ok = False
        elif not zero:
            n_nonzero += 1
            ok = ok and calls == ['mt_seed(%s)' % s]
    ok = ok and n_nonzero >= 1
    ctx.ob('R8.5-seed', 'seed_random', ok, ctx.loc('random', f), 'a non-zero seed reaches mt_seed unchanged', '')
    f = ctx.fn('random:py_seed_random')
    ok = [util.stmt_key(x) for x in f.body] == ['seed_random(%s)' % f.args.args[0].arg]
    ctx.ob('R8.5-seed', 'py_seed_random', ok, ctx.loc('random', f), 'py_seed_random forwards the seed', '')
    # who may draw
    prog = ctx.prog
    banned = []
    n_calls = 0
    for m in ('random', 'types', 'simulator', 'lineage', 'inference'):
        mod = prog.mod(m)
        for n in ast.walk(mod.tree):
            if isinstance(n, ast.Call):
                n_calls += 1
                t = src(n.func)
                if t.startswith('np.random.') or t.startswith('numpy.random.') or t.startswith('random.') or t in ('rand', 'srand', 'rand_r') \
                        or t.startswith('time.') or t.startswith('os.urandom') or t.startswith('secrets.'):
                    fn = n
                    while fn is not None and not isinstance(fn, ast.FunctionDef):
                        fn = getattr(fn, '_parent', None)
                    where = fn.name if fn is not None else '<module>'
                    if (m, where, t) in (('random', 'seed_random', 'time.time'), ('types', 'generate_sbml_model', 'np.random.randint')):
                        continue
                    banned.append('%s:%s calls %s (%s)' % (m, where, t, prog.where(m, n)))
    ctx.call_sites += n_calls
    ctx.ob('R8.5-who-may-draw', 'cython-modules', not banned, 'bioscrape/*.pyx, lineage/lineage.pyx',
           'no call in the simulation modules resolves to numpy.random / random / libc rand / time (seed_random(0) and the SBML model id are the named exemptions)',
           '; '.join(banned[:4]) or '%d call sites scanned' % n_calls)
    # positive example: the scanner must see the exempt time.time call
    seen = any(isinstance(n, ast.Call) and src(n.func) == 'time.time' for n in ast.walk(prog.mod('random').tree))
    if not seen:
        raise AnalysisError('who-may-draw scanner lost its positive example (time.time in seed_random)')


EVAL_METHODS = ('get_propensity', 'get_volume_propensity', 'get_stochastic_propensity', 'get_stochastic_volume_propensity',
                'evaluate', 'volume_evaluate', 'get_delay', 'rule_operation', 'rule_volume_operation', 'execute_rule', 'execute_volume_rule',
                'get_volume_step', 'cell_divided')


def check_pure_evaluation(ctx):
    """Rate laws, expression nodes, delays, rules and volume models are evaluated many times per run and across runs: what they return
    may depend on their arguments and on the object's configuration only.  So the evaluation methods of these classes never assign an
    attribute of the object (no memo, no "last value" cache), and the module that defines them keeps no module-level state."""
    prog = ctx.prog
    roots = ('Propensity', 'Term', 'Delay', 'Rule', 'Volume')
    classes = set()
    for r in roots:
        classes.add(r)
        classes |= {c for c in prog.subclasses(r) if prog.classes[c].module in ('types', 'lineage')}
    bad = []
    n = 0
    for cls in sorted(classes):
        ci = prog.classes.get(cls)
        if ci is None:
            continue
        for mname in EVAL_METHODS:
            fn = ci.methods.get(mname) if hasattr(ci, 'methods') else None
            if fn is None:
                continue
            n += 1
            ctx.functions.add('%s:%s.%s' % (ci.module, cls, mname))
            for node in ast.walk(fn):
                if isinstance(node, (ast.Assign, ast.AugAssign, ast.AnnAssign)):
                    for t in (node.targets if isinstance(node, ast.Assign) else [node.target]):
                        base = t
                        while isinstance(base, ast.Subscript):
                            base = base.value
                        if isinstance(base, ast.Attribute) and src(base).startswith('self.'):
                            why = util.complete_memo(fn, node)
                            if why is not None:
                                bad.append('%s.%s assigns %s (%s): %s' % (cls, mname, src(t), prog.where(ci.module, node), why))
                if isinstance(node, ast.Global):
                    bad.append('%s.%s declares global %s' % (cls, mname, ', '.join(node.names)))
    if n < 40:
        raise AnalysisError('anchor vanished: only %d evaluation methods found' % n)
    ctx.ob('R8.7-pure-evaluation', 'methods', not bad, 'bioscrape/types.pyx, lineage/lineage.pyx',
           'no evaluation method of a propensity, expression node, delay, rule or volume model assigns an attribute of its object or a global '
           '(%d methods scanned) - except a memo whose guard compares every input the memoised value depends on' % n, '; '.join(bad[:3]))
    # the model's read accessors (species order, indices, values, dictionaries) answer from the definition as it is now: they keep
    # nothing that a later edit could leave stale
    stale = []
    n_get = 0
    for cls in ('Model', 'LineageModel'):
        ci = prog.classes.get(cls)
        for mname, fn in sorted(ci.methods.items()):
            if mname.startswith('get_') or mname.startswith('py_get_'):
                n_get += 1
                for st_ in util.self_stores(fn):
                    # a cache is sound only if everything that edits the definition (clears `initialized`) resets it too
                    tg = [t_ for t_ in (st_.targets if isinstance(st_, ast.Assign) else [getattr(st_, 'target', None)]) if t_ is not None]
                    attr = None
                    for t_ in tg:
                        b_ = t_
                        while isinstance(b_, ast.Subscript):
                            b_ = b_.value
                        if isinstance(b_, ast.Attribute):
                            attr = src(b_)
                    editors = [(c2, n2, f2) for c2 in prog.mro(cls) for n2, f2 in prog.classes[c2].methods.items()
                               if any(clears_flag(x) for x in ast.walk(f2) if isinstance(x, ast.stmt))]
                    unreset = [n2 for c2, n2, f2 in editors if not any(
                        isinstance(x, ast.Assign) and any(src(t2) == attr for t2 in x.targets) for x in ast.walk(f2))]
                    if attr is None or unreset or not editors:
                        stale.append('%s.%s keeps `%s` (%s), which %s' % (cls, mname, util.stmt_key(st_)[:50], prog.where(ci.module, st_),
                                     'is not reset by the editing method(s) %s' % ', '.join(sorted(set(unreset))[:4]) if unreset else 'nothing resets'))
    if n_get < 15:
        raise AnalysisError('anchor vanished: only %d model accessors found' % n_get)
    ctx.ob('R8.7-pure-evaluation', 'model-accessors', not stale, 'bioscrape/types.pyx, lineage/lineage.pyx',
           'whatever a get_* accessor of Model / LineageModel keeps in the object is reset by every method that edits the definition '
           '(%d accessors scanned; today none keeps anything)' % n_get,
           '; '.join(stale[:3]))
    g = []
    for m in ('types',):
        for node in ast.walk(prog.mod(m).tree):
            if isinstance(node, ast.Global):
                fn = node
                while fn is not None and not isinstance(fn, ast.FunctionDef):
                    fn = getattr(fn, '_parent', None)
                g.append('%s: %s declares global %s (%s)' % (m, fn.name if fn else '<module>', ', '.join(node.names), prog.where(m, node)))
    # module-level containers that functions fill in (a memo dictionary needs no `global` statement)
    for m in ('types', 'simulator', 'lineage', 'random'):
        tree = prog.mod(m).tree
        containers = {}
        for st in tree.body:
            if isinstance(st, ast.Assign) and len(st.targets) == 1 and isinstance(st.targets[0], ast.Name):
                v = st.value
                if isinstance(v, (ast.Dict, ast.List, ast.Set)) or (isinstance(v, ast.Call) and src(v.func).split('.')[-1] in
                                                                  ('dict', 'list', 'set', 'OrderedDict', 'defaultdict', 'WeakValueDictionary', 'WeakKeyDictionary')):
                    containers[st.targets[0].id] = st
        for fn_ in [x for x in ast.walk(tree) if isinstance(x, ast.FunctionDef)]:
            for node in ast.walk(fn_):
                hit = None
                if isinstance(node, (ast.Assign, ast.AugAssign)):
                    for t in (node.targets if isinstance(node, ast.Assign) else [node.target]):
                        b = t
                        while isinstance(b, ast.Subscript):
                            b = b.value
                        if isinstance(t, ast.Subscript) and isinstance(b, ast.Name) and b.id in containers:
                            hit = b.id
                if isinstance(node, ast.Call) and isinstance(node.func, ast.Attribute) and isinstance(node.func.value, ast.Name) \
                        and node.func.value.id in containers and node.func.attr in ('append', 'update', 'setdefault', 'add', 'pop', 'clear', 'extend', 'insert', 'popitem', 'remove'):
                    hit = node.func.value.id
                if hit:
                    g.append('%s: %s() fills the module-level container %s (%s)' % (m, fn_.name, hit, prog.where(m, node)))
    seen = any(isinstance(node, ast.Global) for node in ast.walk(prog.mod('simulator').tree))
    if not seen:
        raise AnalysisError('global-statement scanner lost its positive example (simulator.pyx)')
    ctx.ob('R8.7-pure-evaluation', 'module-state', not g, 'bioscrape/types.pyx (+ simulator, lineage, random for containers)',
           'types.pyx declares no global that functions assign, and no function of the simulation modules fills a module-level container '
           '(nothing survives from one model or run to the next outside the objects themselves)', '; '.join(sorted(set(g))[:3]))


def check_globals(ctx, f):
    en = paths.Enumerator(limit=50000)
    # only the prefix up to the integration loop matters
    body = []
    for s in f.body:
        body.append(s)
        if isinstance(s, ast.While):
            break
    pre = body[:-1]
    txt = [util.stmt_key(s).replace(' ', '') for s in pre]
    ok = "global_simulator=__cast__('void*',sim)" in txt and any(t.startswith('global_derivative_buffer=np.empty(num_species') or
                                                              t.startswith('global_derivative_buffer=np.zeros(num_species') for t in txt)
    top_level = all(s in f.body for s in pre)
    odeint = util.calls_in(f, suffix='odeint')
    ok = ok and top_level and odeint and all(any(c is x for x in ast.walk(body[-1])) for c in odeint)
    g = [s for s in f.body if isinstance(s, ast.Global)]
    names = set(sum([s.names for s in g], []))
    ok = ok and {'global_simulator', 'global_derivative_buffer'} <= names
    ctx.ob('R8.6-global-pointer', 'DeterministicSimulator._helper_simulate', ok, ctx.loc('simulator', f),
           'global_simulator and global_derivative_buffer are assigned from the current interface unconditionally before odeint runs', '')


def check_entry_leaves_no_state(ctx):
    """An interface may be handed to py_simulate_model again and again: what one call stores in it must not decide a later call that
    takes another branch.  Every state-setting call on the interface in py_simulate_model is therefore either made on every call
    (top level of the function) or is one of the two the pinned code has always made conditionally (the grid step on a regular grid -
    an irregular grid warns - and the preparation for a deterministic run, which the stochastic simulators do not read)."""
    f = ctx.fn('simulator:py_simulate_model')
    names = {a.arg for a in f.args.args}
    iface = 'Interface' if 'Interface' in names else None
    if iface is None:
        raise AnalysisError('py_simulate_model: the Interface argument was not found')
    ALLOWED_CONDITIONAL = {'py_set_dt', 'py_prep_deterministic_simulation'}
    problems = []
    n = 0
    for c in ast.walk(f):
        if isinstance(c, ast.Call) and isinstance(c.func, ast.Attribute) and src(c.func.value) == iface and \
                (c.func.attr.startswith('py_set_') or c.func.attr.startswith('set_') or c.func.attr.startswith('py_prep')):
            n += 1
            cur, cond = c, None
            while getattr(cur, '_parent', None) is not None and cur is not f:
                if isinstance(cur._parent, (ast.If, ast.For, ast.While, ast.Try)):
                    cond = cur._parent
                cur = cur._parent
            if cond is not None and c.func.attr not in ALLOWED_CONDITIONAL:
                problems.append('`%s` (%s) is stored in the interface only when `%s`: a later call that takes the other branch runs with the leftover'
                                % (src(c)[:60], ctx.loc('simulator', c), src(cond.test)[:60] if hasattr(cond, 'test') else type(cond).__name__))
    ctx.call_sites += n
    ctx.ob('R8.4-work-on-copies', 'py_simulate_model/interface-state', not problems, ctx.loc('simulator', f),
           'what py_simulate_model stores in a (reusable) interface does not depend on the branch this call takes', '; '.join(problems[:2]))


def check(ctx):
    prog = ctx.prog
    for m in ('types', 'types.pxd', 'simulator', 'simulator.pxd', 'random', 'lineage', 'lineage.pxd', 'inference'):
        prog.mod(m)
    n = check_invalidation(ctx, 'Model', DEF_FIELDS)
    n2 = check_invalidation(ctx, 'LineageModel', DEF_FIELDS | LINEAGE_DEF)
    check_refusal(ctx)
    check_rebuild(ctx)
    check_initialize_once(ctx)
    f = check_copies(ctx)
    check_seed(ctx)
    check_entry_leaves_no_state(ctx)
    check_globals(ctx, f)
    check_pure_evaluation(ctx)
    ctx.floor('R8.1-invalidate', 7)
    ctx.floor('R8.2-stale-refused', 7)
    ctx.floor('R8.3-rebuild', 10)
    ctx.floor('R8.4-work-on-copies', 5)
