"""C10 - delayed reactions deliver their delayed part exactly once, after the delay.

R10.1 one disposition per firing (both delay-capable loops): on every path on which a reaction is
sampled the delay is computed exactly once for that reaction and exactly one of
`q.add_reaction(current_time + delay, reaction, 1.0)` / immediate application of the delayed
column executes, selected by `delay > 0`.
R10.2 delivery: on a queue step get_next_reactions precedes the state update which precedes the
single advance_time; such a step only happens when time moved to the queue time.
R10.3 simulators without delay support use immediate + delayed stoichiometry as one matrix.
R10.4 delay classes read the documented parameters; normal_rv is Box-Muller, gamma_rv is
Marsaglia-Tsang (formulas compared symbolically).
R10.5 the entry point sizes the queue to the grid and the delay simulator aligns it with the
initial time.
The delay distributions themselves (joint law of the generator) are not decided.
"""
import ast
import copy

import sympy as sp

from .. import paths, simloop, symx, util
from ..front import AnalysisError, src
from . import c01

EXPLANATION = __doc__
ASSUMPTIONS = ['uniform_rv() draws are independent U(0,1)']

DELAY_KEYS = {'FixedDelay': ['delay'], 'GaussianDelay': ['mean', 'std'], 'GammaDelay': ['k', 'theta']}


def check_loop(ctx, key):
    sl = simloop.SimLoop(ctx, key)
    sname = sl.state_name()
    stores = {st: simloop.classify_store(st, sname, sl.f) for st in simloop.state_stores(sl.f, sname)}
    pths = sl.iteration_paths()
    v1, v2 = [], []
    fired = queued = 0
    for p in pths:
        ev = p.events
        smp = [i for i, e in enumerate(ev) if e.kind == 'stmt' and paths.stmt_calls(e.node, 'sample_discrete')]
        dly = [i for i, e in enumerate(ev) if e.kind == 'stmt' and paths.stmt_calls(e.node, 'compute_delay')]
        enq = [i for i, e in enumerate(ev) if e.kind == 'stmt' and paths.stmt_calls(e.node, 'add_reaction')]
        app = [i for i, e in enumerate(ev) if e.kind == 'stmt' and e.node in stores and stores[e.node][0] == 'delayed']
        imm = [i for i, e in enumerate(ev) if e.kind == 'stmt' and e.node in stores and stores[e.node][0] == 'immediate']
        getq = [i for i, e in enumerate(ev) if e.kind == 'stmt' and paths.stmt_calls(e.node, 'get_next_reactions')]
        adv = [i for i, e in enumerate(ev) if e.kind == 'stmt' and paths.stmt_calls(e.node, 'advance_time')]
        qst = [i for i, e in enumerate(ev) if e.kind == 'stmt' and e.node in stores and stores[e.node][0] == 'queue']
        if smp:
            fired += 1
            chosen = None
            st = ev[smp[0]].node
            if isinstance(st, ast.Assign):
                chosen = src(st.targets[0])
            if len(dly) != 1:
                v1.append((p, '%d delay draws for one firing' % len(dly)))
            else:
                d = ev[dly[0]].node
                c = paths.stmt_calls(d, 'compute_delay')[0]
                args = [src(util.strip_cast(a)).replace(' ', '') for a in c.args]
                if args != ['%s.data' % sname, chosen] or dly[0] < smp[0]:
                    v1.append((p, 'delay drawn as %s (expected for the sampled reaction %s after sampling)' % (util.stmt_key(d), chosen)))
                dvar = src(d.targets[0]) if isinstance(d, ast.Assign) else None
                if len(enq) + len(app) != 1:
                    v1.append((p, 'a firing enqueues %d times and applies the delayed column %d times (must be exactly one of the two)' % (len(enq), len(app))))
                else:
                    # the selecting test
                    tests = [e for e in ev[dly[0]:] if e.kind == 'test' and dvar and dvar in src(e.node)]
                    if not tests:
                        v1.append((p, 'the disposition is not selected by the drawn delay'))
                    else:
                        t = tests[0]
                        tt = src(t.node).replace(' ', '')
                        positive = (tt in ('%s>0.0' % dvar, '%s>0' % dvar) and t.info) or (tt in ('%s<=0.0' % dvar, '%s<=0' % dvar) and not t.info)
                        if enq and not positive:
                            v1.append((p, 'enqueued although the test `%s` was %s' % (src(t.node), t.info)))
                        if app and positive:
                            v1.append((p, 'delayed column applied at once although the delay is positive'))
                    if enq:
                        c = paths.stmt_calls(ev[enq[0]].node, 'add_reaction')[0]
                        args = [src(a).replace(' ', '') for a in c.args]
                        if args not in (['current_time+%s' % dvar, chosen, '1.0'], ['%s+current_time' % dvar, chosen, '1.0'],
                                        ['current_time+%s' % dvar, chosen, '1']):
                            v1.append((p, 'enqueued with arguments %s' % args))
                    if enq and imm and enq[0] < smp[0]:
                        v1.append((p, 'enqueue precedes sampling'))
        else:
            if dly or enq or app:
                v1.append((p, 'delay machinery runs on a path without a sampled reaction'))
        if getq or adv or qst:
            queued += 1
            if len(getq) != 1 or len(adv) != 1 or len(qst) != 1 or not (getq[0] < qst[0] < adv[0]):
                v2.append((p, 'queue step performs get_next_reactions x%d, state update x%d, advance_time x%d (order %s)'
                           % (len(getq), len(qst), len(adv), [getq, qst, adv])))
            if smp:
                v2.append((p, 'a queue delivery and a firing in the same iteration'))
            last_ct = None
            for e in ev[:(getq or adv or qst)[0]]:
                if e.kind == 'stmt' and isinstance(e.node, ast.Assign) and src(e.node.targets[0]) == 'current_time':
                    last_ct = e.node
            if last_ct is None or 'queue' not in src(last_ct.value):
                v2.append((p, 'queue delivered while current_time = %s' % (src(last_ct.value) if last_ct is not None else None)))

    def fmt(lst):
        return '; '.join('%s on path [%s]' % (m, paths.describe(p, 7)) for p, m in lst[:2])
    ctx.ob('R10.1-one-disposition', key, not v1 and fired > 0, sl.where,
           'per firing: one delay draw for the sampled reaction, then exactly one of enqueue(current_time+delay) / apply delayed column',
           fmt(v1) or '%d firing paths' % fired)
    ctx.ob('R10.2-delivery', key, not v2 and queued > 0, sl.where,
           'queue step: get_next_reactions, then state += amount[r]*delayed column r, then one advance_time, at the queue time',
           fmt(v2) or '%d queue-step paths' % queued)
    # pending deliveries are part of the future of the system: the loop may only end by running out of time points (division aside), and
    # result rows are written by the one recording loop - never "filled in" on the assumption that a state without propensity is final
    v3 = []
    for p in pths:
        if p.exit in ('break', 'return'):
            tests = [util.canon_test(e.node) for e in p.events if e.kind == 'test' and e.info]
            if not any('cell_divided' in t or 'divided' in t for t in tests):
                v3.append((p, 'the loop is left early (%s)' % p.exit))
    rec_stores = [n for n in ast.walk(sl.loop) if isinstance(n, ast.Assign) and isinstance(n.targets[0], ast.Subscript)
                  and src(n.targets[0].value) == 'c_results']
    if len(rec_stores) != 1:
        v3.append((pths[0], 'result rows are written at %d places in the loop' % len(rec_stores)))
    ctx.ob('R10.2-no-early-exit', key, not v3, sl.where,
           'with deliveries possibly pending, the delay loop ends only when the time grid is exhausted (or the cell divides); rows are written by the recording loop only',
           fmt(v3))
    # the queue time compared is read from the queue in this iteration
    reads = [n for n in ast.walk(sl.loop) if isinstance(n, ast.Assign) and 'get_next_queue_time' in src(n.value)]
    ctx.ob('R10.2-queue-time', key, len(reads) == 1 and src(reads[0].value) == 'q.get_next_queue_time()', sl.where,
           'the next delivery time is read from the queue in every iteration', '; '.join(util.stmt_key(r) for r in reads))


def check_delay_classes(ctx):
    prog = ctx.prog
    calls = {'FixedDelay': None, 'GaussianDelay': 'normal_rv', 'GammaDelay': 'gamma_rv'}
    for cls, keys in DELAY_KEYS.items():
        table, _, finit = c01.binding(ctx, cls)
        f = ctx.fn('types:%s.get_delay' % cls)
        where = ctx.loc('types', f)
        roles = {}
        for k in keys:
            b = table.get(k, ([], None, None))[0]
            if len(b) == 1 and b[0][1] == 'parameter_indices':
                roles[k] = b[0][0]
        rets = [s for s in f.body if isinstance(s, ast.Return)]
        problems = []
        if len(roles) != len(keys):
            problems.append('initialize binds %s, expected keys %s from parameter_indices' % (sorted(roles), keys))
        elif len(rets) != 1:
            problems.append('get_delay has %d returns' % len(rets))
        else:
            pa = f.args.args[2].arg
            # locals defined once in the body (`cdef double mean = params[self.mean_index]`) are read through
            ldefs = {n_: v_ for n_, v_ in util.single_defs(f).items() if v_ is not None}
            v = util.inline(rets[0].value, ldefs)
            want_args = ['%s[self.%s]' % (pa, roles[k]) for k in keys]
            if calls[cls] is None:
                if src(v) != want_args[0]:
                    problems.append('returns %s, expected %s' % (src(v), want_args[0]))
            else:
                if not (isinstance(v, ast.Call) and src(v.func).split('.')[-1] == calls[cls] and [src(a) for a in v.args] == want_args):
                    problems.append('returns %s, expected %s(%s)' % (src(v), calls[cls], ', '.join(want_args)))
        ctx.ob('R10.4-delay-class', cls, not problems, where,
               '%s.get_delay draws from its family with the documented parameters %s' % (cls, keys), '; '.join(problems))
    # create_reaction dispatch
    f = ctx.fn('types:Model.create_reaction')
    disp = None
    for n in ast.walk(f):
        if isinstance(n, ast.If):
            d = util.string_dispatch([n], 'delay_type')
            if d and 'fixed' in d[0] and disp is None:
                disp = d
    want = {'fixed': 'FixedDelay', 'gaussian': 'GaussianDelay', 'gamma': 'GammaDelay', 'none': 'NoDelay'}
    problems = []
    if disp is None:
        problems.append('delay type dispatch not found')
    else:
        for t, cls in want.items():
            body = disp[0].get(t)
            inst = [src(n.value.func) for n in ast.walk(ast.Module(body=body or [], type_ignores=[]))
                    if isinstance(n, ast.Assign) and isinstance(n.value, ast.Call) and src(n.value.func).endswith('Delay')]
            if inst != [cls]:
                problems.append("delay type '%s' creates %s" % (t, inst))
    ctx.ob('R10.4-delay-class', 'dispatch', not problems, ctx.loc('types', f), 'delay type strings create the matching delay class', '; '.join(problems))
    # ... and that object is what the reaction keeps: _add_reaction replaces it by NoDelay() only when none was given
    g = ctx.fn('types:Model._add_reaction')
    dname = 'delay_object'
    problems = []
    rebinds = [n for n in ast.walk(g) if isinstance(n, ast.Assign) and any(src(t) == dname for t in n.targets)]
    for n in rebinds:
        gd = sorted(x.replace(' ', '') for x in util.guards_of(n, g))
        if src(n.value).replace(' ', '') != 'NoDelay()' or gd not in (['%s==None' % dname], ['None==%s' % dname], ['%sisNone' % dname]):
            problems.append('the delay object is replaced by `%s` under %s' % (src(n.value), gd))
    tup = [n for n in ast.walk(g) if isinstance(n, ast.Call) and src(n.func) == 'self.reaction_list.append']
    if len(tup) != 1 or not isinstance(tup[0].args[0], ast.Tuple) or len(tup[0].args[0].elts) != 4 or src(tup[0].args[0].elts[1]) != dname:
        problems.append('the reaction tuple does not carry the delay object')
    ctx.ob('R10.4-delay-class', 'kept', not problems, ctx.loc('types', g),
           'the delay object built for a reaction is the one stored with it (NoDelay only when no delay was given)', '; '.join(problems))


def check_samplers(ctx):
    prog = ctx.prog
    f = ctx.fn('random:normal_rv')
    se = symx.SymExec(prog, None, fresh_calls=('uniform_rv',))
    mean, std = symx.possym('mean'), symx.possym('std')
    a = [x.arg for x in f.args.args]
    cases = se.run(f, {a[0]: mean, a[1]: std})
    U1, U2 = sp.Symbol('uniform_rv#1', positive=True), sp.Symbol('uniform_rv#2', positive=True)
    ok = False
    detail = ''
    if len(cases) == 1 and se.fresh_count.get('uniform_rv') == 2:
        val = cases[0].value
        detail = str(val)
        for (x, y) in ((U1, U2), (U2, U1)):
            for trig in (sp.cos, sp.sin):
                eq, _ = symx.equal(val, sp.sqrt(-2 * sp.log(x)) * trig(2 * sp.pi * y) * std + mean)
                ok = ok or eq
    ctx.ob('R10.4-sampler', 'normal_rv', ok, ctx.loc('random', f),
           'normal_rv(mean, std) == sqrt(-2 log U1) * cos(2 pi U2) * std + mean (Box-Muller, two uniforms)', detail)
    # gamma
    f = ctx.fn('random:gamma_rv')
    where = ctx.loc('random', f)
    problems = []
    loops = [s for s in f.body if isinstance(s, ast.While)]
    if len(loops) != 1 or not (isinstance(loops[0].test, ast.Constant) and loops[0].test.value in (True, 1)):
        raise AnalysisError('gamma_rv: rejection loop `while True` not found')
    lp = loops[0]
    g = copy.copy(f)
    g.body = f.body[:f.body.index(lp)] + lp.body
    se = symx.SymExec(prog, None, fresh_calls=('uniform_rv', 'normal_rv'))
    k, theta = symx.possym('k'), symx.possym('theta')
    a = [x.arg for x in f.args.args]
    cases = [c for c in se.run(g, {a[0]: k, a[1]: theta}) if c.value != sp.Symbol('RAISE')]
    nr = util.calls_in(lp, suffix='normal_rv')
    if len(nr) != 1 or [util.const_num(x) for x in nr[0].args] != [0, 1]:
        problems.append('the proposal is not one normal_rv(0, 1) draw per trial')
    if se.fresh_count.get('uniform_rv') != 1:
        problems.append('%s uniform draws per trial, expected 1' % se.fresh_count.get('uniform_rv'))
    X, U = sp.Symbol('normal_rv#1', positive=True), sp.Symbol('uniform_rv#1', positive=True)
    X = sp.Symbol('normal_rv#1', positive=True)
    if len(cases) != 1 or not cases[0].conds:
        problems.append('expected one accepting return inside the loop')
    else:
        c = cases[0]
        # `if a and b:` and `if a: if b:` are the same acceptance test: collect the conjuncts of everything that holds at the return
        conj = []
        all_true = True
        for cd, tr in c.conds:
            all_true = all_true and tr
            conj += list(cd.args) if isinstance(cd, sp.And) else [cd]
        c = symx.Case([(sp.And(*conj, evaluate=False) if len(conj) > 1 else conj[0], all_true)], c.value, c.node)
        d = k - sp.Rational(1, 3)
        vv = (1 + X / sp.sqrt(9 * d)) ** 3
        eq, wit = symx.equal(c.value, d * vv * theta)
        if not eq:
            problems.append('accepted value is %s, expected d*v*theta with d = k-1/3, v = (1+x/sqrt(9d))^3; %s' % (c.value, wit))
        cond, truth = c.conds[0]
        if not truth or not isinstance(cond, sp.And) or len(cond.args) != 2:
            problems.append('acceptance test %s is not `v > 0 and log(U) < ...`' % cond)
        else:
            pos = [x for x in cond.args if isinstance(x, (sp.StrictGreaterThan, sp.StrictLessThan)) and not x.has(U)]
            acc = [x for x in cond.args if x.has(U)]
            if len(pos) != 1 or len(acc) != 1:
                problems.append('acceptance test %s is not `v > 0 and log(U) < ...`' % cond)
            else:
                pv = pos[0].lhs - pos[0].rhs if isinstance(pos[0], sp.StrictGreaterThan) else pos[0].rhs - pos[0].lhs
                eq, _ = symx.equal(pv, vv)
                if not eq:
                    problems.append('positivity test is on %s, not on v' % pv)
                r = acc[0]
                if isinstance(r, (sp.StrictLessThan, sp.LessThan)):
                    lhs, rhs = r.lhs, r.rhs
                elif isinstance(r, (sp.StrictGreaterThan, sp.GreaterThan)):
                    lhs, rhs = r.rhs, r.lhs
                else:
                    lhs = rhs = None
                if lhs is None:
                    problems.append('acceptance comparison not understood: %s' % r)
                else:
                    eq, wit = symx.equal(lhs - rhs, sp.log(U) - (X ** 2 / 2 + d - d * vv + d * sp.log(vv)))
                    if not eq:
                        problems.append('acceptance bound differs from x^2/2 + d - d v + d log v: %s' % wit)
    ctx.ob('R10.4-sampler', 'gamma_rv', not problems, where,
           'gamma_rv(k, theta) is Marsaglia-Tsang: d=k-1/3, c=1/sqrt(9d), v=(1+cx)^3, accept iff v>0 and log U < x^2/2+d-dv+d log v, value d v theta',
           '; '.join(problems))


def check_setup(ctx):
    f = ctx.fn('simulator:py_simulate_model')
    # the queue the delay simulators are given: the local (whatever its name) assigned from ArrayDelayQueue.setup_queue(...), its three
    # arguments read through single-definition temporaries
    fd_ = {n_: v_ for n_, v_ in util.single_defs(f).items() if v_ is not None}
    qs = [n for n in ast.walk(f) if isinstance(n, ast.Assign) and isinstance(n.value, ast.Call) and src(n.value.func).replace(' ', '') == 'ArrayDelayQueue.setup_queue']
    ok = False
    if len(qs) == 1 and len(qs[0].value.args) == 3 and not qs[0].value.keywords:
        a_ = [src(util.inline(x_, {n_: v_ for n_, v_ in fd_.items() if n_ != 'dt'})).replace(' ', '') for x_ in qs[0].value.args]
        ok = a_[0] == 'Interface.py_get_num_reactions()' and a_[1] in ('len(timepoints)', 'timepoints.shape[0]') and \
            a_[2] in ('timepoints[1]-timepoints[0]', 'dt')
    ctx.ob('R10.5-queue-setup', 'py_simulate_model', ok, ctx.loc('simulator', qs[0]) if qs else ctx.loc('simulator', f),
           'the queue has one row per reaction, one slot per time point and the grid step', '; '.join(src(q.value) for q in qs))
    f = ctx.fn('simulator:ArrayDelayQueue.setup_queue')
    rets = [s for s in f.body if isinstance(s, ast.Return)]
    a = [x.arg for x in f.args.args]
    sd_ = {n_: v_ for n_, v_ in util.single_defs(f).items() if v_ is not None}
    ok = False
    if len(rets) == 1:
        rv = util.inline(rets[0].value, sd_)
        # ArrayDelayQueue(np.zeros((reactions, slots)[, dtype = a double type]), dt, 0)
        if isinstance(rv, ast.Call) and src(rv.func) == 'ArrayDelayQueue' and len(rv.args) == 3 and not rv.keywords:
            z, d_, t0 = rv.args
            zkw = {k_.arg: src(k_.value).replace(' ', '') for k_ in z.keywords} if isinstance(z, ast.Call) else None
            ok = isinstance(z, ast.Call) and src(z.func) in ('np.zeros', 'numpy.zeros') and len(z.args) == 1 \
                and src(z.args[0]).replace(' ', '') in ('(%s,%s)' % (a[0], a[1]), '[%s,%s]' % (a[0], a[1])) \
                and set(zkw) <= {'dtype'} and zkw.get('dtype', 'float') in ('float', 'np.float64', 'np.double', 'np.float_', 'numpy.float64', "'float64'", "'d'", 'np.dtype(float)') \
                and src(d_) == a[2] and src(t0) in ('0.0', '0', '0.')
    ok = ok and not any(isinstance(n_, ast.Global) for n_ in ast.walk(f))
    ctx.ob('R10.5-queue-setup', 'setup_queue', ok, ctx.loc('simulator', f), 'setup_queue builds an empty (reactions x slots) queue with step dt', '')
    sl = simloop.SimLoop(ctx, 'DelaySSASimulator')
    # q.set_current_time(<the interface's initial time>) at the top level of the set-up code (the value may go through a local)
    sets = [s_ for s_ in sl.pre if isinstance(s_, ast.Expr) and isinstance(s_.value, ast.Call) and src(s_.value.func).replace(' ', '') == 'q.set_current_time'
            and len(s_.value.args) == 1]
    ok, det = False, '%d calls of q.set_current_time in the set-up code' % len(sets)
    if len(sets) == 1:
        a_ = util.strip_cast(sets[0].value.args[0])
        if isinstance(a_, ast.Name):
            v_ = sl.prelude_assign(a_.id, resolve=True) if a_.id not in sl.prelude_aliases() else sl.prelude_aliases()[a_.id]
            raw_ = sl.prelude_assign(a_.id) if a_.id not in sl.prelude_aliases() else v_
            ok = v_ is not None and src(util.strip_cast(v_)).replace(' ', '') == 'sim.get_initial_time()' and raw_.lineno <= sets[0].lineno
            det = 'the queue clock is set to %s = %s' % (a_.id, src(v_) if v_ is not None else None)
        else:
            ok = src(a_).replace(' ', '') == 'sim.get_initial_time()'
            det = 'the queue clock is set to %s' % src(a_)
    ctx.ob('R10.5-queue-setup', 'DelaySSASimulator/align', ok, sl.where, 'the queue is aligned with the initial time before the loop', det)


def check_nodelay(ctx):
    for key in ('SSASimulator', 'VolumeSSASimulator'):
        sl = simloop.SimLoop(ctx, key)
        sname = sl.state_name()
        ms = set()
        for st in simloop.state_stores(sl.f, sname):
            k, d = simloop.classify_store(st, sname, sl.f)
            if k in ('immediate', 'delayed'):
                m = sl.prelude_assign(d[0])
                ms.add(src(m).replace(' ', '') if m is not None else None)
        ok = ms and ms <= {'sim.get_update_array()+sim.get_delay_update_array()', 'sim.get_delay_update_array()+sim.get_update_array()'}
        ctx.ob('R10.3-no-delay-sum', key, ok, sl.where, 'a simulator without delay support applies immediate + delayed stoichiometry at the firing time', str(sorted(map(str, ms))))


def check(ctx):
    prog = ctx.prog
    prog.mod('types'); prog.mod('types.pxd'); prog.mod('simulator'); prog.mod('simulator.pxd'); prog.mod('random')
    for key in ('DelaySSASimulator', 'DelayVolumeSSASimulator'):
        check_loop(ctx, key)
    from .c05 import RACE_WHAT
    for key in ('DelaySSASimulator', 'DelayVolumeSSASimulator'):
        sl_ = simloop.SimLoop(ctx, key)
        pr_, n_ = simloop.event_race(sl_)
        try:
            pr2_, n2_ = simloop.event_race_run(sl_)
        except AnalysisError as e_:
            # the scripted run cannot be evaluated on this source (a value the evaluator does not know decides the control flow): this
            # rule gives no verdict - the path rules of the property do - and says so
            ctx.note('R10.1-event-race %s: the scripted run was not evaluated (%s)' % (key, e_))
            pr2_, n2_ = [], 0
        if pr_ is None:     # a pass is not evaluable in isolation (it reads locals carried between passes): the run decides
            pr_, n_ = [], 0
        ctx.ob('R10.1-event-race', key, not pr_ and not pr2_, sl_.where, RACE_WHAT % (n_, n2_), '; '.join((pr2_ + pr_)[:2]))
    check_nodelay(ctx)
    check_delay_classes(ctx)
    check_samplers(ctx)
    check_setup(ctx)
    # the queue the delay loops rely on (shared with C20): slot rounding/clamping/accumulation and delivery
    from . import c20
    c20.check_add(ctx)
    c20.check_delivery(ctx)
    # what is delivered is the delayed stoichiometry of the reaction list (C03 R3.1 for the delayed lists, R3.3) - re-emitted here
    from ..core import SubCtx
    from . import c03
    sub = SubCtx(ctx)
    c03.check_accumulation(sub)
    c03.check_matrices(sub)
    for rule, key, ok, where, what, detail in sub.got:
        if (rule == 'R3.1-accumulation' and key.startswith('delay')) or rule == 'R3.3-matrix-fill':
            ctx.ob('R10.3-delayed-stoichiometry', '%s/%s' % (rule, key), ok, where, what, detail)
    ctx.floor('R10.1-one-disposition', 2)
    ctx.floor('R10.2-delivery', 2)
    ctx.floor('R10.4-sampler', 2)
