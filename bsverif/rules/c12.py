"""C12 - writing a model to SBML and reading it back preserves its behaviour (writer/reader agreement).

R12.1 annotation key agreement: for every propensity type the keys its constructor requires are
emitted by the writer (or reconstructed by create_reaction), every delay parameter key the model
can hold is handled by the reader, the rule frequency key is written and read under the same
name, with the same separators.
R12.2 exhaustiveness: every propensity / delay / rule type the model accepts has a non-raising
writer branch; every model-supplied value concatenated into an annotation is converted with str().
R12.3 nothing dropped: the writer iterates over all parameters, species, reaction definitions and
rule definitions and forwards all 8 reaction fields, the rule frequency and the stochastic flag;
the model records the 8-field and 3-field tuples; numeric arguments become valued parameters.
R12.5 formula language: the libsbml parser used at each writing site (kinetic law, rule), followed by the reader's
L3 printer and bioscrape's parser, keeps the meaning of exp/log/abs/min/max/Heaviside and of the operator grammar.
R12.4 the only non-deterministic call on the export path is the generated model id.
The round trip through libsbml itself is not decided.
"""
import ast

from .. import util
from ..front import AnalysisError, src
from . import c13, c14

EXPLANATION = __doc__
ASSUMPTIONS = ['libsbml serialises and parses annotations and ids as given']
HILLS = c14.HILLS


def k(t):
    """remove blanks outside string literals"""
    out = []
    q = None
    for ch in t:
        if q:
            out.append(ch)
            if ch == q:
                q = None
        elif ch in ('"', "'"):
            q = ch
            out.append(ch)
        elif ch != ' ':
            out.append(ch)
    return ''.join(out)


def writer_prop_keys(f):
    """propensity type -> set of annotation keys the writer emits (besides 'type')."""
    out = {}
    chains = [s for s in f.body if isinstance(s, ast.If) and util.eq_literals(s.test, 'propensity_type')]
    for ch in chains:
        for test, body in util.if_chain(ch):
            lits = util.eq_literals(test, 'propensity_type') if test is not None else None
            if not lits:
                continue
            keys = set()
            raises = any(isinstance(x, ast.Raise) for x in body)
            for n in ast.walk(ast.Module(body=body, type_ignores=[])):
                if isinstance(n, ast.Assign) and isinstance(n.targets[0], ast.Subscript) and src(n.targets[0].value) == 'propensity_annotation_dict' \
                        and isinstance(n.targets[0].slice, ast.Constant):
                    keys.add(n.targets[0].slice.value)
            for l in lits:
                out.setdefault(l, set()).update(keys)
    return out


def required_prop_keys(ctx):
    f = ctx.fn('types:Model.create_propensity')
    var = f.args.args[1].arg
    disp = util.string_dispatch(f.body, var)
    if disp is None:
        raise AnalysisError('create_propensity dispatch not found')
    req = {}
    for lit, body in disp[0].items():
        keys = set()
        for c in util.calls_in(ast.Module(body=body, type_ignores=[]), suffix='_param_dict_check'):
            if len(c.args) >= 2 and isinstance(c.args[1], ast.Constant):
                keys.add(c.args[1].value)
        for n in ast.walk(ast.Module(body=body, type_ignores=[])):
            if isinstance(n, ast.Subscript) and src(n.value) == f.args.args[2].arg and isinstance(n.slice, ast.Constant) and isinstance(n.ctx, ast.Load):
                keys.add(n.slice.value)
        req[lit] = keys
    raises_unknown = disp[1] is not None and any(isinstance(x, ast.Raise) for x in disp[1])
    return req, raises_unknown


def check_keys(ctx):
    fw = c14.get_func(ctx, 'add_reaction')
    wk = writer_prop_keys(fw)
    req, _ = required_prop_keys(ctx)
    fcr = ctx.fn('types:Model.create_reaction')
    rebuilt = set()
    for n in ast.walk(fcr):
        if isinstance(n, ast.Assign) and k(src(n.targets[0])) == "propensity_param_dict['species']":
            g = util.guards_of(n, fcr)
            if g == {"'species'not inpropensity_param_dict", "'massaction'==propensity_type"}:
                rebuilt.add('species')
    for ptype, keys in sorted(req.items()):
        if ptype == 'general':
            continue
        emitted = wk.get(ptype, set())
        missing = keys - emitted - (rebuilt if ptype == 'massaction' else set())
        ctx.ob('R12.1-propensity-keys', ptype, not missing and 'k' in emitted, ctx.loc('sbmlutil', fw),
               "every key the '%s' propensity needs (%s) is written into <PropensityType> or rebuilt from the reactants" % (ptype, sorted(keys)),
               'missing from the annotation: %s (writer emits %s)' % (sorted(missing), sorted(emitted)) if missing else '')
    # the values written for species keys are the exported ids, for parameters the model's names
    txt = [k(util.stmt_key(s)) for s in ast.walk(fw) if isinstance(s, ast.stmt)]
    ok = txt.count('propensity_annotation_dict["s1"]=s_species_id'.replace('"', "'")) == 4 and txt.count("propensity_annotation_dict['d']=d_species_id") == 2 \
        and "propensity_annotation_dict={'type':propensity_type}" in txt
    ctx.ob('R12.1-propensity-keys', 'values', ok, ctx.loc('sbmlutil', fw), "the annotation carries the type string and, for species keys, the exported species id", '')
    # reader side: generic key=value parse, type taken from the annotation
    fr = c13.func(ctx, 'import_sbml_reactions')
    rt = [k(util.stmt_key(s)) for s in ast.walk(fr) if isinstance(s, ast.stmt)]
    ok = 'annotation_list=annotation_string[ind0:ind1].split(\' \')' in rt and \
        "key_vals=[(i.split('=')[0],i.split('=')[1])foriinannotation_listif'='ini]" in rt and 'propensity_params[k]=v' in rt
    # every key=value pair of the propensity annotation is kept, on every path of the reader loop
    from .. import paths as _paths
    ploops = [n for n in ast.walk(fr) if isinstance(n, ast.For) and k(src(n.iter)) == 'key_vals'
              and any(isinstance(x, ast.Assign) and k(src(x.targets[0])) == 'propensity_params[k]' for x in ast.walk(n))]
    kept = len(ploops) == 1
    if kept:
        for p_ in _paths.Enumerator().run(ploops[0].body, _paths.State()):
            if p_.exit == 'fall' and not any(isinstance(e.node, ast.Assign) and k(src(e.node.targets[0])) == 'propensity_params[k]' for e in p_.stmts()):
                kept = False
    ok = ok and kept
    got_p, got_d, num_problem = written_annotations(fw)
    sep_w = got_p == {'type': 'T', 'k': 'Pk', 's1': 'Ps1'}
    ctx.ob('R12.1-separators', 'propensity', ok and sep_w, ctx.loc('sbmlutil', fr),
           "writer and reader agree on ' ' between pairs and '=' inside a pair (the writer's string for a sample dictionary, split the reader's way, gives the dictionary back)",
           '' if sep_w else 'the reader would recover %r' % (got_p,))
    # delay
    fcr_txt = [k(util.stmt_key(s)) for s in ast.walk(fcr) if isinstance(s, ast.stmt)]
    dreq = set()
    for c in util.calls_in(fcr, suffix='_param_dict_check'):
        if src(c.args[0]) == 'delay_param_dict' and isinstance(c.args[1], ast.Constant):
            dreq.add(c.args[1].value)
    handled = set()
    # the reader's own body and the module-level helpers it hands the key=value pairs to
    smod = ctx.prog.mod('sbmlutil')
    consts = {st.targets[0].id: st.value for st in smod.tree.body if isinstance(st, ast.Assign) and len(st.targets) == 1
              and isinstance(st.targets[0], ast.Name) and isinstance(st.value, (ast.Tuple, ast.List, ast.Set))}
    scopes = [fr]
    for c_ in ast.walk(fr):
        if isinstance(c_, ast.Call) and isinstance(c_.func, ast.Name) and any(src(a_) == 'key_vals' for a_ in c_.args):
            scopes += [g_ for g_ in smod.tree.body if isinstance(g_, ast.FunctionDef) and g_.name == c_.func.id]
    for n in [x for sc in scopes for x in ast.walk(sc)]:
        if not isinstance(n, ast.If):
            continue
        keys = util.eq_literals(n.test, 'k')
        if not keys and isinstance(n.test, ast.Compare) and len(n.test.ops) == 1 and isinstance(n.test.ops[0], ast.In) and src(n.test.left) == 'k':
            coll = n.test.comparators[0]
            coll = consts.get(coll.id) if isinstance(coll, ast.Name) else coll
            if isinstance(coll, (ast.Tuple, ast.List, ast.Set)) and all(isinstance(e_, ast.Constant) for e_ in coll.elts):
                if any(isinstance(x, ast.Assign) and k(src(x.targets[0])) == 'delay_params[k]' for x in n.body):
                    handled |= {e_.value for e_ in coll.elts}
        if not keys:
            continue
        body = [k(util.stmt_key(x)) for x in n.body]
        for key in keys:
            if body in (['delay_params[k]=v'], ["delay_params['%s']=v" % key]):
                handled.add(key)
            if key == 'type' and body == ['delay_type=v']:
                handled.add('type')
            if key in ('reactants', 'products') and body == ["delay_%s=v.split(',')" % key]:
                handled.add(key)
    for key in sorted(dreq | {'type', 'reactants', 'products'}):
        ctx.ob('R12.1-delay-keys', key, key in handled, ctx.loc('sbmlutil', fr),
               "the delay annotation key '%s' written for a model is read back into the same field" % key, 'reader handles %s' % sorted(handled))
    want_d = {'type': 'DT', 'reactants': 'R1,R1,R2', 'products': 'P1', 'delay': 'Dd', 'sigma': 'Ds'}
    ctx.ob('R12.1-separators', 'delay', got_d == want_d, ctx.loc('sbmlutil', fw),
           "delay annotation: ' ' between pairs, '=' inside, ',' inside lists, every list entry kept with its multiplicity, parameters flattened",
           '' if got_d == want_d else 'for reactants [R1, R1, R2], products [P1], parameters {delay, sigma} the reader would recover %r' % (got_d,))
    # rule frequency
    far = c13.func(ctx, 'add_rule')
    freq = far.args.args[5].arg
    js = [n for n in ast.walk(far) if isinstance(n, ast.Assign) and src(n.targets[0]) == 'rule_annotation_string']
    ok = len(js) == 1 and 'rule_frequency=' in src(js[0].value) and '<BioscrapeRule>' in src(js[0].value)
    frr = c13.func(ctx, 'import_sbml_rules')
    rr = [k(util.stmt_key(s)) for s in ast.walk(frr) if isinstance(s, ast.stmt)]
    # the value read for the key must reach rule_frequency unconditionally (any value the writer can emit - keyword or number - is kept)
    key_ifs = [n for n in ast.walk(frr) if isinstance(n, ast.If) and k(src(n.test)) == "k=='rule_frequency'"]
    ok2 = len(key_ifs) == 1 and any(k(util.stmt_key(x)) == 'rule_frequency=v' for x in key_ifs[0].body) and not key_ifs[0].orelse
    ctx.ob('R12.1-rule-frequency', 'key', ok and ok2, ctx.loc('sbmlutil', far),
           "the rule frequency is written and read under the key 'rule_frequency', and whatever value was written is taken over unconditionally", '')
    # and it is that variable that goes into the rule tuple
    ok3 = 'rule_tuple=(rule_type,rule_dict,rule_frequency)' in rr and 'allrules.append(rule_tuple)' in rr
    defaults = [x for x in rr if x.startswith('rule_frequency=') and x != 'rule_frequency=v']
    ctx.ob('R12.1-rule-frequency', 'forwarded', ok3 and set(defaults) <= {"rule_frequency='repeated'"}, ctx.loc('sbmlutil', frr),
           "the frequency read from the annotation (default 'repeated' without annotation) is what the imported rule gets", str(defaults))
    return fw, far


def concat_operands(n):
    if isinstance(n, ast.BinOp) and isinstance(n.op, ast.Add):
        return concat_operands(n.left) + concat_operands(n.right)
    return [n]


def annotation_blocks(fw):
    blocks = []
    for st in fw.body:
        if isinstance(st, ast.If):
            tgt = {src(t) for n in ast.walk(st) if isinstance(n, (ast.Assign, ast.AugAssign)) for t in (n.targets if isinstance(n, ast.Assign) else [n.target])}
            if tgt & {'propensity_annotation_string', 'delay_annotation_string'} and 'ratestring' not in tgt:
                blocks.append(st)
    if len(blocks) != 2:
        raise AnalysisError('add_reaction: the two annotation-writing blocks were not found (%d)' % len(blocks))
    return blocks


def written_annotations(fw):
    """Evaluate the writer's annotation code on a sample reaction (values are named holes) and split the result the reader's way.
    -> (propensity pairs, delay pairs, problem with numeric values or None)"""
    from ..templates import StrExec, Hole
    blocks = annotation_blocks(fw)

    def run(numeric):
        val = (lambda name, num: num) if numeric else (lambda name, num: Hole(name))
        env = {'propensity_type': 'hillpositive',
               'propensity_annotation_dict': {'type': Hole('T'), 'k': val('Pk', 2.5), 's1': Hole('Ps1')},
               'delay_annotation_dict': {'type': Hole('DT'), 'reactants': [Hole('R1'), Hole('R1'), Hole('R2')], 'products': [Hole('P1')],
                                         'parameters': {'delay': val('Dd', 3), 'sigma': val('Ds', 0.5)}}}
        ex = StrExec(env, ('propensity_annotation_string', 'delay_annotation_string'))
        ex.run(blocks)
        return ex.env.get('propensity_annotation_string'), ex.env.get('delay_annotation_string')

    def pairs(text, tag):
        if not isinstance(text, str) or not (text.startswith('<%s>' % tag) and text.endswith('</%s>' % tag)):
            return None
        body = text[len(tag) + 2:-(len(tag) + 3)]
        toks = body.split(' ')
        out = {}
        for t in toks:
            if '=' in t:
                out[t.split('=')[0]] = t.split('=')[1]
            elif t != '':
                out[t] = None
        return out
    sp_, sd_ = run(False)
    num_problem = None
    try:
        a, b = run(True)
        if not (isinstance(a, str) and isinstance(b, str)):
            num_problem = 'with numeric values the annotation strings are not determined'
    except AnalysisError as e:
        num_problem = 'a numeric value is concatenated without str(): %s' % e
    return pairs(sp_, 'PropensityType'), pairs(sd_, 'DelayType'), num_problem


def check_str_wrapped(ctx, fw, far):
    _, _, num_problem = written_annotations(fw)
    ctx.ob('R12.2-str-wrapped', fw.name, num_problem is None, ctx.loc('sbmlutil', fw),
           'every model-supplied value concatenated into an annotation string is converted with str() (numbers are legal values): the '
           'annotation code is evaluated on a sample reaction whose parameter values are numbers', num_problem or '')
    for f, tracked in ((far, ('rule_annotation_string',)),):
        bad = []
        for n in ast.walk(f):
            val = None
            if isinstance(n, ast.Assign) and src(n.targets[0]) in tracked:
                val = n.value
            elif isinstance(n, ast.AugAssign) and src(n.target) in tracked:
                val = n.value
            if val is None:
                continue
            for op in concat_operands(val):
                if isinstance(op, ast.Constant) and isinstance(op.value, str):
                    continue
                if isinstance(op, ast.JoinedStr):
                    continue
                if isinstance(op, ast.Call) and src(op.func) == 'str':
                    continue
                if isinstance(op, ast.Name) and op.id in tracked + ('k',):
                    continue
                if isinstance(op, ast.Subscript) and src(op.value) in tracked:
                    continue
                bad.append('%s in `%s`' % (src(op), util.stmt_key(n)[:90]))
        ctx.ob('R12.2-str-wrapped', f.name, not bad, ctx.loc('sbmlutil', f),
               'every model-supplied value concatenated into an annotation string is converted with str() (numbers are legal values)',
               '; '.join(bad))


def check_exhaustive(ctx, fw, far):
    req, raises_unknown = required_prop_keys(ctx)
    first = [s for s in fw.body if isinstance(s, ast.If) and util.eq_literals(s.test, 'propensity_type') == ['massaction']]
    handled = set()
    if first:
        for test, body in util.if_chain(first[0]):
            lits = util.eq_literals(test, 'propensity_type') if test is not None else None
            if lits and not any(isinstance(x, ast.Raise) for x in body):
                handled |= set(lits)
    for ptype in sorted(req):
        ctx.ob('R12.2-exhaustive', 'propensity/%s' % ptype, ptype in handled, ctx.loc('sbmlutil', fw),
               "propensity type '%s' accepted by the model has a writer branch" % ptype, 'writer handles %s' % sorted(handled))
    # rule types
    fcr = ctx.fn('types:Model.create_rule')
    disp = util.string_dispatch(fcr.body, 'rule_type')
    rtypes = sorted(disp[0]) if disp else []
    whandled = set()
    for s in far.body:
        if isinstance(s, ast.If) and ('rule_type' in src(s.test)):
            for test, body in util.if_chain(s):
                if test is None or any(isinstance(x, ast.Raise) for x in body):
                    continue
                lits = util.eq_literals(test, 'rule_type') or []
                whandled |= set(lits)
    for rt in rtypes:
        ctx.ob('R12.2-exhaustive', 'rule/%s' % rt, rt in whandled, ctx.loc('sbmlutil', far),
               "rule type '%s' accepted by the model can be written" % rt, 'writer handles %s' % sorted(whandled))


def check_forwarding(ctx):
    f = ctx.fn('types:Model.generate_sbml_model')
    txt = [k(util.stmt_key(s)) for s in ast.walk(f) if isinstance(s, ast.stmt)]
    need = ['reactants,products,propensity_type,propensity_param_dict,delay_type,delay_reactants,delay_products,delay_param_dict=rxn_tuple',
            'rule_type,rule_dict,rule_frequency=rule_tuple', 'add_rule(model,rule_id,rule_type,rule_variable,rule_formula,rule_frequency)',
            "delay_dict={'type':delay_type,'reactants':delay_reactants,'products':delay_products,'parameters':delay_param_dict}"]
    miss = [n for n in need if n not in txt]
    # the four loops run over the complete collections (sorting / enumerating / copying them is immaterial)
    defs = util.single_defs(f)

    def source(n):
        for _ in range(6):
            n = util.resolve_alias(n, defs)
            if isinstance(n, ast.Call) and src(n.func) in ('enumerate', 'sorted', 'list', 'tuple') and len(n.args) == 1 and not n.keywords:
                n = n.args[0]
            else:
                break
        return k(src(n))
    sources = [source(lp.iter) for lp in ast.walk(f) if isinstance(lp, ast.For)]
    for want_src in ('self.get_param_list()', 'self.get_species()', 'self.reaction_definitions', 'self.rule_definitions'):
        if want_src not in sources:
            miss.append('no loop over all of %s (loops run over %s)' % (want_src, sources))
    calls = util.calls_in(f, suffix='add_reaction')
    ok = len(calls) == 1 and [src(a) for a in calls[0].args] == ['model', 'reactants', 'products', 'rxn_id', 'propensity_type', 'propensity_param_dict'] and \
        {kw.arg: src(kw.value) for kw in calls[0].keywords} == {'stochastic': 'stochastic_model', 'delay_annotation_dict': 'delay_dict'}
    pc = util.calls_in(f, suffix='add_parameter')
    sc = util.calls_in(f, suffix='add_species')
    ok = ok and len(pc) == 1 and {kw.arg: k(src(kw.value)) for kw in pc[0].keywords}.get('param_value') == 'val' and 'val=self.get_param_value(p)' in txt
    ok = ok and len(sc) == 1 and {kw.arg: k(src(kw.value)) for kw in sc[0].keywords}.get('initial_concentration') == 'self.get_species_value(s)'
    # the export mode is the caller's: the flag is not recomputed from the model on the way to add_reaction
    for n_ in ast.walk(f):
        if isinstance(n_, (ast.Assign, ast.AugAssign)) and any(src(t_) == 'stochastic_model' for t_ in (n_.targets if isinstance(n_, ast.Assign) else [n_.target])):
            miss.append('the export mode is overridden: `%s`' % util.stmt_key(n_)[:70])
    # ... and every export builds its document from the model as it is now: nothing is kept in the model between exports
    for st_ in util.self_stores(f):
        miss.append('generate_sbml_model keeps `%s` in the model between exports' % util.stmt_key(st_)[:60])
    ctx.ob('R12.3-forwarding', 'generate_sbml_model', not miss and ok, ctx.loc('types', f),
           'all parameters (with values), species (with initial values), reaction definitions (8 fields + stochastic flag) and rule definitions (with frequency) are written',
           str(miss) if miss else '')
    f = ctx.fn('types:Model.write_sbml_model')
    txt = [k(util.stmt_key(s)) for s in ast.walk(f) if isinstance(s, ast.stmt)]
    ok = 'document,_=self.generate_sbml_model(stochastic_model=stochastic_model,**keywords)' in txt
    ctx.ob('R12.3-forwarding', 'write_sbml_model', ok, ctx.loc('types', f), 'write_sbml_model forwards the stochastic flag', '')
    f = ctx.fn('types:Model.create_reaction')
    txt = [k(util.stmt_key(s)) for s in f.body]
    ok = 'self.reaction_definitions.append((reactants,products,propensity_type,propensity_param_dict,delay_type,delay_reactants,delay_products,delay_param_dict))' in txt
    ctx.ob('R12.3-forwarding', 'reaction_definitions', ok, ctx.loc('types', f), 'every reaction is recorded with its 8 fields for export', '')
    f = ctx.fn('types:Model.create_rule')
    txt = [k(util.stmt_key(s)) for s in f.body]
    ok = 'self.rule_definitions.append((rule_type,rule_attributes,rule_frequency))' in txt
    ctx.ob('R12.3-forwarding', 'rule_definitions', ok, ctx.loc('types', f), 'every rule is recorded with type, attributes and frequency for export', '')
    f = ctx.fn('types:Model._param_dict_check')
    txt = [k(util.stmt_key(s)) for s in ast.walk(f) if isinstance(s, ast.stmt)]
    ok = 'self._add_param(dummy_var)' in txt and 'self.set_parameter(dummy_var,val)' in txt and 'dic[key]=dummy_var' in txt and \
        txt.index('self.set_parameter(dummy_var,val)') < txt.index('dic[key]=dummy_var')
    ctx.ob('R12.3-forwarding', 'dummy-parameters', ok, ctx.loc('types', f),
           'a numeric argument becomes a named parameter holding that value (exported like any other parameter)', '')
    c13.check_assembly(ctx)


def check_determinism(ctx):
    m = ctx.prog.mod('sbmlutil')
    found = []
    for n in ast.walk(m.tree):
        if isinstance(n, ast.Call):
            t = src(n.func)
            if t.startswith('np.random.') or t.startswith('random.') or t.startswith('time.') or t.startswith('uuid.') or t.startswith('datetime.'):
                fn = n
                while fn is not None and not isinstance(fn, ast.FunctionDef):
                    fn = getattr(fn, '_parent', None)
                found.append((fn.name if fn else '<module>', t, ctx.loc('sbmlutil', n)))
    f = ctx.fn('types:Model.generate_sbml_model')
    for n in ast.walk(f):
        if isinstance(n, ast.Call) and (src(n.func).startswith('np.random.') or src(n.func).startswith('time.')):
            found.append(('generate_sbml_model', src(n.func), ctx.loc('types', n)))
    extra = [x for x in found if not (x[0] == 'create_sbml_model' and x[1] == 'np.random.randint')]
    id_ok = any(x[0] == 'create_sbml_model' and x[1] == 'np.random.randint' for x in found)
    if not id_ok:
        ctx.note('the generated model id no longer uses np.random.randint')
    ctx.ob('R12.4-deterministic-writer', 'export-path', not extra, 'bioscrape/sbmlutil.py',
           'the only non-deterministic call on the export path is the generated model id', '; '.join('%s calls %s at %s' % x for x in extra))


def check_writer_values(ctx):
    """the value a species / parameter has in the model is the number written into the document, on every path of the writer:
    setInitialConcentration / setInitialAmount / setValue receive the argument itself (float(...) of it at most)"""
    from .. import paths as _paths
    for fname, arg, setters in (('add_species', 'initial_concentration', ('setInitialConcentration', 'setInitialAmount')),
                                ('add_parameter', 'param_value', ('setValue',))):
        f = c14.get_func(ctx, fname)
        problems = []
        ps = _paths.Enumerator().run(f.body, _paths.State())
        ctx.paths += len(ps)
        n_ret = 0
        for p in ps:
            if p.exit == 'raise':
                continue
            n_ret += 1
            vals = []
            cur = {arg: arg}
            for e in p.stmts():
                n = e.node
                if isinstance(n, ast.Assign) and len(n.targets) == 1 and src(n.targets[0]) == arg:
                    # the only re-binding allowed is the default for a missing value
                    g = [k(util.canon_test(t.node)) for t in p.events if t.kind == 'test' and t.info]
                    if not (util.const_num(n.value) == 0 and any('%sisNone' % arg in x for x in g)):
                        problems.append('%s is rewritten: `%s`' % (arg, util.stmt_key(n)[:60]))
                for c in [c for c in ast.walk(n) if isinstance(c, ast.Call) and isinstance(c.func, ast.Attribute) and c.func.attr in setters]:
                    a0 = c.args[0] if c.args else None
                    t = k(src(a0)) if a0 is not None else None
                    if t not in (arg, 'float(%s)' % arg):
                        problems.append('%s(%s) does not write the value itself [%s]' % (c.func.attr, t, _paths.describe(p, 3)))
                    vals.append(c.func.attr)
            if len(vals) != 1:
                problems.append('a path writes the value %d times [%s]' % (len(vals), _paths.describe(p, 3)))
        if n_ret == 0:
            raise AnalysisError('%s: no returning path' % fname)
        ctx.ob('R12.3-forwarding', '%s/value' % fname, not problems, ctx.loc('sbmlutil', f),
               'the value handed to %s is written into the document unchanged, exactly once, on every path' % fname, '; '.join(sorted(set(problems))[:3]))


def check_fresh_containers(ctx):
    """every reaction / rule / species read from a document gets its own dictionaries: no function of the SBML module fills a container
    that outlives the call (a mutable default argument that the body stores into is created once, at import time)"""
    smod = ctx.prog.mod('sbmlutil')
    bad = []
    n = 0
    for g_ in [x for x in ast.walk(smod.tree) if isinstance(x, ast.FunctionDef)]:
        n += 1
        args = g_.args.args
        defaults = g_.args.defaults
        for a_, d_ in zip(args[len(args) - len(defaults):], defaults):
            if isinstance(d_, (ast.Dict, ast.List, ast.Set)) or (isinstance(d_, ast.Call) and src(d_.func) in ('dict', 'list', 'set', 'OrderedDict')):
                stored = False
                for x in ast.walk(g_):
                    if isinstance(x, (ast.Assign, ast.AugAssign)):
                        for t in (x.targets if isinstance(x, ast.Assign) else [x.target]):
                            b = t
                            while isinstance(b, ast.Subscript):
                                b = b.value
                            if isinstance(t, ast.Subscript) and isinstance(b, ast.Name) and b.id == a_.arg:
                                stored = True
                    if isinstance(x, ast.Call) and isinstance(x.func, ast.Attribute) and isinstance(x.func.value, ast.Name) and x.func.value.id == a_.arg \
                            and x.func.attr in ('append', 'update', 'setdefault', 'add', 'extend', 'insert', 'pop', 'clear'):
                        stored = True
                if stored:
                    bad.append('%s(): the default of `%s` is one shared container and the body stores into it (%s)' % (g_.name, a_.arg, ctx.loc('sbmlutil', g_)))
    if n < 15:
        raise AnalysisError('anchor vanished: sbmlutil functions')
    ctx.ob('R12.6-reader-values', 'fresh-containers', not bad, 'bioscrape/sbmlutil.py',
           'no function of the SBML module stores into a mutable default argument (%d functions scanned): what is read for one element cannot leak into the next' % n,
           '; '.join(bad[:2]))


def check_language(ctx):
    """R12.5: formula strings (general rates, rule right-hand sides) go through a libsbml parser on the way out and through
    formulaToL3String + bioscrape's own parser on the way back; the composition must keep bioscrape's meaning of every function
    name and of the operator grammar."""
    from . import c14
    c14.check_formula_language(ctx, 'R12.5-formula-language', 'add_reaction', 'kinetic-law', 'roundtrip')
    c14.check_formula_language(ctx, 'R12.5-formula-language', 'add_rule', 'rule', 'roundtrip')
    # sibling agreement of the two writing sites: bioscrape accepts both spellings of a power (C02 R2.4), SBML only '^'; a string the
    # parser cannot read must stop the export instead of leaving an element without math
    for fname, site in (('add_reaction', 'kinetic-law'), ('add_rule', 'rule')):
        f, (lang, desc, call) = c14.parser_at(ctx, fname)
        arg = call.args[0] if call.args else None
        defs = [n for n in ast.walk(f) if isinstance(n, ast.Assign) and arg is not None and any(src(t) == src(arg) for t in n.targets)]
        texts = [src(arg).replace(' ', '')] + [src(d.value).replace(' ', '') for d in defs]
        spelled = any(".replace('**','^')" in t for t in texts)
        ctx.ob('R12.5-formula-language', '%s/power-spelling' % site, spelled, ctx.loc('sbmlutil', call),
               "the string handed to the SBML parser has '**' rewritten to '^' (both spellings are valid bioscrape formulas)",
               '' if spelled else 'parsed expression: %s' % texts[0])
        # the parse result is tested for None on the way to setMath, and that path raises
        res = None
        par = getattr(call, '_parent', None)
        if isinstance(par, ast.Assign) and len(par.targets) == 1 and isinstance(par.targets[0], ast.Name):
            res = par.targets[0].id
        guarded = False
        if res is not None:
            for n in ast.walk(f):
                if isinstance(n, ast.If) and any(isinstance(x, ast.Raise) for x in n.body):
                    t = util.canon_test(n.test)
                    if '%sisNone' % res in t.replace(' ', '') or 'not%s' % res in t.replace(' ', ''):
                        guarded = True
        ctx.ob('R12.5-formula-language', '%s/unparsable-rejected' % site, guarded, ctx.loc('sbmlutil', call),
               'a formula the SBML parser cannot read stops the export with an error (no element is written without math)',
               '' if guarded else 'the parse result is not tested for None before it is set')
    # the read-back table assumes the L3 printer on the reader side
    for fname, what in (('import_sbml_reactions', 'kinetic law'), ('import_sbml_rules', 'rule')):
        f = c14.get_func(ctx, fname)
        pr = [src(c.func) for c in ast.walk(f) if isinstance(c, ast.Call) and src(c.func).split('.')[-1] in
              ('formulaToL3String', 'formulaToString', 'formulaToL3StringWithSettings', 'getFormula')]
        ctx.ob('R12.5-formula-language', 'reader/%s' % fname, pr and all(x.endswith('formulaToL3String') for x in pr), ctx.loc('sbmlutil', f),
               'the %s math is turned back into text with the L3 printer (the counterpart of the L3 parser: ln stays ln, -(a^b) keeps its parentheses)' % what,
               'printers used: %s' % pr)


def check(ctx):
    for m in ('sbmlutil', 'types', 'types.pxd'):
        ctx.prog.mod(m)
    fw, far = check_keys(ctx)
    check_str_wrapped(ctx, fw, far)
    check_exhaustive(ctx, fw, far)
    check_forwarding(ctx)
    check_determinism(ctx)
    check_language(ctx)
    check_writer_values(ctx)
    ctx.floor("R12.5-formula-language", 22)
    # "the same species and initial values, the same parameter values": the reader takes every species' initial value and every
    # parameter's value attribute, whatever else the document says about them (C13 R13.5) - re-emitted here
    from ..core import SubCtx
    sub = SubCtx(ctx)
    c13.check_species(sub)
    for rule, key, ok, where, what, detail in sub.got:
        if rule == 'R13.5-initial-values' and key == 'import_sbml_species':
            ctx.ob('R12.6-reader-values', key, ok, where, what, detail)
    c13.check_parameter_values(ctx, 'R12.6-reader-values')
    c14.check_parameter_ids(ctx, 'R12.3-forwarding')
    c13.check_unannotated_general(ctx, 'R12.6-reader-values')
    check_fresh_containers(ctx)
    ctx.floor('R12.6-reader-values', 2)
    ctx.floor('R12.1-propensity-keys', 6)
    ctx.floor('R12.1-delay-keys', 8)
    ctx.floor('R12.2-exhaustive', 8)
    ctx.floor('R12.3-forwarding', 5)
