"""C12 - writing a model to SBML and reading it back preserves its behaviour (writer/reader agreement).

R12.1 annotation key agreement: for every propensity type the keys its constructor requires are
emitted by the writer (or reconstructed by create_reaction), every delay parameter key the model
can hold is handled by the reader, the rule frequency key is written and read under the same
name, with the same separators.  Decided by partial evaluation (templates.StrExec): the string the writer code builds for a sample
reaction of each type (names as holes, and numbers; with and without delay; delayed general reaction) is handed to the reader code,
which must return the sample; the same for add_rule -> import_sbml_rules and the rule frequency.
R12.2 exhaustiveness: every propensity / delay / rule type the model accepts has a non-raising
writer branch; every model-supplied value concatenated into an annotation is converted with str().
R12.3 nothing dropped: the writer iterates over all parameters, species, reaction definitions and
rule definitions and forwards all 8 reaction fields, the rule frequency and the stochastic flag;
the model records the 8-field and 3-field tuples; numeric arguments become valued parameters.
R12.5 formula language: the libsbml parser used at each writing site (kinetic law, rule), followed by the reader's
L3 printer and bioscrape's parser, keeps the meaning of exp/log/abs/min/max/Heaviside and of the operator grammar.
R12.4 the only non-deterministic call on the export path is the generated model id.
The round trip through libsbml itself is not decided.
"""
import ast

from .. import util
from ..templates import UNKNOWN, assigned_names
from ..front import AnalysisError, src
from . import c13, c14

EXPLANATION = __doc__
ASSUMPTIONS = ['libsbml serialises and parses annotations and ids as given']
HILLS = c14.HILLS


def k(t):
    """remove blanks outside string literals"""
    out = []
    q = None
    for ch in t:
        if q:
            out.append(ch)
            if ch == q:
                q = None
        elif ch in ('"', "'"):
            q = ch
            out.append(ch)
        elif ch != ' ':
            out.append(ch)
    return ''.join(out)


def writer_prop_keys(f):
    """propensity type -> set of annotation keys the writer emits (besides 'type')."""
    out = {}
    chains = [s for s in f.body if isinstance(s, ast.If) and util.eq_literals(s.test, 'propensity_type')]
    for ch in chains:
        for test, body in util.if_chain(ch):
            lits = util.eq_literals(test, 'propensity_type') if test is not None else None
            if not lits:
                continue
            keys = set()
            raises = any(isinstance(x, ast.Raise) for x in body)
            for n in ast.walk(ast.Module(body=body, type_ignores=[])):
                if isinstance(n, ast.Assign) and isinstance(n.targets[0], ast.Subscript) and src(n.targets[0].value) == 'propensity_annotation_dict' \
                        and isinstance(n.targets[0].slice, ast.Constant):
                    keys.add(n.targets[0].slice.value)
            for l in lits:
                out.setdefault(l, set()).update(keys)
    return out


def required_prop_keys(ctx):
    f = ctx.fn('types:Model.create_propensity')
    var = f.args.args[1].arg
    disp = util.string_dispatch(f.body, var)
    if disp is None:
        raise AnalysisError('create_propensity dispatch not found')
    req = {}
    for lit, body in disp[0].items():
        keys = set()
        for c in util.calls_in(ast.Module(body=body, type_ignores=[]), suffix='_param_dict_check'):
            if len(c.args) >= 2 and isinstance(c.args[1], ast.Constant):
                keys.add(c.args[1].value)
        for n in ast.walk(ast.Module(body=body, type_ignores=[])):
            if isinstance(n, ast.Subscript) and src(n.value) == f.args.args[2].arg and isinstance(n.slice, ast.Constant) and isinstance(n.ctx, ast.Load):
                keys.add(n.slice.value)
        req[lit] = keys
    raises_unknown = disp[1] is not None and any(isinstance(x, ast.Raise) for x in disp[1])
    return req, raises_unknown


def check_keys(ctx):
    FUNCS[0] = _module_funcs(ctx)
    fw = c14.get_func(ctx, 'add_reaction')
    wk = writer_prop_keys(fw)
    req, _ = required_prop_keys(ctx)
    fcr = ctx.fn('types:Model.create_reaction')
    rebuilt = set()
    for n in ast.walk(fcr):
        if isinstance(n, ast.Assign) and k(src(n.targets[0])) == "propensity_param_dict['species']":
            g = util.guards_of(n, fcr)
            if g == {"'species'not inpropensity_param_dict", "'massaction'==propensity_type"}:
                rebuilt.add('species')
    for ptype, keys in sorted(req.items()):
        if ptype == 'general':
            continue
        emitted = wk.get(ptype, set())
        missing = keys - emitted - (rebuilt if ptype == 'massaction' else set())
        ctx.ob('R12.1-propensity-keys', ptype, not missing and 'k' in emitted, ctx.loc('sbmlutil', fw),
               "every key the '%s' propensity needs (%s) is written into <PropensityType> or rebuilt from the reactants" % (ptype, sorted(keys)),
               'missing from the annotation: %s (writer emits %s)' % (sorted(missing), sorted(emitted)) if missing else '')
    # ---- writer and reader evaluated on sample reactions (templates.StrExec): what the writer's code puts into the annotation
    # string for a sample reaction is handed to the reader's code, which must give the sample back
    fr = c13.func(ctx, 'import_sbml_reactions')
    bad_values, bad_rt = [], []
    for ptype in sorted(req):
        if ptype == 'general':
            continue
        for numeric in (False, True):
            vals = {key: num for key, num in (('k', 2.5), ('K', 40), ('n', 2)) if key in req[ptype]} if numeric else None
            ann, wd = eval_writer(fw, ptype, None, vals)
            if isinstance(ann, Raises):
                bad_rt.append('%s%s: %r' % (ptype, ' with numbers' if numeric else '', ann))
                continue
            if not isinstance(wd, dict) or not isinstance(ann, str):
                raise AnalysisError('add_reaction: the annotation written for a %s reaction could not be evaluated' % ptype)
            if not numeric:
                want = {'type': ptype}
                want.update({key: 'P_' + key for key in wd if key != 'type'})
                if dict(wd) != want:
                    bad_values.append('%s: %r' % (ptype, wd))
            rx = eval_reader(fr, ann)
            if isinstance(rx, Raises):
                bad_rt.append('%s%s: written %r; reading it, %r' % (ptype, ' with numbers' if numeric else '', wd, rx))
                continue
            if rx is None or len(rx) not in (4, 8) or any(v is UNKNOWN for v in (rx[2], rx[3])) or (isinstance(rx[3], dict) and any(v is UNKNOWN for v in rx[3].values())):
                raise AnalysisError('import_sbml_reactions: what is read from the annotation of a %s reaction could not be evaluated (%r)' % (ptype, rx))
            if not (rx[2] == ptype and same_values(rx[3], wd)):
                bad_rt.append('%s%s: written %r, read %r (type %r)' % (ptype, ' with numbers' if numeric else '', wd, rx[3], rx[2]))
    ctx.ob('R12.1-propensity-keys', 'values', not bad_values, ctx.loc('sbmlutil', fw),
           "the annotation carries the type string and, under each key, that key's own species id / parameter", '; '.join(bad_values))
    ctx.ob('R12.1-separators', 'propensity', not bad_rt, ctx.loc('sbmlutil', fr),
           "the reader's code, evaluated on the string the writer's code builds for a sample reaction of each type (names and numbers), gives the "
           "written dictionary and type back", '; '.join(bad_rt))
    # delay
    dreq = set()
    for c in util.calls_in(fcr, suffix='_param_dict_check'):
        if src(c.args[0]) == 'delay_param_dict' and isinstance(c.args[1], ast.Constant):
            dreq.add(c.args[1].value)
    if not dreq:
        raise AnalysisError('create_reaction: the delay parameter keys were not found')
    from ..templates import Hole
    got = {}
    detail = []
    for numeric, ptype, no_species in ((False, 'massaction', False), (True, 'massaction', False), (False, 'general', False), (False, 'massaction', True)):
        # (a delayed reaction with a general rate has a delay annotation and no propensity annotation; a delayed reaction may have no
        # delayed species at all - its delay type and parameters are still part of the model)
        sample = {'type': Hole('DT'), 'reactants': [] if no_species else [Hole('R1'), Hole('R1'), Hole('R2')], 'products': [] if no_species else [Hole('P1')],
                  'parameters': {key: (1.5 + i if numeric else Hole('D_' + key)) for i, key in enumerate(sorted(dreq))}}
        ann, _ = eval_writer(fw, ptype, sample, None)
        if isinstance(ann, Raises):
            detail.append(repr(ann))
            got = {key: False for key in dreq | {'type', 'reactants', 'products'}}
            continue
        if not isinstance(ann, str):
            raise AnalysisError('add_reaction: the delay annotation written for a sample reaction could not be evaluated')
        rx = eval_reader(fr, ann)
        if isinstance(rx, Raises):
            detail.append('written %r; reading it, %r' % (sample, rx))
            got = {key: False for key in dreq | {'type', 'reactants', 'products'}}
            continue
        if isinstance(rx, list) and len(rx) != 8:
            detail.append('%s reaction with a delay annotation: the reader returns %d fields, none of them the delay (%r)' % (ptype, len(rx), rx))
            got = {key: False for key in dreq | {'type', 'reactants', 'products'}}
            continue
        if rx is None:
            raise AnalysisError('import_sbml_reactions: the reaction tuple could not be evaluated')
        if any(v is UNKNOWN for v in rx[4:7]) or (isinstance(rx[7], dict) and any(v is UNKNOWN for v in rx[7].values())):
            raise AnalysisError('import_sbml_reactions: what is read from a delay annotation could not be evaluated (%r)' % (rx[4:],))
        ok_here = {'type': rx[4] == 'DT', 'reactants': no_species or rx[5] == ['R1', 'R1', 'R2'], 'products': no_species or rx[6] == ['P1']}
        for key in dreq:
            ok_here[key] = isinstance(rx[7], dict) and key in rx[7] and same_value(rx[7][key], sample['parameters'][key])
        extra = isinstance(rx[7], dict) and set(rx[7]) - dreq
        for key, v in ok_here.items():
            got[key] = got.get(key, True) and v
        if extra or not all(ok_here.values()):
            detail.append('%s reaction: written %r, read type=%r reactants=%r products=%r parameters=%r' % (ptype, sample, rx[4], rx[5], rx[6], rx[7]))
        got['__extra__'] = got.get('__extra__', True) and not extra
    for key in sorted(dreq | {'type', 'reactants', 'products'}):
        ctx.ob('R12.1-delay-keys', key, got.get(key, False), ctx.loc('sbmlutil', fr),
               "the delay annotation key '%s' written for a model is read back into the same field" % key, '; '.join(detail))
    ctx.ob('R12.1-separators', 'delay', all(got.values()), ctx.loc('sbmlutil', fw),
           "delay annotation: the reader's code, evaluated on the string the writer's code builds for reactants [R1, R1, R2], products [P1] and every "
           "delay parameter, gives them back (multiplicities kept, nothing else added)", '; '.join(detail))
    # rule frequency
    far = c13.func(ctx, 'add_rule')
    frr = c13.func(ctx, 'import_sbml_rules')
    bad = []
    for freq in (Hole('FREQ'), 5):
        ann = eval_rule_writer(far, freq)
        if isinstance(ann, Raises):
            bad.append('writing frequency %r, %r' % (freq, ann))
            continue
        if not isinstance(ann, str):
            raise AnalysisError('add_rule: the annotation written for a sample rule could not be evaluated')
        tup = eval_rule_reader(frr, ann)
        if isinstance(tup, Raises):
            bad.append('reading frequency %r, %r' % (freq, tup))
            continue
        if tup is None or len(tup) != 3 or tup[2] is UNKNOWN:
            raise AnalysisError('import_sbml_rules: the rule tuple read for a sample rule could not be evaluated (%r)' % (tup,))
        if not same_value(tup[2], freq):
            bad.append('written %r, read %r' % (freq, tup[2]))
    ctx.ob('R12.1-rule-frequency', 'key', not bad, ctx.loc('sbmlutil', far),
           "the rule frequency the writer's code puts into the annotation is what the reader's code puts into the rule tuple", '; '.join(bad))
    tup = eval_rule_reader(frr, '')
    ctx.ob('R12.1-rule-frequency', 'forwarded', isinstance(tup, list) and len(tup) == 3 and tup[2] == 'repeated', ctx.loc('sbmlutil', frr),
           "a rule without annotation is imported as a repeated rule", repr(tup))
    return fw, far


def same_value(read, written):
    """the reader's value stands for the written one: equal, or equal as text / as number"""
    if read == written and not isinstance(read, (list, dict)):
        return True
    if isinstance(read, str) and not isinstance(written, str) and read == str(written):
        return True
    if isinstance(read, (int, float)) and isinstance(written, (int, float)):
        return float(read) == float(written)
    return False


def same_values(read, written):
    return isinstance(read, dict) and isinstance(written, dict) and set(read) == set(written) and all(same_value(read[key], written[key]) for key in written)


def eval_writer(fw, ptype, delay, values):
    tracked = ('annotation_string', 'propensity_annotation_string', 'delay_annotation_string') + (() if values else ('ratestring',))
    try:
        _, ex = c14.build(fw, ptype, False, [1], delay=delay, values=values, tracked=tracked)
    except AnalysisError as e:
        if 'add_reaction raises' in str(e) and 'TypeError' in str(e):
            return Raises(str(e)), None
        raise
    return ex.annotation, ex.env.get('propensity_annotation_dict')


def _module_funcs(ctx):
    smod = ctx.prog.mod('sbmlutil')
    return {g.name: g for g in smod.tree.body if isinstance(g, ast.FunctionDef)}, smod


def _reader_exec(ctx_funcs, hook, env, frozen):
    from ..templates import StrExec
    funcs, smod = ctx_funcs
    ex = StrExec(env, tracked=set(), frozen=frozen, functions=funcs, call_hook=hook)
    # module-level constant tables (key tuples ...) are visible to the reader and to the helpers it calls
    for st in smod.tree.body:
        if isinstance(st, ast.Assign) and len(st.targets) == 1 and isinstance(st.targets[0], ast.Name) and st.targets[0].id not in ex.env:
            v = ex.ev(st.value)
            if v is not UNKNOWN and not (isinstance(v, list) and any(x is UNKNOWN for x in v)):
                ex.env[st.targets[0].id] = v
                ex.module_names.add(st.targets[0].id)
    return ex


FUNCS = [None]


class Raises:
    """the evaluated function does not return on the sample: it raises"""

    def __init__(self, what):
        self.what = what

    def __repr__(self):
        return 'the code ' + self.what


def eval_reader(fr, annotation):
    """import_sbml_reactions evaluated on a document with one reaction (no species references, no local parameters) whose annotation
    is the given string -> the reaction tuple it returns"""
    from ..templates import Hole
    text = '<annotation>\n  ' + annotation + '\n</annotation>' if annotation else ''

    def hook(n, ex):
        if isinstance(n.func, ast.Attribute) and not n.args:
            a = n.func.attr
            if a == 'getListOfReactions':
                return [Hole('REACTION')]
            if a == 'getAnnotationString':
                return text
            if a.startswith('getListOf'):
                return []
        return None
    params = [x.arg for x in fr.args.args]
    env = {nm: False for nm in params[3:]}
    ex = _reader_exec(FUNCS[0], hook, env, set(env))
    ex.local_names = assigned_names(fr.body) - set(params)
    ex.run(fr.body)
    r = ex.returned
    if ex.aborted:
        return Raises(ex.aborted)
    if not isinstance(r, list) or not r or not isinstance(r[0], list) or len(r[0]) != 1 or not isinstance(r[0][0], list):
        return None
    return r[0][0]


def eval_rule_writer(far, freq):
    from ..templates import StrExec
    params = [x.arg for x in far.args.args]
    cap = []

    def hook(n, ex):
        if isinstance(n.func, ast.Attribute) and n.func.attr == 'setAnnotation' and len(n.args) == 1:
            cap.append(ex.ev(n.args[0]))
        return None
    env = {params[5]: freq}
    ex = StrExec(env, tracked=set(), frozen={params[5]}, call_hook=hook, functions=FUNCS[0][0])
    ex.run(far.body)
    if ex.aborted:
        return Raises(ex.aborted)
    return cap[-1] if len(cap) == 1 else None


def eval_rule_reader(frr, annotation):
    """import_sbml_rules evaluated on a document with one assignment rule for a species -> the rule tuple"""
    from ..templates import Hole
    text = '<annotation>\n  ' + annotation + '\n</annotation>' if annotation else ''

    def hook(n, ex):
        if isinstance(n.func, ast.Attribute) and not n.args:
            a = n.func.attr
            if a == 'getListOfRules':
                return [Hole('RULE')]
            if a == 'getAnnotationString':
                return text
            if a == 'getVariable':
                return Hole('X')
            if a == 'getElementName':
                return 'assignmentRule'
            if a.startswith('getListOf'):
                return []
        if src(n.func).endswith('formulaToL3String') or src(n.func).endswith('formulaToString'):
            return Hole('FORMULA')
        return None
    params = [x.arg for x in frr.args.args]
    env = {params[1]: {'X': 1.0}, params[2]: {}, params[3]: [], params[4]: False}
    ex = _reader_exec(FUNCS[0], hook, env, {params[4]})
    ex.local_names = assigned_names(frr.body) - set(params)
    ex.run(frr.body)
    r = ex.returned
    if ex.aborted:
        return Raises(ex.aborted)
    if not isinstance(r, list) or not r or not isinstance(r[0], list) or len(r[0]) != 1 or not isinstance(r[0][0], list):
        return None
    return r[0][0]


def concat_operands(n):
    if isinstance(n, ast.BinOp) and isinstance(n.op, ast.Add):
        return concat_operands(n.left) + concat_operands(n.right)
    return [n]


def annotation_blocks(fw):
    blocks = []
    for st in fw.body:
        if isinstance(st, ast.If):
            tgt = {src(t) for n in ast.walk(st) if isinstance(n, (ast.Assign, ast.AugAssign)) for t in (n.targets if isinstance(n, ast.Assign) else [n.target])}
            if tgt & {'propensity_annotation_string', 'delay_annotation_string'} and 'ratestring' not in tgt:
                blocks.append(st)
    if len(blocks) != 2:
        raise AnalysisError('add_reaction: the two annotation-writing blocks were not found (%d)' % len(blocks))
    return blocks


def written_annotations(fw):
    """Evaluate the writer's annotation code on a sample reaction (values are named holes) and split the result the reader's way.
    -> (propensity pairs, delay pairs, problem with numeric values or None)"""
    from ..templates import StrExec, Hole
    blocks = annotation_blocks(fw)

    def run(numeric):
        val = (lambda name, num: num) if numeric else (lambda name, num: Hole(name))
        env = {'propensity_type': 'hillpositive',
               'propensity_annotation_dict': {'type': Hole('T'), 'k': val('Pk', 2.5), 's1': Hole('Ps1')},
               'delay_annotation_dict': {'type': Hole('DT'), 'reactants': [Hole('R1'), Hole('R1'), Hole('R2')], 'products': [Hole('P1')],
                                         'parameters': {'delay': val('Dd', 3), 'sigma': val('Ds', 0.5)}}}
        ex = StrExec(env, ('propensity_annotation_string', 'delay_annotation_string'))
        todo = []
        for b_ in blocks:
            unknown = [n_.id for n_ in ast.walk(b_.test) if isinstance(n_, ast.Name) and n_.id not in env and n_.id not in ('None', 'True', 'False')]
            # a block guarded by a flag computed elsewhere in add_reaction: what it writes when it runs is what matters here (whether it
            # runs for each propensity type is R12.1 annotation-present)
            todo += list(b_.body) if unknown else [b_]
        ex.run(todo)
        if ex.aborted:
            raise AnalysisError('the annotation code %s' % ex.aborted)
        return ex.env.get('propensity_annotation_string'), ex.env.get('delay_annotation_string')

    def pairs(text, tag):
        if not isinstance(text, str) or not (text.startswith('<%s>' % tag) and text.endswith('</%s>' % tag)):
            return None
        body = text[len(tag) + 2:-(len(tag) + 3)]
        toks = body.split(' ')
        out = {}
        for t in toks:
            if '=' in t:
                out[t.split('=')[0]] = t.split('=')[1]
            elif t != '':
                out[t] = None
        return out
    sp_, sd_ = run(False)
    num_problem = None
    try:
        a, b = run(True)
        if not (isinstance(a, str) and isinstance(b, str)):
            num_problem = 'with numeric values the annotation strings are not determined'
    except AnalysisError as e:
        num_problem = 'a numeric value is concatenated without str(): %s' % e
    return pairs(sp_, 'PropensityType'), pairs(sd_, 'DelayType'), num_problem


def check_rule_elements(ctx, far):
    """The reader walks getListOfRules() only: every rule the writer is asked to write becomes an SBML rule element (assignment rule,
    or rate rule for 'ode'), whatever its frequency - an InitialAssignment or an Event would be written and never read back."""
    made = sorted({c.func.attr for c in ast.walk(far) if isinstance(c, ast.Call) and isinstance(c.func, ast.Attribute) and c.func.attr.startswith('create')
                   and src(c.func.value) in ('model', 'sbml_model')})
    readers = [fn_ for fn_ in ('import_sbml_rules',) if c14.get_func(ctx, fn_) is not None]
    fr = c14.get_func(ctx, 'import_sbml_rules')
    walks = sorted({c.func.attr for c in ast.walk(fr) if isinstance(c, ast.Call) and isinstance(c.func, ast.Attribute) and c.func.attr.startswith('getListOf')})
    readable = set()
    if 'getListOfRules' in walks:
        readable |= {'createAssignmentRule', 'createRateRule', 'createAlgebraicRule'}
    if 'getListOfInitialAssignments' in walks:
        readable.add('createInitialAssignment')
    if 'getListOfEvents' in walks:
        readable.add('createEvent')
    lost = [m_ for m_ in made if m_ not in readable]
    ctx.ob('R12.2-exhaustive', 'rule-elements', bool(made) and not lost, ctx.loc('sbmlutil', far),
           'every SBML element add_rule creates is of a kind import_sbml_rules reads (it walks %s)' % ', '.join(walks),
           '' if not lost else 'add_rule writes %s, which the reader never looks at: the rule is lost on the way back' % ', '.join(lost))


def check_annotation_present(ctx, fw):
    """The reader rebuilds a built-in propensity from its annotation; without one it reads the kinetic law as a general rate (another
    class, other volume / stochastic forms).  add_reaction is evaluated (c14.build) for every propensity type, both export modes and -
    for mass action - every reactant multiset of order <= 4: the annotation handed to the reaction names the type, for every type but
    'general'."""
    from . import c01
    cases = [('massaction', cs) for cs in c01.multisets()] + [(h_, (1,)) for h_ in c14.HILLS] + [('general', (1,))]
    bad = []
    n = 0
    for ptype, counts in cases:
        for stochastic in (False, True):
            _, ex = c14.build(fw, ptype, stochastic, counts)
            n += 1
            a = ex.annotation
            if not isinstance(a, str):
                raise AnalysisError('add_reaction: annotation not determined for %s %s' % (ptype, counts))
            has = '<PropensityType>' in a and ('type=%s ' % ptype in a or 'type=%s<' % ptype in a)
            if has != (ptype != 'general'):
                bad.append('%s%s, %s export: annotation %r' % (ptype, '' if ptype != 'massaction' else ' with multiplicities %s' % (counts,),
                                                            'stochastic' if stochastic else 'deterministic', a.replace('\n', ' ')[:90]))
    ctx.ob('R12.1-propensity-keys', 'annotation-present', not bad, ctx.loc('sbmlutil', fw),
           "every built-in propensity type is written with its <PropensityType> annotation in both export modes, 'general' without one "
           '(%d type x multiset x mode cases evaluated)' % n, '; '.join(bad[:2]))


def check_str_wrapped(ctx, fw, far):
    _, _, num_problem = written_annotations(fw)
    ctx.ob('R12.2-str-wrapped', fw.name, num_problem is None, ctx.loc('sbmlutil', fw),
           'every model-supplied value concatenated into an annotation string is converted with str() (numbers are legal values): the '
           'annotation code is evaluated on a sample reaction whose parameter values are numbers', num_problem or '')
    for f, tracked in ((far, ('rule_annotation_string',)),):
        bad = []
        for n in ast.walk(f):
            val = None
            if isinstance(n, ast.Assign) and src(n.targets[0]) in tracked:
                val = n.value
            elif isinstance(n, ast.AugAssign) and src(n.target) in tracked:
                val = n.value
            if val is None:
                continue
            for op in concat_operands(val):
                if isinstance(op, ast.Constant) and isinstance(op.value, str):
                    continue
                if isinstance(op, ast.JoinedStr):
                    continue
                if isinstance(op, ast.Call) and src(op.func) == 'str':
                    continue
                if isinstance(op, ast.Name) and op.id in tracked + ('k',):
                    continue
                if isinstance(op, ast.Subscript) and src(op.value) in tracked:
                    continue
                bad.append('%s in `%s`' % (src(op), util.stmt_key(n)[:90]))
        ctx.ob('R12.2-str-wrapped', f.name, not bad, ctx.loc('sbmlutil', f),
               'every model-supplied value concatenated into an annotation string is converted with str() (numbers are legal values)',
               '; '.join(bad))


def check_exhaustive(ctx, fw, far):
    req, raises_unknown = required_prop_keys(ctx)
    first = [s for s in fw.body if isinstance(s, ast.If) and util.eq_literals(s.test, 'propensity_type') == ['massaction']]
    handled = set()
    if first:
        for test, body in util.if_chain(first[0]):
            lits = util.eq_literals(test, 'propensity_type') if test is not None else None
            if lits and not any(isinstance(x, ast.Raise) for x in body):
                handled |= set(lits)
    for ptype in sorted(req):
        ctx.ob('R12.2-exhaustive', 'propensity/%s' % ptype, ptype in handled, ctx.loc('sbmlutil', fw),
               "propensity type '%s' accepted by the model has a writer branch" % ptype, 'writer handles %s' % sorted(handled))
    # rule types
    fcr = ctx.fn('types:Model.create_rule')
    disp = util.string_dispatch(fcr.body, 'rule_type')
    rtypes = sorted(disp[0]) if disp else []
    whandled = set()
    for s in far.body:
        if isinstance(s, ast.If) and ('rule_type' in src(s.test)):
            for test, body in util.if_chain(s):
                if test is None or any(isinstance(x, ast.Raise) for x in body):
                    continue
                lits = util.eq_literals(test, 'rule_type') or []
                whandled |= set(lits)
    for rt in rtypes:
        ctx.ob('R12.2-exhaustive', 'rule/%s' % rt, rt in whandled, ctx.loc('sbmlutil', far),
               "rule type '%s' accepted by the model can be written" % rt, 'writer handles %s' % sorted(whandled))


def check_forwarding(ctx):
    f = ctx.fn('types:Model.generate_sbml_model')
    txt = [k(util.stmt_key(s)) for s in ast.walk(f) if isinstance(s, ast.stmt)]
    need = ['reactants,products,propensity_type,propensity_param_dict,delay_type,delay_reactants,delay_products,delay_param_dict=rxn_tuple',
            'rule_type,rule_dict,rule_frequency=rule_tuple', 'add_rule(model,rule_id,rule_type,rule_variable,rule_formula,rule_frequency)',
            "delay_dict={'type':delay_type,'reactants':delay_reactants,'products':delay_products,'parameters':delay_param_dict}"]
    miss = [n for n in need if n not in txt]
    # the four loops run over the complete collections (sorting / enumerating / copying them is immaterial)
    defs = util.single_defs(f)

    def source(n):
        # (collection, order kept?)  - enumerating / copying keeps the order, sorting or reversing does not
        kept = True
        for _ in range(6):
            n = util.resolve_alias(n, defs)
            if isinstance(n, ast.Call) and src(n.func) in ('enumerate', 'list', 'tuple') and len(n.args) == 1 and not n.keywords:
                n = n.args[0]
            elif isinstance(n, ast.Call) and src(n.func) in ('sorted', 'reversed', 'set', 'frozenset') and len(n.args) == 1:
                n = n.args[0]
                kept = False
            elif isinstance(n, ast.Subscript) and isinstance(n.slice, ast.Slice) and n.slice.lower is None and n.slice.upper is None:
                kept = kept and (n.slice.step is None)
                n = n.value
            else:
                break
        return k(src(n)), kept
    sources = dict()
    for lp in ast.walk(f):
        if isinstance(lp, ast.For):
            s_, kept_ = source(lp.iter)
            sources[s_] = sources.get(s_, True) and kept_
    # parameters, species and reactions are sets as far as behaviour goes; rules are a sequence: they are applied in list order
    for want_src, ordered in (('self.get_param_list()', False), ('self.get_species()', False), ('self.reaction_definitions', False),
                              ('self.rule_definitions', True)):
        if want_src not in sources:
            miss.append('no loop over all of %s (loops run over %s)' % (want_src, sorted(sources)))
        elif ordered and not sources[want_src]:
            miss.append('%s is written in another order than the model holds it (rules are applied in list order)' % want_src)
    calls = util.calls_in(f, suffix='add_reaction')
    ok = len(calls) == 1 and [src(a) for a in calls[0].args] == ['model', 'reactants', 'products', 'rxn_id', 'propensity_type', 'propensity_param_dict'] and \
        {kw.arg: src(kw.value) for kw in calls[0].keywords} == {'stochastic': 'stochastic_model', 'delay_annotation_dict': 'delay_dict'}
    pc = util.calls_in(f, suffix='add_parameter')
    sc = util.calls_in(f, suffix='add_species')
    ok = ok and len(pc) == 1 and {kw.arg: k(src(kw.value)) for kw in pc[0].keywords}.get('param_value') == 'val' and 'val=self.get_param_value(p)' in txt
    ok = ok and len(sc) == 1 and {kw.arg: k(src(kw.value)) for kw in sc[0].keywords}.get('initial_concentration') == 'self.get_species_value(s)'
    # the export mode is the caller's: the flag is not recomputed from the model on the way to add_reaction
    for n_ in ast.walk(f):
        if isinstance(n_, (ast.Assign, ast.AugAssign)) and any(src(t_) == 'stochastic_model' for t_ in (n_.targets if isinstance(n_, ast.Assign) else [n_.target])):
            miss.append('the export mode is overridden: `%s`' % util.stmt_key(n_)[:70])
    # ... and every export builds its document from the model as it is now: nothing is kept in the model between exports
    for st_ in util.self_stores(f):
        miss.append('generate_sbml_model keeps `%s` in the model between exports' % util.stmt_key(st_)[:60])
    ctx.ob('R12.3-forwarding', 'generate_sbml_model', not miss and ok, ctx.loc('types', f),
           'all parameters (with values), species (with initial values), reaction definitions (8 fields + stochastic flag) and rule definitions (with frequency) are written',
           str(miss) if miss else '')
    f = ctx.fn('types:Model.write_sbml_model')
    txt = [k(util.stmt_key(s)) for s in ast.walk(f) if isinstance(s, ast.stmt)]
    ok = 'document,_=self.generate_sbml_model(stochastic_model=stochastic_model,**keywords)' in txt
    ctx.ob('R12.3-forwarding', 'write_sbml_model', ok, ctx.loc('types', f), 'write_sbml_model forwards the stochastic flag', '')
    f = ctx.fn('types:Model.create_reaction')
    txt = [k(util.stmt_key(s)) for s in f.body]
    ok = 'self.reaction_definitions.append((reactants,products,propensity_type,propensity_param_dict,delay_type,delay_reactants,delay_products,delay_param_dict))' in txt
    ctx.ob('R12.3-forwarding', 'reaction_definitions', ok, ctx.loc('types', f), 'every reaction is recorded with its 8 fields for export', '')
    f = ctx.fn('types:Model.create_rule')
    txt = [k(util.stmt_key(s)) for s in f.body]
    ok = 'self.rule_definitions.append((rule_type,rule_attributes,rule_frequency))' in txt
    ctx.ob('R12.3-forwarding', 'rule_definitions', ok, ctx.loc('types', f), 'every rule is recorded with type, attributes and frequency for export', '')
    f = ctx.fn('types:Model._param_dict_check')
    txt = [k(util.stmt_key(s)) for s in ast.walk(f) if isinstance(s, ast.stmt)]
    ok = 'self._add_param(dummy_var)' in txt and 'self.set_parameter(dummy_var,val)' in txt and 'dic[key]=dummy_var' in txt and \
        txt.index('self.set_parameter(dummy_var,val)') < txt.index('dic[key]=dummy_var')
    ctx.ob('R12.3-forwarding', 'dummy-parameters', ok, ctx.loc('types', f),
           'a numeric argument becomes a named parameter holding that value (exported like any other parameter)', '')
    c13.check_assembly(ctx)


def check_determinism(ctx):
    m = ctx.prog.mod('sbmlutil')
    found = []
    for n in ast.walk(m.tree):
        if isinstance(n, ast.Call):
            t = src(n.func)
            if t.startswith('np.random.') or t.startswith('random.') or t.startswith('time.') or t.startswith('uuid.') or t.startswith('datetime.'):
                fn = n
                while fn is not None and not isinstance(fn, ast.FunctionDef):
                    fn = getattr(fn, '_parent', None)
                found.append((fn.name if fn else '<module>', t, ctx.loc('sbmlutil', n)))
    f = ctx.fn('types:Model.generate_sbml_model')
    for n in ast.walk(f):
        if isinstance(n, ast.Call) and (src(n.func).startswith('np.random.') or src(n.func).startswith('time.')):
            found.append(('generate_sbml_model', src(n.func), ctx.loc('types', n)))
    extra = [x for x in found if not (x[0] == 'create_sbml_model' and x[1] == 'np.random.randint')]
    id_ok = any(x[0] == 'create_sbml_model' and x[1] == 'np.random.randint' for x in found)
    if not id_ok:
        ctx.note('the generated model id no longer uses np.random.randint')
    ctx.ob('R12.4-deterministic-writer', 'export-path', not extra, 'bioscrape/sbmlutil.py',
           'the only non-deterministic call on the export path is the generated model id', '; '.join('%s calls %s at %s' % x for x in extra))


def check_writer_values(ctx):
    """the value a species / parameter has in the model is the number written into the document, on every path of the writer:
    setInitialConcentration / setInitialAmount / setValue receive the argument itself (float(...) of it at most)"""
    from .. import paths as _paths
    for fname, arg, setters in (('add_species', 'initial_concentration', ('setInitialConcentration', 'setInitialAmount')),
                                ('add_parameter', 'param_value', ('setValue',))):
        f = c14.get_func(ctx, fname)
        problems = []
        ps = _paths.Enumerator().run(f.body, _paths.State())
        ctx.paths += len(ps)
        n_ret = 0
        for p in ps:
            if p.exit == 'raise':
                continue
            n_ret += 1
            vals = []
            cur = {arg: arg}
            for e in p.stmts():
                n = e.node
                if isinstance(n, ast.Assign) and len(n.targets) == 1 and src(n.targets[0]) == arg:
                    # the only re-binding allowed is the default for a missing value
                    g = [k(util.canon_test(t.node)) for t in p.events if t.kind == 'test' and t.info]
                    if not (util.const_num(n.value) == 0 and any('%sisNone' % arg in x for x in g)):
                        problems.append('%s is rewritten: `%s`' % (arg, util.stmt_key(n)[:60]))
                for c in [c for c in ast.walk(n) if isinstance(c, ast.Call) and isinstance(c.func, ast.Attribute) and c.func.attr in setters]:
                    a0 = c.args[0] if c.args else None
                    t = k(src(a0)) if a0 is not None else None
                    if t not in (arg, 'float(%s)' % arg):
                        problems.append('%s(%s) does not write the value itself [%s]' % (c.func.attr, t, _paths.describe(p, 3)))
                    vals.append(c.func.attr)
            if len(vals) != 1:
                problems.append('a path writes the value %d times [%s]' % (len(vals), _paths.describe(p, 3)))
        if n_ret == 0:
            raise AnalysisError('%s: no returning path' % fname)
        ctx.ob('R12.3-forwarding', '%s/value' % fname, not problems, ctx.loc('sbmlutil', f),
               'the value handed to %s is written into the document unchanged, exactly once, on every path' % fname, '; '.join(sorted(set(problems))[:3]))


def check_values_kept(ctx):
    """what add_species / add_parameter wrote stays in the document: no other function of the writer sets or unsets a value, an
    initial amount or an initial concentration afterwards (a rule on a parameter makes it non-constant; its value attribute remains
    the value the model uses until the rule fires, and the initial value of a rate rule)"""
    smod = ctx.prog.mod('sbmlutil')
    owners = {'setValue': 'add_parameter', 'unsetValue': None, 'setInitialConcentration': 'add_species', 'setInitialAmount': 'add_species',
              'unsetInitialConcentration': None, 'unsetInitialAmount': None}
    problems = []
    for g_ in [x for x in smod.tree.body if isinstance(x, ast.FunctionDef)]:
        if g_.name.startswith('import_') or g_.name in ('renameSIds', 'renameSId'):
            continue
        for c_ in ast.walk(g_):
            if isinstance(c_, ast.Call) and isinstance(c_.func, ast.Attribute) and c_.func.attr in owners and owners[c_.func.attr] != g_.name:
                problems.append('%s() calls %s (line %d)' % (g_.name, src(c_)[:50], c_.lineno))
    f = c14.get_func(ctx, 'add_parameter')
    ctx.ob('R12.3-forwarding', 'values-kept', not problems, ctx.loc('sbmlutil', f),
           'the values written by add_parameter / add_species are not set again or removed by another function of the writer', '; '.join(problems))


def check_species_attributes(ctx):
    """Every bioscrape species is an ordinary SBML species - changed by the reactions it takes part in.  The attributes that say so
    (boundaryCondition = false, constant = false) are set once, in add_species; no other function of the writer marks a species as a
    boundary or constant species (the reader, like any SBML tool, would then leave it out of the stoichiometry)."""
    smod = ctx.prog.mod('sbmlutil')
    problems = []
    n_calls = 0
    for g_ in [x for x in smod.tree.body if isinstance(x, ast.FunctionDef)]:
        for c_ in ast.walk(g_):
            if isinstance(c_, ast.Call) and isinstance(c_.func, ast.Attribute) and c_.func.attr == 'setBoundaryCondition':
                n_calls += 1
                arg = c_.args[0] if c_.args else None
                if g_.name != 'add_species' or not (isinstance(arg, ast.Constant) and arg.value is False):
                    problems.append('%s() calls %s (line %d)' % (g_.name, src(c_)[:60], c_.lineno))
    f = c14.get_func(ctx, 'add_species')
    ctx.ob('R12.3-forwarding', 'species-attributes', not problems and n_calls >= 1, ctx.loc('sbmlutil', f),
           'a species is exported as an ordinary (non-boundary) species: boundaryCondition is set once, to false, in add_species', '; '.join(problems))


def check_fresh_containers(ctx):
    """every reaction / rule / species read from a document gets its own dictionaries: no function of the SBML module fills a container
    that outlives the call (a mutable default argument that the body stores into is created once, at import time)"""
    smod = ctx.prog.mod('sbmlutil')
    bad = []
    n = 0
    for g_ in [x for x in ast.walk(smod.tree) if isinstance(x, ast.FunctionDef)]:
        n += 1
        args = g_.args.args
        defaults = g_.args.defaults
        for a_, d_ in zip(args[len(args) - len(defaults):], defaults):
            if isinstance(d_, (ast.Dict, ast.List, ast.Set)) or (isinstance(d_, ast.Call) and src(d_.func) in ('dict', 'list', 'set', 'OrderedDict')):
                stored = False
                for x in ast.walk(g_):
                    if isinstance(x, (ast.Assign, ast.AugAssign)):
                        for t in (x.targets if isinstance(x, ast.Assign) else [x.target]):
                            b = t
                            while isinstance(b, ast.Subscript):
                                b = b.value
                            if isinstance(t, ast.Subscript) and isinstance(b, ast.Name) and b.id == a_.arg:
                                stored = True
                    if isinstance(x, ast.Call) and isinstance(x.func, ast.Attribute) and isinstance(x.func.value, ast.Name) and x.func.value.id == a_.arg \
                            and x.func.attr in ('append', 'update', 'setdefault', 'add', 'extend', 'insert', 'pop', 'clear'):
                        stored = True
                if stored:
                    bad.append('%s(): the default of `%s` is one shared container and the body stores into it (%s)' % (g_.name, a_.arg, ctx.loc('sbmlutil', g_)))
    if n < 15:
        raise AnalysisError('anchor vanished: sbmlutil functions')
    ctx.ob('R12.6-reader-values', 'fresh-containers', not bad, 'bioscrape/sbmlutil.py',
           'no function of the SBML module stores into a mutable default argument (%d functions scanned): what is read for one element cannot leak into the next' % n,
           '; '.join(bad[:2]))


def check_language(ctx):
    """R12.5: formula strings (general rates, rule right-hand sides) go through a libsbml parser on the way out and through
    formulaToL3String + bioscrape's own parser on the way back; the composition must keep bioscrape's meaning of every function
    name and of the operator grammar."""
    from . import c14
    c14.check_formula_language(ctx, 'R12.5-formula-language', 'add_reaction', 'kinetic-law', 'roundtrip')
    c14.check_formula_language(ctx, 'R12.5-formula-language', 'add_rule', 'rule', 'roundtrip')
    c14.check_definitions_first(ctx, 'R12.5-formula-language')
    # sibling agreement of the two writing sites: bioscrape accepts both spellings of a power (C02 R2.4), SBML only '^'; a string the
    # parser cannot read must stop the export instead of leaving an element without math
    for fname, site in (('add_reaction', 'kinetic-law'), ('add_rule', 'rule')):
        f, (lang, desc, call) = c14.parser_at(ctx, fname)
        arg = call.args[0] if call.args else None
        defs = [n for n in ast.walk(f) if isinstance(n, ast.Assign) and arg is not None and any(src(t) == src(arg) for t in n.targets)]
        texts = [src(arg).replace(' ', '')] + [src(d.value).replace(' ', '') for d in defs]
        spelled = any(".replace('**','^')" in t for t in texts)
        ctx.ob('R12.5-formula-language', '%s/power-spelling' % site, spelled, ctx.loc('sbmlutil', call),
               "the string handed to the SBML parser has '**' rewritten to '^' (both spellings are valid bioscrape formulas)",
               '' if spelled else 'parsed expression: %s' % texts[0])
        # the parse result is tested for None on the way to setMath, and that path raises
        res = None
        par = getattr(call, '_parent', None)
        if isinstance(par, ast.Assign) and len(par.targets) == 1 and isinstance(par.targets[0], ast.Name):
            res = par.targets[0].id
        guarded = False
        if res is not None:
            for n in ast.walk(f):
                if isinstance(n, ast.If) and any(isinstance(x, ast.Raise) for x in n.body):
                    t = util.canon_test(n.test)
                    if '%sisNone' % res in t.replace(' ', '') or 'not%s' % res in t.replace(' ', ''):
                        guarded = True
        ctx.ob('R12.5-formula-language', '%s/unparsable-rejected' % site, guarded, ctx.loc('sbmlutil', call),
               'a formula the SBML parser cannot read stops the export with an error (no element is written without math)',
               '' if guarded else 'the parse result is not tested for None before it is set')
    # the read-back table assumes the L3 printer on the reader side
    for fname, what in (('import_sbml_reactions', 'kinetic law'), ('import_sbml_rules', 'rule')):
        f = c14.get_func(ctx, fname)
        pr = [src(c.func) for c in ast.walk(f) if isinstance(c, ast.Call) and src(c.func).split('.')[-1] in
              ('formulaToL3String', 'formulaToString', 'formulaToL3StringWithSettings', 'getFormula')]
        ctx.ob('R12.5-formula-language', 'reader/%s' % fname, pr and all(x.endswith('formulaToL3String') for x in pr), ctx.loc('sbmlutil', f),
               'the %s math is turned back into text with the L3 printer (the counterpart of the L3 parser: ln stays ln, -(a^b) keeps its parentheses)' % what,
               'printers used: %s' % pr)


def check(ctx):
    for m in ('sbmlutil', 'types', 'types.pxd'):
        ctx.prog.mod(m)
    c14.check_printer_language(ctx, 'R12.5-formula-language', 'import_sbml_reactions', 'reader-printer/kinetic-law')
    c14.check_printer_language(ctx, 'R12.5-formula-language', 'import_sbml_rules', 'reader-printer/rule')
    fw, far = check_keys(ctx)
    check_annotation_present(ctx, fw)
    check_rule_elements(ctx, far)
    check_str_wrapped(ctx, fw, far)
    check_exhaustive(ctx, fw, far)
    check_forwarding(ctx)
    check_determinism(ctx)
    check_language(ctx)
    check_writer_values(ctx)
    check_values_kept(ctx)
    check_species_attributes(ctx)
    ctx.floor("R12.5-formula-language", 22)
    # "the same species and initial values, the same parameter values": the reader takes every species' initial value and every
    # parameter's value attribute, whatever else the document says about them (C13 R13.5) - re-emitted here
    from ..core import SubCtx
    sub = SubCtx(ctx)
    c13.check_species(sub)
    for rule, key, ok, where, what, detail in sub.got:
        if rule == 'R13.5-initial-values' and key == 'import_sbml_species':
            ctx.ob('R12.6-reader-values', key, ok, where, what, detail)
    c13.check_parameter_values(ctx, 'R12.6-reader-values')
    # "the same immediate ... stoichiometry": the species references the writer creates carry each species' multiplicity (C14 R14.3),
    # which is what the reader expands - re-emitted here
    sub = SubCtx(ctx)
    c14.check_stoichiometry(sub, c14.get_func(ctx, 'add_reaction'))
    for rule, key, ok, where, what, detail in sub.got:
        if rule == 'R14.3-stoichiometry':
            ctx.ob('R12.3-forwarding', 'add_reaction/%s/%s' % (rule, key), ok, where, what, detail)
    c14.check_parameter_ids(ctx, 'R12.3-forwarding')
    c13.check_unannotated_general(ctx, 'R12.6-reader-values')
    check_fresh_containers(ctx)
    ctx.floor('R12.6-reader-values', 2)
    ctx.floor('R12.1-propensity-keys', 6)
    ctx.floor('R12.1-delay-keys', 8)
    ctx.floor('R12.2-exhaustive', 8)
    ctx.floor('R12.3-forwarding', 5)
