"""C04 - deterministic simulation solves the model's rate equations (wiring clauses only).

R4.1 the function handed to the integrator applies the rules to (state, t) and then evaluates
calculate_deterministic_derivative(state, buffer, t) on the process-wide simulator, returning
that buffer.
R4.2 the process-wide simulator pointer and the buffer (length num_species) are assigned from the
interface being simulated before odeint is called.
R4.3 odeint is called with that function, a copy of the interface's initial state and the
caller's time points; the rows it returns are labelled with the same time points (all-NaN rows
when integration failed).
R4.4 the derivative is S_net * rate (shared with C03 R3.4): net stoichiometry = immediate + delayed.
Integrator accuracy (LSODA error control, stiffness) is not decided.
"""
import ast

from .. import paths, util
from ..front import AnalysisError, src
from . import c03

EXPLANATION = __doc__
ASSUMPTIONS = ['scipy.integrate.odeint integrates the function it is given over the grid it is given']


def k(t):
    return t.replace(' ', '')


def check(ctx):
    for m in ('simulator', 'simulator.pxd', 'types', 'types.pxd'):
        ctx.prog.mod(m)
    f = ctx.fn('simulator:rhs_global')
    a = [x.arg for x in f.args.args]
    st, t = a
    txt = [k(util.stmt_key(s)) for s in f.body]
    problems = []
    rules = [x for x in txt if 'apply_repeated_rules(' in x]
    der = [x for x in txt if 'calculate_deterministic_derivative(' in x]
    if len(rules) != 1 or len(der) != 1 or txt.index(rules[0]) > txt.index(der[0]):
        problems.append('rules and derivative are not evaluated once each, rules first')
    else:
        c = util.calls_in(f, suffix='calculate_deterministic_derivative')[0]
        args = [k(src(util.strip_cast(x))) for x in c.args]
        if args != ['%s.data' % st, 'global_derivative_buffer.data', t]:
            problems.append('derivative evaluated with %s' % args)
        defs = util.single_defs(f)
        recv = k(src(util.resolve_alias(c.func.value, defs)))
        c2 = util.calls_in(f, suffix='apply_repeated_rules')[0]
        args2 = [k(src(util.strip_cast(x))) for x in c2.args]
        if args2[:2] != ['%s.data' % st, t]:
            problems.append('rules applied to %s' % args2)
        if recv != 'global_simulator' or k(src(util.resolve_alias(c2.func.value, defs))) != 'global_simulator':
            problems.append('not evaluated on the process-wide simulator')
    rets = [s for s in f.body if isinstance(s, ast.Return)]
    if len(rets) != 1 or src(rets[0].value) != 'global_derivative_buffer':
        problems.append('returns %s' % [src(r.value) for r in rets])
    ctx.ob('R4.1-rhs', 'rhs_global', not problems, ctx.loc('simulator', f),
           'rhs(state, t) = derivative of the simulated interface at the rule-updated state and t', '; '.join(problems))
    f = ctx.fn('simulator:DeterministicSimulator._helper_simulate')
    where = ctx.loc('simulator', f)
    sim, tp = f.args.args[1].arg, f.args.args[2].arg
    top = [k(util.stmt_key(s)) for s in f.body]
    problems = []
    y0s = [src(c_.args[1]) for c_ in util.calls_in(f, suffix='odeint') if len(c_.args) >= 2]
    y0 = y0s[0] if len(set(y0s)) == 1 and y0s[0].isidentifier() else 'x0'      # the local the integrator starts from, whatever it is called
    need = ["global_simulator=__cast__('void*',%s)" % sim, '%s=%s.get_initial_state().copy()' % (y0, sim),
            'S=%s.get_update_array()+%s.get_delay_update_array()' % (sim, sim), 'num_species=S.shape[0]']
    for n in need:
        if n not in top:
            problems.append('missing at top level: %s' % n)
    if not any(x in top for x in ('global_derivative_buffer=np.empty(num_species,)', 'global_derivative_buffer=np.empty(num_species)',
                                  'global_derivative_buffer=np.zeros(num_species)', 'global_derivative_buffer=np.empty((num_species,))')):
        problems.append('the derivative buffer is not allocated with num_species entries')
    loop = [s for s in f.body if isinstance(s, ast.While)]
    if len(loop) != 1:
        problems.append('integration loop not found')
    else:
        li = f.body.index(loop[0])
        for n in need[:2]:
            if n in top and top.index(n) > li:
                problems.append('%s comes after the integration' % n)
    ctx.ob('R4.2-globals', '_helper_simulate', not problems, where,
           'the process-wide simulator and an num_species-long buffer are set from this interface before integrating', '; '.join(problems))
    calls = util.calls_in(f, suffix='odeint')
    problems = []
    if len(calls) != 1:
        problems.append('%d odeint calls' % len(calls))
    else:
        c = calls[0]
        pos = [src(x) for x in c.args[:3]]
        if pos != ['rhs_global', y0, tp]:
            problems.append('odeint called with %s, expected (rhs_global, %s, %s)' % (pos, y0, tp))
        kw = {x.arg: src(x.value) for x in c.keywords if x.arg}
        if kw.get('tfirst') not in (None, 'False'):
            problems.append('tfirst=%s does not match rhs_global(state, t)' % kw.get('tfirst'))
        stt = c
        while not isinstance(stt, ast.stmt):
            stt = stt._parent
        if not (isinstance(stt, ast.Assign) and k(src(stt.targets[0])) in ('(results,full_output)', 'results,full_output')):
            problems.append('the integrator output is stored as %s' % k(src(stt.targets[0]) if isinstance(stt, ast.Assign) else ''))
    rets = [n for n in ast.walk(f) if isinstance(n, ast.Return)]
    n_good = 0
    for r in rets:
        v = k(src(r.value))
        g = util.guards_of(r, f)
        if v == 'SSAResult(%s,results)' % tp:
            n_good += 1
            if 'success' not in g:
                problems.append('the plain result rows are returned without success being established (guards %s)' % sorted(g))
        elif v in ('SSAResult(%s,results*np.nan)' % tp, 'SSAResult(%s,np.nan*results)' % tp):
            if 'not success' not in g:
                problems.append('NaN rows are returned under guards %s' % sorted(g))
        else:
            problems.append('returns %s' % v)
    if n_good != 1:
        problems.append('%d returns of the integrated rows' % n_good)
    sdef = [n for n in ast.walk(f) if isinstance(n, ast.Assign) and src(n.targets[0]) == 'success' and isinstance(n.value, ast.Compare)]
    if len(sdef) != 1 or k(src(sdef[0].value)) not in ("full_output['message']=='Integrationsuccessful.'", "'Integrationsuccessful.'==full_output['message']"):
        problems.append("success is not exactly the integrator's own success message (%s)" % [src(x.value) for x in sdef])
    others = [n for n in ast.walk(f) if isinstance(n, (ast.Assign, ast.AugAssign)) and src((n.targets[0] if isinstance(n, ast.Assign) else n.target)) == 'success'
              and not isinstance(n.value, ast.Compare) and not (isinstance(n.value, ast.Constant) and n.value.value in (None, False))]
    if others:
        problems.append('success is also set by %s' % [util.stmt_key(x) for x in others])
    ctx.ob('R4.3-odeint-call', '_helper_simulate', not problems, where,
           'odeint(rhs_global, copy of the initial state, caller time points); result rows are labelled with the same time points; NaN rows on failure',
           '; '.join(problems))
    # "to within the integrator's tolerance": the tolerances and the step limit in force at the odeint call are the caller's keyword where
    # one is given and the simulator's own setting otherwise; what the helper does not consume is forwarded.  The option handling is
    # evaluated (templates.StrExec) for every subset of {atol, rtol, hmax} plus one foreign keyword; values are named holes.
    from ..templates import StrExec, Hole, UNKNOWN
    import itertools
    kwarg = f.args.kwarg.arg if f.args.kwarg is not None else None
    problems = []
    n_sc = 0
    if kwarg is None:
        problems.append('_helper_simulate takes no keyword options')
    else:
        for r_ in range(4):
            for given in itertools.combinations(('atol', 'rtol', 'hmax'), r_):
                kws = {g_: Hole('KW_' + g_) for g_ in given}
                kws['mxordn'] = Hole('KW_mxordn')
                seen = []

                def hook(n, ex):
                    if src(n.func).split('.')[-1] == 'odeint':
                        d = {}
                        for kw_ in n.keywords:
                            v_ = ex.ev(kw_.value)
                            if kw_.arg is None:
                                if isinstance(v_, dict):
                                    d.update(v_)
                                else:
                                    d['**'] = v_
                            else:
                                d[kw_.arg] = v_
                        seen.append(d)
                        return [UNKNOWN, UNKNOWN]
                    return None
                env = {kwarg: dict(kws), 'self.atol': Hole('SELF_atol'), 'self.rtol': Hole('SELF_rtol'), 'self.hmax': Hole('SELF_hmax'),
                       'self.mxstep': 500000}
                ex = StrExec(env, tracked=set(), call_hook=hook)
                ex.run(f.body)
                n_sc += 1
                if not seen:
                    problems.append('keywords %s: no odeint call reached (%s)' % (sorted(given), ex.aborted))
                    continue
                d = seen[0]
                for o_ in ('atol', 'rtol', 'hmax'):
                    want = 'KW_' + o_ if o_ in given else 'SELF_' + o_
                    if d.get(o_, 'odeint default') != want:
                        problems.append('with keywords %s odeint runs with %s=%s, expected %s' % (sorted(given) or 'none', o_, d.get(o_, 'its default'),
                                                                                                 "the caller's keyword" if o_ in given else "the simulator's own " + o_))
                if d.get('mxordn') != 'KW_mxordn':
                    problems.append('a keyword the helper does not consume is not forwarded to odeint')
    ctx.ob('R4.3-odeint-call', '_helper_simulate/options', not problems, where,
           "atol, rtol and hmax at the odeint call are the caller's keywords where given, else the simulator's settings; other keywords are "
           'forwarded (%d keyword subsets evaluated)' % n_sc, '; '.join(problems[:3]))
    for cls_, m_, pairs in (('DeterministicSimulator', 'set_tolerance', (('self.atol', 0), ('self.rtol', 1))),):
        dc_, g_ = ctx.prog.resolve_method(cls_, m_)
        if g_ is None:
            raise AnalysisError('anchor vanished: %s.%s' % (cls_, m_))
        ps_ = [a.arg for a in g_.args.args[1:]]
        st_ = {k(src(x.targets[0])): k(src(x.value)) for x in g_.body if isinstance(x, ast.Assign)}
        ok_ = all(st_.get(t_) == ps_[i_] for t_, i_ in pairs) and len(ps_) == 2
        ctx.ob('R4.3-odeint-call', '%s.%s' % (cls_, m_), ok_, ctx.loc('simulator.pxd' if 'simulator.pxd' in ctx.prog.mods else 'simulator', g_),
               'set_tolerance(atol, rtol) stores the absolute tolerance as atol and the relative one as rtol', str(st_))
    w_ = ctx.fn('simulator:DeterministicSimulator.py_set_tolerance')
    ok_, det_ = util.delegation(w_, 'set_tolerance')
    ctx.ob('R4.3-odeint-call', 'DeterministicSimulator.py_set_tolerance', ok_, ctx.loc('simulator', w_), 'py_set_tolerance forwards (atol, rtol) in that order', det_)
    # wrappers
    for cls, m_, want in (('DeterministicSimulator', 'simulate', 'returnself._helper_simulate(sim,timepoints)'),
                          ('DeterministicSimulator', 'py_simulate', 'returnself._helper_simulate(sim,timepoints,**keywords)')):
        g = ctx.fn('simulator:%s.%s' % (cls, m_))
        t_ = [k(util.stmt_key(s)) for s in g.body]
        ctx.ob('R4.3-odeint-call', '%s.%s' % (cls, m_), want in t_, ctx.loc('simulator', g), '%s runs the integration helper on the given interface and grid' % m_, '')
    g = ctx.fn('simulator:py_simulate_model')
    t_ = [k(util.stmt_key(s)) for s in ast.walk(g) if isinstance(s, ast.stmt)]
    ok = 'Sim=DeterministicSimulator()' in t_ and 'Interface.py_prep_deterministic_simulation()' in t_ and 'result=Sim.py_simulate(Interface,timepoints,**keywords)' in t_ \
        and t_.index('Interface.py_prep_deterministic_simulation()') < t_.index('result=Sim.py_simulate(Interface,timepoints,**keywords)')
    ctx.ob('R4.2-globals', 'py_simulate_model', ok, ctx.loc('simulator', g), 'the compressed stoichiometry is prepared before the deterministic simulation', '')
    # R4.4 shared
    c03.check_derivative(ctx)
    # rate(x, t): the deterministic closed forms, the binding of their keys / reactant multisets, the type dispatch and the loop that fills
    # the propensity buffer the derivative reads (C01) - re-emitted here
    from . import c01
    c01.reemit(ctx, 'R4.4-rate-laws', 'deterministic', ('compute_propensities',))
    # ... and a 'general' rate is the compiled expression itself at (state, params, time): not clamped, not rescaled (C02 R2.1-users)
    from ..core import SubCtx
    from . import c02
    sub = SubCtx(ctx)
    c02.check_users(sub)
    c02.check_nodes(sub)        # ... and every node of the compiled expression computes its operator at (species, params, time)
    for rule, key, ok, where, what, detail in sub.got:
        if rule == 'R2.1-users' and key.startswith('GeneralPropensity'):
            ctx.ob('R4.4-rate-laws', '%s/%s' % (rule, key), ok, where, what, detail)
        if rule == 'R2.1-node-semantics' and key.endswith('.evaluate'):
            ctx.ob('R4.4-rate-laws', '%s/%s' % (rule, key), ok, where, what, detail)
    # ... and what a compiled expression evaluates to depends on the string and the model's dictionaries only: the module that compiles
    # and evaluates them keeps no state between calls (C08 R8.7) - re-emitted here
    from . import c08
    for m_ in ('types', 'types.pxd', 'random', 'lineage', 'lineage.pxd', 'inference'):
        ctx.prog.mod(m_)
    sub = SubCtx(ctx)
    c08.check_pure_evaluation(sub)
    for rule, key, ok, where, what, detail in sub.got:
        if rule == 'R8.7-pure-evaluation' and key in ('methods', 'module-state'):
            ctx.ob('R4.4-rate-laws', '%s/%s' % (rule, key), ok, where, what, detail)
    # "S" in dx/dt = S * rate (resp. the net stoichiometry of the master equation) is built from the reaction list with multiplicity, a
    # species on both sides cancelling by count (C03 R3.1 / R3.3) - re-emitted here
    sub = SubCtx(ctx)
    c03.check_accumulation(sub)
    c03.check_matrices(sub)
    c03.check_constructor_reactions(sub)
    for rule, key, ok, where, what, detail in sub.got:
        if rule in ('R3.1-accumulation', 'R3.3-matrix-fill'):
            ctx.ob('R4.5-stoichiometry', '%s/%s' % (rule, key), ok, where, what, detail)
    ctx.floor('R4.4-rate-laws', 57)
    ctx.floor('R4.1-rhs', 1)
    ctx.floor('R4.3-odeint-call', 3)
