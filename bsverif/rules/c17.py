"""C17 - copies and pickles of models and results behave like the original (state-method agreement).

R17.1 positional agreement: for every hand-written __getstate__/__setstate__ pair (Model,
LineageModel, Schnitz, Lineage, ExperimentalLineage, VolumeCellState, LineageVolumeCellState) the
attribute placed at tuple position k is the attribute restored from index k; subclass offsets are
consistent; __reduce__ argument order matches the constructor.
R17.2 coverage: every attribute declared for a class with hand-written state methods (including
subclasses that inherit them) is in the state tuple, or is a C vector rebuilt from its list twin,
or is in the one-line-per-symbol exemption table.
R17.3 picklability: every class that can be reached from a state tuple (propensities, expression
nodes, delays, rules, volumes, lineage rules/events, splitters, cell states, results, schnitzes)
either has hand-written state methods or the reducer Cython generates for it is the real one, not
the stub that raises TypeError (decided by the compiler's own declaration analysis).
R17.4 expression nodes with children are restored child by child, in order.
"""
import ast

from .. import front, util
from ..front import AnalysisError, src

EXPLANATION = __doc__
ASSUMPTIONS = ['pickle/copy call the state methods as documented', 'auto-generated reducers include every member (Cython semantics)']

# attribute -> reason, for attributes deliberately not part of the pickled state
EXEMPT = {
    ('Model', 'txt_dict'): 'never assigned anywhere in the class (checked)',
    ('VolumeCellState', 'volume_object'): 'helper re-attached by the simulators (set_volume_object) after a result is built',
    ('LineageVolumeCellState', 'state_set'): 'recomputed by py_set_state on restore',
    ('LineageVolumeCellState', 'delay_queue'): 'lineage simulations have no delays: the inherited queue is never set in lineage.pyx (checked)',
}
FAMILIES = ['Propensity', 'Term', 'Delay', 'Rule', 'Volume', 'LineageRule', 'Event', 'VolumeSplitter', 'DelayVolumeSplitter', 'CellState',
            'SSAResult', 'Schnitz', 'Lineage', 'DelayQueue', 'Model']


def k(t):
    return t.replace(' ', '')


def self_attr(n):
    n = util.strip_cast(n)
    if isinstance(n, ast.Call) and isinstance(n.func, ast.Attribute) and n.func.attr == 'copy' and not n.args:
        n = n.func.value
    if isinstance(n, ast.Attribute) and src(n.value) == 'self':
        return n.attr
    return None


def get_positions(prog, cls):
    """list of attribute names (or '?') in the tuple __getstate__ of `cls` returns; None if no hand-written getstate."""
    dc, f = prog.resolve_method(cls, '__getstate__')
    if f is None:
        return None, None, None
    rets = [s for s in f.body if isinstance(s, ast.Return)]
    if len(rets) != 1:
        raise AnalysisError('%s.__getstate__: expected one return' % dc)
    v = rets[0].value
    asg = {src(s.targets[0]): s.value for s in f.body if isinstance(s, ast.Assign)}

    def elems(n):
        if isinstance(n, (ast.Tuple, ast.List)):
            return [self_attr(e) or '?' for e in n.elts]
        if isinstance(n, ast.Name) and n.id in asg:
            return elems(asg[n.id])
        if isinstance(n, ast.Call) and src(n.func) in ('tuple', 'list') and len(n.args) == 1:
            return elems(n.args[0])
        if isinstance(n, ast.BinOp) and isinstance(n.op, ast.Add):
            return elems(n.left) + elems(n.right)
        if isinstance(n, ast.Call) and k(src(n)) in ('super().__getstate__()',):
            b = prog.classes[dc].bases
            base_pos, _, _ = get_positions(prog, b[0]) if b else (None, None, None)
            if base_pos is None:
                raise AnalysisError('%s.__getstate__ uses a base state that is not hand-written' % dc)
            return list(base_pos)
        raise AnalysisError('%s.__getstate__: tuple element not understood: %s' % (dc, src(n)))
    return elems(v), dc, f


def setter_attr(prog, cls, meth, argpos, depth=0):
    """attribute assigned from parameter #argpos by cls.meth (following self./super() calls)"""
    if depth > 3:
        return None
    dc, f = prog.resolve_method(cls, meth)
    if f is None:
        return None
    params = [a.arg for a in f.args.args[1:]]
    if argpos >= len(params):
        return None
    p = params[argpos]
    for n in ast.walk(f):
        if isinstance(n, ast.Assign) and isinstance(n.targets[0], ast.Attribute) and src(n.targets[0].value) == 'self':
            v = util.strip_cast(n.value)
            while isinstance(v, ast.Call) and len(v.args) == 1 and src(v.func) in ('np.asarray', 'np.array', 'float', 'int', 'np.double'):
                v = v.args[0]
            if isinstance(v, ast.Name) and v.id == p:
                return n.targets[0].attr
    for n in ast.walk(f):
        if isinstance(n, ast.Call) and isinstance(n.func, ast.Attribute):
            recv = k(src(n.func.value))
            if recv in ('self', 'super()'):
                for i, a in enumerate(n.args):
                    v = a
                    while isinstance(v, ast.Call) and len(v.args) == 1 and src(v.func) in ('np.asarray', 'np.array', 'float', 'int'):
                        v = v.args[0]
                    if isinstance(v, ast.Name) and v.id == p:
                        start = prog.classes[dc].bases[0] if recv == 'super()' and prog.classes[dc].bases else cls
                        r = setter_attr(prog, start, n.func.attr, i, depth + 1)
                        if r:
                            return r
    return None


def set_positions(prog, cls):
    """index -> attribute restored from it, the rebuilt vectors, offset info"""
    dc, f = prog.resolve_method(cls, '__setstate__')
    if f is None:
        return None
    st = f.args.args[1].arg
    pos = {}
    rebuilt = {}
    info = {'base_slice': None, 'problems': []}
    names = {}
    for s in f.body:
        if isinstance(s, ast.Assign) and isinstance(s.targets[0], ast.Tuple) and src(s.value) == st:
            for i, e in enumerate(s.targets[0].elts):
                names[src(e)] = i
    for n in ast.walk(f):
        if isinstance(n, ast.Assign) and isinstance(n.targets[0], ast.Attribute) and src(n.targets[0].value) == 'self':
            v = n.value
            if isinstance(v, ast.IfExp) and isinstance(v.body, ast.Subscript) and src(v.body.value) == st and \
                    k(util.canon_test(v.test)) in ('%s<len(%s)' % (k(src(v.body.slice)), st), 'len(%s)>%s' % (st, k(src(v.body.slice)))):
                v = v.body      # `state[i] if len(state) > i else default`: position i when present
            if isinstance(v, ast.Call) and isinstance(v.func, ast.Attribute) and v.func.attr == 'copy':
                v = v.func.value
            if isinstance(v, ast.Subscript) and src(v.value) == st:
                idx = k(src(v.slice))
                pos[idx] = n.targets[0].attr
        if isinstance(n, ast.Call) and isinstance(n.func, ast.Attribute) and k(src(n.func.value)) == 'super()' and n.func.attr == '__setstate__':
            info['base_slice'] = k(src(n.args[0]))
        if isinstance(n, ast.Expr) and isinstance(n.value, ast.Call) and isinstance(n.value.func, ast.Attribute) and k(src(n.value.func.value)) == 'self' \
                and n.value.args and isinstance(n.value.args[0], ast.Name) and n.value.args[0].id in names:
            for i, a in enumerate(n.value.args):
                if isinstance(a, ast.Name) and a.id in names:
                    attr = setter_attr(prog, cls, n.value.func.attr, i)
                    pos[str(names[a.id])] = attr or '?'
        if isinstance(n, ast.For) and isinstance(n.iter, ast.Subscript) and src(n.iter.value) == st:
            idx = k(src(n.iter.slice))
            for c in ast.walk(n):
                if isinstance(c, ast.Call) and isinstance(c.func, ast.Attribute) and c.func.attr == 'push_back' and src(c.func.value).startswith('self.'):
                    rebuilt[src(c.func.value)[5:]] = idx
                if isinstance(c, ast.Call) and k(src(c.func)) == 'self.add_schnitz':
                    rebuilt['c_schnitzes'] = idx
                    pos.setdefault(idx, 'schnitzes')
    clears = [src(c.func.value)[5:] for c in ast.walk(f) if isinstance(c, ast.Call) and isinstance(c.func, ast.Attribute) and c.func.attr == 'clear'
              and src(c.func.value).startswith('self.')]
    info['clears'] = clears
    return pos, rebuilt, info, dc, f


def check_pairs(ctx):
    prog = ctx.prog
    classes = ['Model', 'LineageModel', 'Schnitz', 'Lineage', 'ExperimentalLineage', 'VolumeCellState', 'DelayVolumeCellState', 'LineageVolumeCellState']
    covered = {}
    for cls in classes:
        prog.cls(cls)
        gp, gdc, gf = get_positions(prog, cls)
        sp_ = set_positions(prog, cls)
        if gp is None or sp_ is None:
            raise AnalysisError('anchor vanished: hand-written state methods of %s' % cls)
        pos, rebuilt, info, sdc, sf = sp_
        mod = prog.classes[sdc].module
        ctx.functions.add('%s:%s.__getstate__' % (prog.classes[gdc].module, gdc))
        ctx.functions.add('%s:%s.__setstate__' % (mod, sdc))
        problems = []
        n = len(gp)
        offset = 0
        base_n = 0
        if info['base_slice'] is not None:
            b = prog.classes[sdc].bases[0]
            bgp, _, _ = get_positions(prog, b)
            base_n = len(bgp)
            own = n - base_n
            sl = info['base_slice']
            st = sf.args.args[1].arg
            if sl == '%s[%d:]' % (st, own):
                # own fields first, base state after
                own_range = range(0, own)
            elif sl in ('%s[:len(%s)-%d]' % (st, st, own), '%s[:-%d]' % (st, own), '%s[:%d]' % (st, base_n)):
                own_range = range(base_n, n)
            else:
                problems.append('base state passed as %s, but this class %s %d field(s)' % (sl, 'prepends' if gp[:base_n] != bgp else 'appends', own))
                own_range = range(0, 0)
        else:
            own_range = range(0, n)
        for i in own_range:
            a = gp[i]
            cand = [str(i), 'len(%s)-%d' % (sf.args.args[1].arg, n - i)]
            got = None
            for c in cand:
                if c in pos:
                    got = pos[c]
            if a == '?':
                problems.append('position %d of the state tuple is not an attribute' % i)
            elif got is None:
                problems.append("position %d (%s) is never restored" % (i, a))
            elif got != a:
                problems.append('position %d holds %s but is restored into %s' % (i, a, got))
        extra = [i for i in pos if i.isdigit() and int(i) not in own_range]
        if extra:
            problems.append('restores from positions %s outside the fields this class owns' % sorted(extra))
        # rebuilt vectors come from the index of their list twin
        for vec, idx in rebuilt.items():
            twin = vec[2:] if vec.startswith('c_') else vec
            if idx.isdigit() and int(idx) < n and gp[int(idx)] not in (twin, twin + 's'):
                problems.append('vector %s is rebuilt from position %s (%s), not from its list twin %s' % (vec, idx, gp[int(idx)], twin))
            if vec not in info['clears'] and vec != 'c_schnitzes':
                problems.append('vector %s is refilled without being cleared' % vec)
        ctx.ob('R17.1-positions', cls, not problems, ctx.loc(mod, sf),
               '%s: the attribute at tuple position k of __getstate__ is the attribute __setstate__ restores from index k (%d fields%s)'
               % (cls, n, ', %d from the base class' % base_n if base_n else ''), '; '.join(problems[:3]))
        covered[cls] = (set(a for a in gp if a != '?'), set(rebuilt))
    # __reduce__ of LineageVolumeCellState vs __init__
    cls = 'LineageVolumeCellState'
    dc, f = prog.resolve_method(cls, '__reduce__')
    dci, init = prog.resolve_method(cls, '__init__')
    problems = []
    if f is None or init is None:
        problems.append('no __reduce__/__init__')
    else:
        rets = [s for s in f.body if isinstance(s, ast.Return)]
        tup = rets[0].value if rets else None
        if not (isinstance(tup, ast.Tuple) and len(tup.elts) == 2 and k(src(tup.elts[0])) == 'self.__class__' and isinstance(tup.elts[1], ast.Tuple)):
            problems.append('__reduce__ does not return (class, args)')
        else:
            args = [self_attr(e) for e in tup.elts[1].elts]
            params = [a.arg for a in init.args.args[1:]]
            # which attribute each constructor parameter initialises (through setters)
            for i, a in enumerate(args):
                if i >= len(params):
                    problems.append('more arguments than constructor parameters')
                    break
                tgt = None
                for n in ast.walk(init):
                    if isinstance(n, ast.Assign) and isinstance(n.targets[0], ast.Attribute) and src(n.targets[0].value) == 'self' \
                            and isinstance(n.value, ast.Name) and n.value.id == params[i]:
                        tgt = n.targets[0].attr
                if tgt is None:
                    for n in ast.walk(init):
                        if isinstance(n, ast.Call) and isinstance(n.func, ast.Attribute) and k(src(n.func.value)) == 'self':
                            for j, x in enumerate(n.args):
                                if isinstance(x, ast.Name) and x.id == params[i]:
                                    tgt = tgt or setter_attr(prog, cls, n.func.attr, j)
                if tgt is not None and a is not None and tgt != a:
                    problems.append('constructor parameter %s initialises %s but __reduce__ passes %s' % (params[i], tgt, a))
    ctx.ob('R17.1-positions', 'LineageVolumeCellState.__reduce__', not problems, ctx.loc('lineage', f) if f is not None else '',
           '__reduce__ passes the attributes in the order of the constructor parameters that initialise them', '; '.join(problems))
    return covered


def check_coverage(ctx, covered):
    prog = ctx.prog
    todo = []
    for cls, ci in prog.classes.items():
        if ci.node is None or not getattr(ci.node, 'cy_cdef', False):
            continue
        gd, gf = prog.resolve_method(cls, '__getstate__')
        if gf is None:
            continue
        todo.append(cls)
    for cls in sorted(todo):
        gp, gdc, gf = get_positions(prog, cls)
        rebuilt = set()
        for c in prog.mro(cls):            # vectors rebuilt by this class's __setstate__ or by a base's (reached through super())
            own = prog.classes[c].methods.get('__setstate__')
            if own is not None:
                r = set_positions(prog, c)
                rebuilt |= set(r[1])
                if r[2]['base_slice'] is None:
                    break
        inset = set(a for a in gp if a != '?')
        attrs = prog.all_attrs(cls)
        missing = []
        for a, t in sorted(attrs.items()):
            if a in inset or a in rebuilt:
                continue
            if t.startswith('vector[') and a in rebuilt:
                continue
            if any((c, a) in EXEMPT for c in prog.mro(cls)):
                continue
            # scalar counters that are recomputed are still state: no blanket exemption
            missing.append('%s (%s)' % (a, t))
        mod = prog.classes[gdc].module
        ctx.ob('R17.2-coverage', cls, not missing, ctx.loc(mod, gf),
               'every attribute declared for %s (%d incl. inherited) is pickled, rebuilt from its list twin, or listed as exempt with a reason' % (cls, len(attrs)),
               'not covered: %s' % ', '.join(missing) if missing else '')
    # exemption re-validation: Model.txt_dict is never assigned
    assigned = False
    for m in ('types', 'lineage'):
        for n in ast.walk(prog.mod(m).tree):
            if isinstance(n, (ast.Assign, ast.AugAssign)):
                for t in (n.targets if isinstance(n, ast.Assign) else [n.target]):
                    if isinstance(t, ast.Attribute) and t.attr == 'txt_dict':
                        assigned = True
    used = any(isinstance(n, ast.Attribute) and n.attr in ('delay_queue', 'py_set_delay_queue', 'set_delay_queue') for n in ast.walk(prog.mod('lineage').tree))
    ctx.ob('R17.2-coverage', 'exemption/LineageVolumeCellState.delay_queue', not used, 'lineage/lineage.pyx',
           'the exempt inherited delay queue is never touched by the lineage module', '')
    ctx.ob('R17.2-coverage', 'exemption/Model.txt_dict', not assigned and 'txt_dict' in prog.all_attrs('Model'), 'bioscrape/types.pxd',
           'the exempt attribute Model.txt_dict is never assigned (so nothing is lost by not pickling it)', '')


def check_reduce_coverage(ctx):
    """classes with their own hand-written __reduce__: nothing that is state may be dropped on the way through the reducer"""
    prog = ctx.prog
    for cls, ci in sorted(prog.classes.items()):
        f = ci.methods.get('__reduce__')
        if f is None or ci.node is None or not getattr(ci.node, 'cy_cdef', False):
            continue
        mod = ci.module
        ctx.functions.add('%s:%s.__reduce__' % (mod, cls))
        rets = [x for x in f.body if isinstance(x, ast.Return)]
        problems = []
        if len(rets) != 1 or not isinstance(rets[0].value, ast.Tuple) or len(rets[0].value.elts) < 2:
            raise AnalysisError('%s.__reduce__: return value is not a (callable, args[, state]) tuple' % cls)
        # (temporaries that hold the class / the state are read through: each is written once, directly in front of the return)
        defs_ = {n_: v_ for n_, v_ in util.single_defs(f).items() if v_ is not None}
        elts = [util.inline(e, defs_) for e in rets[0].value.elts]
        mentioned = set()
        for e in elts[1:]:
            for n in ast.walk(e):
                if isinstance(n, ast.Attribute) and src(n.value) == 'self':
                    mentioned.add(n.attr)
            if k(src(e)) == 'self.__getstate__()':
                gp, _, _ = get_positions(prog, cls)
                mentioned |= set(a for a in (gp or []) if a != '?')
        ctor_call = k(src(elts[0])) in ('self.__class__', 'type(self)', cls)
        dci, init = prog.resolve_method(cls, '__init__')
        params = [a.arg for a in init.args.args[1:]] if init is not None else []
        writers = {}
        for c in prog.mro(cls):
            for mname, m in prog.classes[c].methods.items():
                if mname in ('__init__', '__setstate__', '__cinit__'):
                    continue
                for n in ast.walk(m):
                    if isinstance(n, (ast.Assign, ast.AugAssign)):
                        for t in (n.targets if isinstance(n, ast.Assign) else [n.target]):
                            if isinstance(t, ast.Attribute) and src(t.value) == 'self':
                                writers.setdefault(t.attr, mname)
        for a, t in sorted(prog.all_attrs(cls).items()):
            if a in mentioned or any((c, a) in EXEMPT for c in prog.mro(cls)):
                continue
            if t.startswith('vector[') and (a + '_list' in mentioned or a[2:] in mentioned):
                continue        # C vector rebuilt from its pickled list twin
            derived = False
            if ctor_call and init is not None:
                for n in ast.walk(init):
                    if isinstance(n, ast.Assign) and any(isinstance(x, ast.Attribute) and src(x.value) == 'self' and x.attr == a for x in n.targets):
                        names = {x.id for x in ast.walk(n.value) if isinstance(x, ast.Name)}
                        if names & set(params):
                            derived = True
                        elif a not in writers:
                            derived = True          # a constant that no other method ever changes is not state
            if not derived:
                problems.append('%s (%s)%s' % (a, t, ' - set to a constant by the constructor but changed by %s()' % writers[a] if a in writers else ''))
        ctx.ob('R17.2-reduce-coverage', cls, not problems, ctx.loc(mod, f),
               '%s.__reduce__ carries every attribute that is state (directly, through __getstate__, or re-derived by the constructor from what is carried)' % cls,
               'dropped on pickle/deepcopy: %s' % ', '.join(problems) if problems else '')
        # a value that travels through the constructor must arrive as it is: "not given" may only be recognised by `is None`, never by
        # truthiness (0, 0.0, an empty array are legitimate values of a time, a volume, a state)
        if ctor_call and init is not None and len(elts) >= 2 and isinstance(elts[1], ast.Tuple):
            carried = set(params[:len(elts[1].elts)])
            lossy = []
            for n in ast.walk(init):
                if isinstance(n, ast.BoolOp):
                    for v in n.values[:-1] if isinstance(n.op, ast.Or) else n.values:
                        if isinstance(v, ast.Name) and v.id in carried:
                            lossy.append('`%s` (%s)' % (src(n), ctx.loc(prog.classes[dci].module, n)))
                if isinstance(n, (ast.If, ast.IfExp)):
                    t = n.test
                    if isinstance(t, ast.UnaryOp) and isinstance(t.op, ast.Not):
                        t = t.operand
                    if isinstance(t, ast.Name) and t.id in carried:
                        lossy.append('`if %s` (%s)' % (src(n.test), ctx.loc(prog.classes[dci].module, n)))
            ctx.ob('R17.2-faithful-constructor', cls, not lossy, ctx.loc(prog.classes[dci].module, init),
                   "the constructor __reduce__ goes through stores every carried argument as given: a default is chosen only when the argument is None",
                   'a carried argument is tested for truthiness: %s' % '; '.join(sorted(set(lossy))[:3]) if lossy else '')


def reduce_stubs():
    """class -> True if Cython's injected __reduce_cython__ is the raising stub, False if real; absent if none injected."""
    out = {}
    for name in ('types', 'simulator', 'lineage'):
        rel, modname = front.CYTHON_MODULES[name]
        import os
        tree = front.cython_tree(os.path.join(front.REPO, rel), modname, upto='AnalyseDeclarationsTransform')

        def walk(n, cls=None):
            kind = type(n).__name__
            if kind == 'CClassDefNode':
                cls = str(n.class_name)
            if kind == 'DefNode' and n.name == '__reduce_cython__' and cls:
                stats = getattr(n.body, 'stats', [n.body])
                out[cls] = any(type(s).__name__ == 'RaiseStatNode' for s in stats)
            for attr in n.child_attrs or []:
                ch = getattr(n, attr, None)
                if ch is None:
                    continue
                if isinstance(ch, list):
                    for x in ch:
                        if x is not None:
                            walk(x, cls)
                else:
                    walk(ch, cls)
        walk(tree)
    return out


def effective_reducer(prog, stubs, cls):
    """How pickle reduces an instance of `cls` (Cython semantics).

    Cython installs the reducer it generates for class K as K.__reduce__ unless a __getstate__ is visible from K; a
    subclass without its own reducer inherits K's, whose unpickle helper does K.__new__(subclass).
    returns (kind, class): kind in 'hand' (hand-written __reduce__), 'auto' (generated, real), 'stub' (generated, raises),
    'default' (object protocol with __getstate__/__setstate__), 'none'."""
    for K in prog.mro(cls):
        own = prog.classes[K].methods
        if '__reduce__' in own or '__reduce_ex__' in own:
            return 'hand', K
        if K in stubs:
            getstate_visible = prog.resolve_method(K, '__getstate__')[1] is not None
            if not getstate_visible:
                return ('stub' if stubs[K] else 'auto'), K
    if prog.resolve_method(cls, '__getstate__')[1] is not None and prog.resolve_method(cls, '__setstate__')[1] is not None:
        return 'default', cls
    return 'none', None


def check_picklable(ctx):
    prog = ctx.prog
    stubs = reduce_stubs()
    n = 0
    for cls, ci in sorted(prog.classes.items()):
        if ci.node is None or not getattr(ci.node, 'cy_cdef', False):
            continue
        mro = prog.mro(cls)
        if not any(f in mro for f in FAMILIES):
            continue
        if cls.endswith('CSimInterface'):
            continue
        kind, K = effective_reducer(prog, stubs, cls)
        problems = []
        if kind == 'none':
            problems.append('no reducer and no state methods')
        elif kind == 'stub':
            problems.append("the reducer in effect is %s's compiler-generated stub, which raises TypeError" % K)
        elif kind == 'auto' and K != cls:
            problems.append("pickle uses the reducer Cython generated for the base class %s: its helper calls %s.__new__(%s), which raises TypeError "
                            "for a subclass with its own C-level layout, and the state methods of %s are ignored" % (K, K, cls, cls))
        elif kind == 'hand':
            dc, f = prog.resolve_method(cls, '__reduce__')
            rets = [x for x in f.body if isinstance(x, ast.Return)]
            first = rets[0].value.elts[0] if rets and isinstance(rets[0].value, ast.Tuple) and rets[0].value.elts else None
            if K != cls and first is not None and k(src(first)) not in ('self.__class__', 'type(self)', 'restore_binary_term'):
                problems.append("inherits %s.__reduce__, which rebuilds a %s, not a %s" % (K, src(first), cls))
        n += 1
        ctx.ob('R17.3-picklable', cls, not problems, '%s:%s' % (prog.mods[ci.module].rel, ci.node.lineno),
               '%s can be pickled: the reducer in effect is its own (hand-written or compiler-generated and real) or the object protocol with its state methods' % cls,
               '; '.join(problems) or 'reducer in effect: %s%s' % (kind, '' if K in (cls, None) else ' inherited from ' + K))
    return n


def check_binary(ctx):
    f = ctx.fn('types:restore_binary_term')
    a = [x.arg for x in f.args.args]
    t = [k(util.stmt_key(s)) for s in ast.walk(f) if isinstance(s, ast.stmt)]
    ok = 'new_term=%s()' % a[1] in t and 'new_term.py_add_term(x)' in t and 'returnnew_term' in t and \
        any(isinstance(n, ast.For) and k(src(n.iter)) in ('enumerate(%s)' % a[0], a[0]) for n in ast.walk(f))
    ctx.ob('R17.4-ordered-restore', 'restore_binary_term', ok, ctx.loc('types', f), 'children are re-added one by one in list order through py_add_term', '')
    f = ctx.fn('types:BinaryTerm.__reduce__')
    rets = [s for s in f.body if isinstance(s, ast.Return)]
    ok = len(rets) == 1 and k(src(rets[0].value)) == '(restore_binary_term,(self.terms_list,self.__class__))'
    ctx.ob('R17.4-ordered-restore', 'BinaryTerm.__reduce__', ok, ctx.loc('types', f), 'a node with children pickles its child list and its own class', '')
    f = ctx.fn('types:BinaryTerm.py_add_term')
    ok = [k(util.stmt_key(s)) for s in f.body] == ['self.add_term(%s)' % f.args.args[1].arg]
    ctx.ob('R17.4-ordered-restore', 'BinaryTerm.py_add_term', ok, ctx.loc('types', f), 'py_add_term appends to both the evaluated vector and the pickled list', '')
    # subclasses of BinaryTerm must not add state the reducer ignores
    prog = ctx.prog
    for cls in prog.subclasses('BinaryTerm'):
        own = prog.classes[cls].attrs
        ctx.ob('R17.4-ordered-restore', 'subclass/%s' % cls, not own, '%s' % prog.classes[cls].module,
               '%s adds no attribute that the inherited __reduce__ would drop' % cls, 'declares %s' % sorted(own) if own else '')


def check_restore_loops(ctx):
    """__setstate__ rebuilds C vectors and lists from the sequences of the state: what is put back is the element that was carried - a
    loop over a state sequence never replaces its element by another object (an "equal" one need not be the same: Delay.__eq__ compares
    the type only)."""
    prog = ctx.prog
    for cname in ('Model', 'LineageModel'):
        ci = prog.classes.get(cname)
        f = ci.methods.get('__setstate__') if ci is not None else None
        if f is None:
            continue
        bad = []
        n = 0
        for lp in [x for x in ast.walk(f) if isinstance(x, ast.For)]:
            n += 1
            names = {x.id for x in ast.walk(lp.target) if isinstance(x, ast.Name)}
            for st in ast.walk(lp):
                if isinstance(st, (ast.Assign, ast.AugAssign)) and st is not lp:
                    for t in (st.targets if isinstance(st, ast.Assign) else [st.target]):
                        if isinstance(t, ast.Name) and t.id in names:
                            bad.append('`%s` replaces the element being restored (%s)' % (util.stmt_key(st)[:70], ctx.loc(ci.module, st)))
        ctx.ob('R17.4-ordered-restore', '%s/elements-kept' % cname, not bad, ctx.loc(ci.module, f),
               'the loops of __setstate__ put back the carried elements themselves (%d loops)' % n, '; '.join(bad[:2]))


def check_copy_protocol(ctx):
    """copy.deepcopy / copy.copy of every class of the three modules goes through the reducer and state methods the other rules analyse
    (deepcopy then copies every component recursively): a class that brings its own __deepcopy__ / __copy__ is only accepted when that
    method is a full deep copy by construction - a pickle round trip, or copy.deepcopy of the whole state with the memo."""
    prog = ctx.prog
    n = 0
    for cname, ci in sorted(prog.classes.items()):
        for meth in ('__deepcopy__', '__copy__'):
            f = ci.methods.get(meth)
            if f is None:
                continue
            n += 1
            calls = [src(c.func).replace(' ', '') for c in ast.walk(f) if isinstance(c, ast.Call)]
            full = False
            for c in ast.walk(f):
                if isinstance(c, ast.Call) and src(c.func).replace(' ', '') in ('copy.deepcopy', 'deepcopy') and c.args:
                    a0 = src(c.args[0]).replace(' ', '')
                    if a0 in ('self.__getstate__()', 'self.__reduce__()', 'self.__reduce_ex__(2)', 'self.__reduce_ex__(4)'):
                        full = True
                if isinstance(c, ast.Call) and src(c.func).replace(' ', '') in ('pickle.loads', 'loads') and c.args and isinstance(c.args[0], ast.Call) \
                        and src(c.args[0].func).replace(' ', '') in ('pickle.dumps', 'dumps') and c.args[0].args and src(c.args[0].args[0]) == 'self':
                    full = True
            mod_ = getattr(f, '_module', 'types')
            ctx.ob('R17.5-copy-protocol', '%s.%s' % (cname, meth), full and meth == '__deepcopy__', ctx.loc(mod_ if mod_ in prog.mods else 'types', f),
                   'a hand-written copy method copies every component (pickle round trip or deepcopy of the whole state)',
                   '' if full else 'components of the state are handed to the copy as they are (calls: %s): mutable ones - dictionaries, lists of '
                   'tuples, expression objects - stay shared with the original' % sorted(set(calls))[:8])
    ctx.ob('R17.5-copy-protocol', 'classes', True, '', 'deep copies of the %d classes of types / simulator / lineage go through their reducers and '
           'state methods (%d hand-written copy methods found and inspected)' % (len(prog.classes), n), '')


def check(ctx):
    prog = ctx.prog
    for m in ('types', 'types.pxd', 'simulator', 'simulator.pxd', 'lineage', 'lineage.pxd'):
        prog.mod(m)
    check_copy_protocol(ctx)
    check_restore_loops(ctx)
    covered = check_pairs(ctx)
    check_coverage(ctx, covered)
    check_reduce_coverage(ctx)
    check_picklable(ctx)
    check_binary(ctx)
    ctx.floor('R17.1-positions', 8)
    ctx.floor('R17.2-coverage', 7)
    ctx.floor('R17.3-picklable', 60)
    ctx.floor('R17.4-ordered-restore', 7)
