"""C01 - built-in rate laws equal their documented closed forms.

R1.1 formula identity: for every concrete propensity class x evaluation mode, the body a receiver of
that class executes (own override or inherited default, followed through the class table) is
read as an algebraic term and compared with the documented closed form (specs/ratelaws).
R1.2 binding: `initialize` assigns each index attribute read by the formula from the documented
key and from the right dictionary (species vs parameters); MassAction builds its multiset.
R1.3 dispatch: Model.create_propensity maps type strings / reactant counts to the right class.
R1.4 interface loops: every reaction's slot of the requested mode is evaluated and stored.
"""
import ast
import itertools

import sympy as sp

from .. import paths, symx, util
from ..front import AnalysisError, src

EXPLANATION = __doc__
ASSUMPTIONS = ['stochastic forms are compared with k*prod_i s_i*prod_{0<j<m_i} max(s_i-j,0) on a grid of integer and half-integer states '
               '(0, 0.5, ..., 4): "zero when fewer than m copies are present" also for real states']

MODES = ['get_propensity', 'get_volume_propensity', 'get_stochastic_propensity', 'get_stochastic_volume_propensity']
MODE_NAME = {'get_propensity': 'deterministic', 'get_volume_propensity': 'volume',
             'get_stochastic_propensity': 'stochastic', 'get_stochastic_volume_propensity': 'stochastic+volume'}

# documented keys of the propensity dictionaries: key -> ('param'|'species')
KEYS = {
    'ConstitutivePropensity': {'k': 'param'},
    'UnimolecularPropensity': {'k': 'param', 'species': 'species'},
    'BimolecularPropensity': {'k': 'param', 'species': 'species2'},
    'PositiveHillPropensity': {'k': 'param', 'K': 'param', 'n': 'param', 's1': 'species'},
    'NegativeHillPropensity': {'k': 'param', 'K': 'param', 'n': 'param', 's1': 'species'},
    'PositiveProportionalHillPropensity': {'k': 'param', 'K': 'param', 'n': 'param', 's1': 'species', 'd': 'species'},
    'NegativeProportionalHillPropensity': {'k': 'param', 'K': 'param', 'n': 'param', 's1': 'species', 'd': 'species'},
    'MassActionPropensity': {'k': 'param', 'species': 'multiset'},
}

V = symx.possym('volume')
STATE = symx.posfun('state')
PARAMS = symx.posfun('params')


def attr(name):
    return sp.Symbol('self.' + name, real=True)


# ----------------------------------------------------------------------------- R1.2 binding
def binding(ctx, cls):
    """key -> list of (attribute, dict name, index expression text) read from `initialize`."""
    prog = ctx.prog
    dc, f = prog.resolve_method(cls, 'initialize')
    if f is None:
        raise AnalysisError('anchor vanished: %s.initialize' % cls)
    ctx.functions.add('types:%s.initialize' % dc)
    argn = [a.arg for a in f.args.args]
    util.need(len(argn) >= 4, '%s.initialize signature changed' % cls)
    pd, sd, pard = argn[1], argn[2], argn[3]
    loops = [n for n in f.body if isinstance(n, ast.For)]
    table = {}
    for lp in loops:
        it = src(lp.iter)
        if it != '%s.items()' % pd or not isinstance(lp.target, ast.Tuple):
            continue
        kvar, vvar = lp.target.elts[0].id, lp.target.elts[1].id
        disp = util.string_dispatch(lp.body, kvar)
        if disp is None:
            continue
        tab, other, node = disp
        for lit, body in tab.items():
            binds = []
            for n in ast.walk(ast.Module(body=body, type_ignores=[])):
                if isinstance(n, ast.Assign) and len(n.targets) == 1 and isinstance(n.targets[0], ast.Attribute) \
                        and src(n.targets[0].value) == 'self' and isinstance(n.value, ast.Subscript):
                    binds.append((n.targets[0].attr, src(n.value.value), src(n.value.slice), n))
            table[lit] = (binds, body, vvar)
    return table, (pd, sd, pard), f


def check_binding(ctx, cls):
    table, (pd, sd, pard), f = binding(ctx, cls)
    where = ctx.loc('types', f)
    roles = {}
    for key, kind in KEYS[cls].items():
        binds, body, vvar = table.get(key, ([], None, None))
        if kind == 'param':
            ok = len(binds) == 1 and binds[0][1] == pard and binds[0][2] == vvar
            ctx.ob('R1.2-binding', '%s/%s' % (cls, key), ok, where,
                   "key '%s' of %s must set exactly one parameter-index attribute from %s[%s]" % (key, cls, pard, vvar),
                   'found: %s' % [(b[0], '%s[%s]' % (b[1], b[2])) for b in binds])
            if ok:
                roles[key] = binds[0][0]
        elif kind == 'species':
            ok = len(binds) == 1 and binds[0][1] == sd and binds[0][2] == vvar
            ctx.ob('R1.2-binding', '%s/%s' % (cls, key), ok, where,
                   "key '%s' of %s must set exactly one species-index attribute from %s[%s]" % (key, cls, sd, vvar),
                   'found: %s' % [(b[0], '%s[%s]' % (b[1], b[2])) for b in binds])
            if ok:
                roles[key] = binds[0][0]
        elif kind == 'species2':
            # two attributes from species_indices[names[0]] / [names[1]]
            ok = len(binds) == 2 and all(b[1] == sd for b in binds) and \
                sorted(b[2].split('[')[-1] for b in binds) == ['0]', '1]'] and binds[0][0] != binds[1][0]
            ctx.ob('R1.2-binding', '%s/%s' % (cls, key), ok, where,
                   "key 'species' of %s must set the two species-index attributes from the two '*'-separated names" % cls,
                   'found: %s' % [(b[0], '%s[%s]' % (b[1], b[2])) for b in binds])
            if ok:
                bs = sorted(binds, key=lambda b: b[2].split('[')[-1])
                roles['s1'], roles['s2'] = bs[0][0], bs[1][0]
        elif kind == 'multiset':
            ok, detail = check_multiset(body, sd)
            ctx.ob('R1.2-binding', '%s/%s' % (cls, key), ok, where,
                   "key 'species' of MassActionPropensity must build (sp_inds, sp_counts) as the multiset of the "
                   "'*'-separated names and num_species as the sum of the counts", detail)
    return roles


def check_multiset(body, sd):
    """first occurrence: push index and count 1; repeat: increment the remembered count; num_species = sum(counts)."""
    if body is None:
        return False, "no branch for key 'species'"
    mod = ast.Module(body=body, type_ignores=[])
    txt = [util.stmt_key(n) for n in ast.walk(mod) if isinstance(n, ast.stmt)]
    ifs = [n for n in ast.walk(mod) if isinstance(n, ast.If) and isinstance(n.test, ast.Compare)
           and isinstance(n.test.ops[0], (ast.NotIn, ast.In)) and len(n.test.ops) == 1
           and isinstance(n.test.left, ast.Name)]
    cand = None
    for n in ifs:
        name = n.test.left.id
        first, rep = (n.body, n.orelse) if isinstance(n.test.ops[0], ast.NotIn) else (n.orelse, n.body)
        ft = [util.stmt_key(s) for s in first]
        rt = [util.stmt_key(s) for s in rep]
        if 'self.sp_inds.push_back(%s[%s])' % (sd, name) in ft:
            cand = (n, name, ft, rt, src(n.test.comparators[0]))
    if cand is None:
        return False, 'first-occurrence/repeat split on a seen-dictionary not found'
    n, name, ft, rt, seen = cand
    problems = []
    if 'self.sp_counts.push_back(1)' not in ft:
        problems.append('first occurrence does not push count 1')
    # remembered position: seen[name] = counter ; counter += 1
    rem = [t for t in ft if t.startswith('%s[%s] = ' % (seen, name))]
    if len(rem) != 1:
        problems.append('position of a new species is not remembered exactly once')
    else:
        counter = rem[0].split(' = ')[1]
        if '%s += 1' % counter not in ft:
            problems.append('position counter %s not advanced' % counter)
    # repeat: X = seen[name]; self.sp_counts[X] += 1
    inc = [t for t in rt if t.startswith('self.sp_counts[') and t.endswith('] += 1')]
    if len(inc) != 1 or len(rt) > 2:
        problems.append('repeat branch does not increment exactly one count')
    else:
        idx = inc[0][len('self.sp_counts['):-len('] += 1')]
        if idx != '%s[%s]' % (seen, name) and '%s = %s[%s]' % (idx, seen, name) not in rt:
            problems.append('repeat branch increments the count at %s, not at the remembered position' % idx)
    if not any(t.replace(' ', '') in ('self.num_species=int(sum(self.sp_counts))', 'self.num_species=sum(self.sp_counts)')
               for t in txt):
        problems.append('num_species is not the sum of the counts')
    # the loop over names must iterate the '*' split
    if not any("split('*')" in t for t in txt):
        problems.append("names are not the '*'-separated fields")
    return (not problems), '; '.join(problems) or 'multiset construction recognised'


# ----------------------------------------------------------------------------- R1.1 formulas
def spec_forms(cls, roles):
    """mode -> list of scenarios (name, cond_subs, value_subs, expected term)."""
    def P(key):
        return PARAMS(attr(roles[key]))

    def S(key):
        return STATE(attr(roles[key]))
    out = {}
    if cls == 'ConstitutivePropensity':
        k = P('k')
        out = {'get_propensity': k, 'get_volume_propensity': k * V, 'get_stochastic_propensity': k,
               'get_stochastic_volume_propensity': k * V}
        return {m: [('any', {}, {}, e)] for m, e in out.items()}
    if cls == 'UnimolecularPropensity':
        e = P('k') * S('species')
        return {m: [('any', {}, {}, e)] for m in MODES}
    if cls == 'BimolecularPropensity':
        k, a, b = P('k'), S('s1'), S('s2')
        i1, i2 = attr(roles['s1']), attr(roles['s2'])
        distinct = {i1: sp.Integer(1), i2: sp.Integer(2)}
        same_c = {i1: sp.Integer(1), i2: sp.Integer(1)}
        same_v = {i2: i1}
        return {
            'get_propensity': [('A+B', distinct, {}, k * a * b), ('2A', same_c, same_v, k * a ** 2)],
            'get_volume_propensity': [('A+B', distinct, {}, k * a * b / V), ('2A', same_c, same_v, k * a ** 2 / V)],
            'get_stochastic_propensity': [('A+B', distinct, {}, k * a * b), ('2A', same_c, same_v, k * a * sp.Max(a - 1, 0))],
            'get_stochastic_volume_propensity': [('A+B', distinct, {}, k * a * b / V),
                                                 ('2A', same_c, same_v, k * a * sp.Max(a - 1, 0) / V)],
        }
    if cls in ('PositiveHillPropensity', 'NegativeHillPropensity', 'PositiveProportionalHillPropensity',
               'NegativeProportionalHillPropensity'):
        k, K, n, s = P('k'), P('K'), P('n'), S('s1')

        def hill(x):
            if cls.startswith('Positive'):
                e = k * (x / K) ** n / (1 + (x / K) ** n)
            else:
                e = k / (1 + (x / K) ** n)
            if 'Proportional' in cls:
                e = e * S('d')
            return e
        return {'get_propensity': [('any', {}, {}, hill(s))], 'get_stochastic_propensity': [('any', {}, {}, hill(s))],
                'get_volume_propensity': [('any', {}, {}, hill(s / V))],
                'get_stochastic_volume_propensity': [('any', {}, {}, hill(s / V))]}
    raise AnalysisError('no specification for class %s' % cls)


GRID = (0.0, 0.5, 1.0, 1.5, 2.0, 2.5, 4.0)


def equal_on_state_grid(got, exp):
    """Stochastic forms clamp factors at 0, so two terms can agree on integers and differ on real states: compare them on a grid of small
    integer *and* half-integer values of every state entry (positive rationals for everything else).  -> (ok, witness)"""
    import itertools as _it
    import math as _math
    got, exp = sp.sympify(got), sp.sympify(exp)
    if got == exp:
        return True, None
    atoms = sorted(set(symx._atoms_outermost(got)) | set(symx._atoms_outermost(exp)), key=sp.default_sort_key)
    st = [a for a in atoms if a.func == STATE]
    other = [a for a in atoms if a.func != STATE]
    syms = sorted((got.free_symbols | exp.free_symbols), key=lambda x: x.name)
    if len(st) > 3:
        raise AnalysisError('too many state entries for the grid comparison: %s' % st)
    dummies = [sp.Dummy('x%d' % i) for i in range(len(st) + len(other))]
    rep = dict(zip(st + other, dummies))
    fg = sp.lambdify(dummies + syms, got.xreplace(rep), modules=[{'Max': max, 'Min': min}, 'math'])
    fe = sp.lambdify(dummies + syms, exp.xreplace(rep), modules=[{'Max': max, 'Min': min}, 'math'])
    fixed = [1.7 + 0.9 * i for i in range(len(other))] + [1.3 + 0.7 * i for i in range(len(syms))]
    for vals in _it.product(GRID, repeat=len(st)):
        args = list(vals) + fixed
        try:
            a, b = fg(*args), fe(*args)
        except (ZeroDivisionError, ValueError, OverflowError):
            continue
        if not _math.isclose(a, b, rel_tol=1e-9, abs_tol=1e-12):
            return False, {'point': {str(k_): v_ for k_, v_ in zip(st, vals)}, 'lhs': a, 'rhs': b}
    return True, None


def erase_max0(e):
    """Max(x, 0) -> x   (lemma on non-negative integer states, see ASSUMPTIONS)."""
    def f(*args):
        args = list(args)
        if len(args) == 2 and sp.Integer(0) in args:
            args.remove(sp.Integer(0))
            return args[0]
        return sp.Max(*args)
    return e.replace(sp.Max, f)


def instantiate(e, table):
    """Expand Sum/Product nodes whose limits become concrete under `table` (top-down)."""
    e = e.xreplace(table)
    if isinstance(e, (sp.Product, sp.Sum)):
        body = e.function
        lims = e.limits
        (var, lo, hi) = lims[-1]
        lo, hi = instantiate(sp.sympify(lo), table), instantiate(sp.sympify(hi), table)
        if not (lo.is_Integer and hi.is_Integer):
            raise AnalysisError('loop bounds not determined by the multiset: %s..%s' % (lo, hi))
        inner = type(e)(body, *lims[:-1]) if len(lims) > 1 else body
        acc = sp.Integer(1) if isinstance(e, sp.Product) else sp.Integer(0)
        for v in range(int(lo), int(hi) + 1):
            term = instantiate(inner.xreplace({var: sp.Integer(v)}), table)
            acc = acc * term if isinstance(e, sp.Product) else acc + term
        return acc
    if e.func == symx.ITER:
        v = symx.expand_iter(e, lambda x: instantiate(x, table))
        if v is None:
            raise AnalysisError('loop bounds not determined by the multiset: %s..%s' % (e.args[4], e.args[5]))
        return v
    if e.args:
        new = [instantiate(a, table) for a in e.args]
        if any(x is not y for x, y in zip(new, e.args)):
            try:
                return e.func(*new)
            except Exception:
                return e
    return e


def extract(ctx, cls, mode):
    prog = ctx.prog
    dc, f = prog.resolve_method(cls, mode)
    if f is None:
        raise AnalysisError('anchor vanished: %s.%s' % (cls, mode))
    ctx.functions.add('types:%s.%s' % (dc, mode))
    se = symx.SymExec(prog, cls, boundary=True)
    env = {'volume': V, 'time': symx.possym('time')}
    for a in f.args.args[1:]:
        env.setdefault(a.arg, sp.Symbol(a.arg, real=True))
    # canonical argument names: state, params, volume, time by position
    names = [a.arg for a in f.args.args[1:]]
    canon = ['state', 'params', 'volume', 'time'] if 'volume' in mode else ['state', 'params', 'time']
    if len(names) != len(canon):
        raise AnalysisError('%s.%s signature changed' % (cls, mode))
    ren = dict(zip(names, canon))

    def leaf(n, env_, se_):
        if isinstance(n, ast.Subscript) and isinstance(n.value, ast.Name) and n.value.id in ('state', 'params') \
                and n.value.id not in env_:
            fn = STATE if n.value.id == 'state' else PARAMS
            return fn(se_.ex(n.slice, env_))
        return None
    se.leaf = leaf
    if any(k != v for k, v in ren.items()):
        # rename parameters to canonical names by rewriting Name nodes on a copy
        import copy
        f = copy.deepcopy(f)
        for n in ast.walk(f):
            if isinstance(n, ast.Name) and n.id in ren:
                n.id = ren[n.id]
            elif isinstance(n, ast.arg) and n.arg in ren:
                n.arg = ren[n.arg]
    env = {'volume': V, 'time': symx.possym('time')}
    cases = se.run(f, env)
    return dc, f, symx.split_piecewise(cases)


def select_case(cases, cond_subs):
    """The case whose path condition holds under the scenario (conditions only mention index attrs)."""
    hits = []
    for c in cases:
        ok = True
        for cond, truth in c.conds:
            v = cond.xreplace(cond_subs) if isinstance(cond, sp.Basic) else cond
            v = sp.simplify(v) if isinstance(v, sp.Basic) else v
            if v == sp.true:
                val = True
            elif v == sp.false:
                val = False
            else:
                raise AnalysisError('path condition %s is not decided by the reactant multiset' % cond)
            if val != truth:
                ok = False
                break
        if ok:
            hits.append(c)
    if len(hits) != 1:
        raise AnalysisError('expected exactly one feasible case, found %d' % len(hits))
    return hits[0]


MEMO_ATTRS = set()      # attributes of a complete memo in the method under analysis (set by check_formulas): the memo is transparent,
                        # the path that recomputes is the one compared


def feasible_cases(cases, subs):
    """Cases whose path condition can hold under `subs` -> [(case, extra substitution)].  Conditions on index attributes are decided by
    the scenario; a test of a parameter or state value against a constant (`if n == 1.0`) splits the domain: on its true side the
    value is substituted, on its false side nothing is assumed."""
    out = []
    for c in cases:
        extra = {}
        feasible = True
        for cond, truth in c.conds:
            v = cond.xreplace(subs) if isinstance(cond, sp.Basic) else cond
            v = sp.simplify(v) if isinstance(v, sp.Basic) else v
            if v == sp.true or v == sp.false:
                if (v == sp.true) != truth:
                    feasible = False
                    break
                continue
            if isinstance(v, sp.Basic) and MEMO_ATTRS and any(str(a) in MEMO_ATTRS for a in v.free_symbols):
                if not truth:
                    feasible = False        # the cached value equals the recomputed one (complete key): only the recomputing path is compared
                    break
                continue
            if isinstance(v, (sp.Eq, sp.Ne)):
                equal_side = truth if isinstance(v, sp.Eq) else (not truth)
                if equal_side:
                    a, b = v.lhs, v.rhs
                    if b.is_number and not a.is_number:
                        extra[a] = b
                    elif a.is_number and not b.is_number:
                        extra[b] = a
                    else:
                        raise AnalysisError('path condition %s cannot be turned into a substitution' % cond)
                continue
            raise AnalysisError('path condition %s is not decided by the reactant multiset' % cond)
        if feasible:
            out.append((c, extra))
    if not out:
        raise AnalysisError('no feasible case')
    return out


def check_formulas(ctx, cls, roles):
    specs = spec_forms(cls, roles)
    def closure_stores(meth, depth=3, seen=None):
        seen = seen if seen is not None else set()
        if meth in seen or depth < 0:
            return None
        seen.add(meth)
        dcx, fx = ctx.prog.resolve_method(cls, meth)
        if fx is None:
            return None
        st = util.hidden_state_stores(fx)
        if st:
            return (dcx, meth, st)
        for c_ in ast.walk(fx):
            if isinstance(c_, ast.Call) and isinstance(c_.func, ast.Attribute) and src(c_.func.value) == 'self':
                r_ = closure_stores(c_.func.attr, depth - 1, seen)
                if r_:
                    return r_
        return None
    for mode in MODES:
        dc0, f0 = ctx.prog.resolve_method(cls, mode)
        MEMO_ATTRS.clear()
        for m_ in list(MODES):
            dcm, fm = ctx.prog.resolve_method(cls, m_)
            if fm is not None:
                for st_ in util.self_stores(fm):
                    for t_ in (st_.targets if isinstance(st_, ast.Assign) else [getattr(st_, 'target', None)]):
                        if t_ is not None:
                            MEMO_ATTRS.add(src(t_))
        impure = closure_stores(mode)
        hidden = impure[2] if impure else []
        if hidden:
            dc0, mode_h = impure[0], impure[1]
            # the method keeps something between calls: its value is not a function of (state, parameters, volume, time) alone
            for (scn, csub, vsub, expected) in specs[mode]:
                ctx.ob('R1.1-formula', '%s/%s/%s' % (cls, MODE_NAME[mode], scn), False, ctx.loc('types', f0),
                       '%s rate of %s (%s) must equal %s' % (MODE_NAME[mode], cls, scn, expected),
                       '%s.%s stores into the object while evaluating (`%s`): the rate depends on earlier calls, not only on its arguments'
                       % (dc0, mode_h, util.stmt_key(hidden[0])[:70]))
            continue
        dc, f, cases = extract(ctx, cls, mode)
        where = ctx.loc('types', f)
        for (scn, csub, vsub, expected) in specs[mode]:
            cmpf = equal_on_state_grid if 'stochastic' in mode else symx.equal
            ok, detail = True, ''
            exp = expected.xreplace(vsub)
            for c, extra in feasible_cases(cases, csub):
                got = c.value.xreplace(vsub).xreplace(extra)
                ex_ = exp.xreplace(extra)
                ok, wit = cmpf(got, ex_)
                detail = 'body executed%s: %s.%s returns %s%s' % (
                    (' under ' + ', '.join('%s = %s' % kv for kv in extra.items())) if extra else '', dc, mode, got, '; witness %s' % wit if wit else '')
                if not ok:
                    if extra:
                        detail += '; the closed form gives %s there' % ex_
                    break
            # boundary of the state domain: states are non-negative, the symbols above are positive.  A branch taken only at
            # state == 0 (`if X <= 0: return ...`) is compared with the closed form at 0, one state entry at a time.
            if ok and not csub and not vsub and any(c2.conds for c2 in cases):
                atoms = sorted({a for c2 in cases for a in (c2.value.atoms(sp.Function) | set().union(*[cd.atoms(sp.Function) for cd, _ in c2.conds
                                if isinstance(cd, sp.Basic)] or [set()])) if a.func == STATE}, key=str)
                for a in atoms:
                    z = {a: sp.Integer(0)}
                    for cb, extra in feasible_cases(cases, z):
                        gb, eb = cb.value.xreplace(z).xreplace(extra), expected.xreplace(z).xreplace(extra)
                        okb, witb = cmpf(gb, eb)
                        if not okb:
                            ok = False
                            detail = 'at %s = 0 the body returns %s, the closed form gives %s%s' % (a, gb, eb, '; witness %s' % witb if witb else '')
                            break
                    if not ok:
                        break
            ctx.ob('R1.1-formula', '%s/%s/%s' % (cls, MODE_NAME[mode], scn), ok, where,
                   '%s rate of %s (%s) must equal %s' % (MODE_NAME[mode], cls, scn, exp), detail)


def multisets(max_order=4, max_n=3):
    out = [()]
    for n in range(1, max_n + 1):
        for cs in itertools.product(range(1, max_order + 1), repeat=n):
            if sum(cs) <= max_order:
                out.append(cs)
    return out


def check_massaction(ctx):
    cls = 'MassActionPropensity'
    table, _, finit = binding(ctx, cls)
    kb = table.get('k', ([], None, None))[0]
    if len(kb) != 1:
        return
    k = PARAMS(attr(kb[0][0]))
    inds = symx.posfun('self.sp_inds')
    counts = symx.posfun('self.sp_counts')
    length = sp.Function('len', integer=True, nonnegative=True)(attr('sp_inds'))
    for mode in MODES:
        dc, f, cases = extract(ctx, cls, mode)
        where = ctx.loc('types', f)
        if len(cases) != 1 or cases[0].conds:
            raise AnalysisError('MassActionPropensity.%s: unexpected case split' % mode)
        term = cases[0].value
        bad = None
        n_ok = 0
        for cs in multisets():
            tab = {length: sp.Integer(len(cs)), attr('num_species'): sp.Integer(sum(cs))}
            for i, c in enumerate(cs):
                tab[counts(sp.Integer(i))] = sp.Integer(c)
            # also size() idiom
            tab[sp.Function('self.sp_inds.size')()] = sp.Integer(len(cs))
            got = instantiate(term, tab)
            s = [STATE(inds(sp.Integer(i))) for i in range(len(cs))]
            order = sum(cs)
            if 'stochastic' in mode:
                e = k
                for si, c in zip(s, cs):
                    for j in range(c):
                        e = e * (sp.Max(si - j, 0) if j else si)
            else:
                e = k
                for si, c in zip(s, cs):
                    e = e * si ** c
            if 'volume' in mode:
                e = e / V ** (order - 1)
            ok, wit = equal_on_state_grid(got, e) if 'stochastic' in mode else symx.equal(got, e)
            if not ok:
                bad = (cs, got, e, wit)
                break
            n_ok += 1
        ctx.ob('R1.1-formula', '%s/%s/multisets' % (cls, MODE_NAME[mode]), bad is None, where,
               '%s rate of MassActionPropensity must equal the documented form for every reactant multiset of order <= 4 '
               '(%d multisets instantiated)' % (MODE_NAME[mode], len(multisets())),
               'extracted term %s' % term if bad is None else
               'multiplicities %s: code gives %s, documented form %s; witness %s (extracted term %s)'
               % (bad[0], bad[1], bad[2], bad[3], term))


# ----------------------------------------------------------------------------- R1.3 dispatch
TYPE_CLASS = {'hillpositive': 'PositiveHillPropensity', 'proportionalhillpositive': 'PositiveProportionalHillPropensity',
              'hillnegative': 'NegativeHillPropensity', 'proportionalhillnegative': 'NegativeProportionalHillPropensity',
              'general': 'GeneralPropensity'}
MA_CLASS = {0: 'ConstitutivePropensity', 1: 'UnimolecularPropensity', 2: 'BimolecularPropensity',
            3: 'MassActionPropensity', 4: 'MassActionPropensity'}


def _instantiated(body):
    out = []
    for n in ast.walk(ast.Module(body=body, type_ignores=[])):
        if isinstance(n, ast.Assign) and isinstance(n.value, ast.Call) and isinstance(n.value.func, ast.Name) \
                and n.value.func.id.endswith('Propensity') and not n.value.args:
            out.append(n.value.func.id)
    return out


def _eval_count_guard(test, n, names_var):
    """Evaluate a guard of the mass-action branch for a reactant list with n names."""
    if isinstance(test, ast.Compare) and len(test.ops) == 1:
        l, r = test.left, test.comparators[0]
        if isinstance(l, ast.Call) and src(l.func) == 'len' and isinstance(r, ast.Constant):
            op = type(test.ops[0])
            fn = {ast.Eq: lambda a, b: a == b, ast.NotEq: lambda a, b: a != b, ast.Lt: lambda a, b: a < b,
                  ast.LtE: lambda a, b: a <= b, ast.Gt: lambda a, b: a > b, ast.GtE: lambda a, b: a >= b}.get(op)
            if fn is not None:
                return fn(n, r.value)
        if isinstance(test.ops[0], (ast.In, ast.NotIn)) and isinstance(r, (ast.List, ast.Tuple)):
            vals = [e.value for e in r.elts if isinstance(e, ast.Constant)]
            if '' in vals or None in vals:
                return (n == 0) == isinstance(test.ops[0], ast.In)    # the empty / None species string
    if isinstance(test, ast.UnaryOp) and isinstance(test.op, ast.Not):
        return not _eval_count_guard(test.operand, n, names_var)
    raise AnalysisError('mass-action dispatch guard not understood: %s' % src(test))


def _dispatch_ma(body, n):
    for s in body:
        if isinstance(s, ast.If):
            for test, b in util.if_chain(s):
                if test is None or _eval_count_guard(test, n, None):
                    inst = [x for x in _instantiated([x for x in b if not isinstance(x, ast.If)])]
                    if inst:
                        return inst[0]
                    return _dispatch_ma(b, n)
            return None
    inst = _instantiated(body)
    return inst[0] if inst else None


def check_dispatch(ctx):
    f = ctx.fn('types:Model.create_propensity')
    where = ctx.loc('types', f)
    var = f.args.args[1].arg
    disp = util.string_dispatch(f.body, var)
    if disp is None:
        raise AnalysisError('create_propensity: type dispatch chain not found')
    table, other, node = disp
    for t, cls in TYPE_CLASS.items():
        body = table.get(t)
        inst = _instantiated(body) if body else []
        ctx.ob('R1.3-dispatch', t, inst == [cls], where, "propensity type '%s' must create %s" % (t, cls),
               'creates %s' % inst)
    body = table.get('massaction')
    for n, cls in MA_CLASS.items():
        got = _dispatch_ma(body, n) if body else None
        ctx.ob('R1.3-dispatch', 'massaction/%d-reactants' % n, got == cls, where,
               "'massaction' with %d reactant names must create %s" % (n, cls), 'creates %s' % got)
    raises = other is not None and any(isinstance(s, ast.Raise) for s in other)
    ctx.ob('R1.3-dispatch', 'unknown-type-raises', raises, where, 'an unknown propensity type must raise', '')
    # names: '*'-separated, empty fields dropped
    ok = False
    if body:
        for n in ast.walk(ast.Module(body=body, type_ignores=[])):
            if isinstance(n, ast.ListComp) and "split('*')" in src(n) and 'strip()' in src(n) and n.generators[0].ifs:
                ok = True
    ctx.ob('R1.3-dispatch', 'massaction/name-count', ok, where,
           "reactant count = number of non-empty '*'-separated names", '')


def check_numeric_literals(ctx):
    """A rate constant, K or n given as a number is bound to a dummy parameter created for it in that call and holding exactly that
    number: on every path of Model._param_dict_check that stores into the dictionary, the name stored is the one handed to _add_param
    and to set_parameter(name, float(dic[key])) on the same path."""
    f = ctx.fn('types:Model._param_dict_check')
    a = [x.arg for x in f.args.args[1:]]
    dic, key = a[0], a[1]
    ps = paths.Enumerator().run(f.body, paths.State())
    ctx.paths += len(ps)
    problems = []
    n_store = 0
    for p in ps:
        if p.exit == 'raise':
            continue
        stores = [e.node for e in p.stmts() if isinstance(e.node, ast.Assign) and isinstance(e.node.targets[0], ast.Subscript)
                  and src(e.node.targets[0]).replace(' ', '') == '%s[%s]' % (dic, key)]
        if not stores:
            continue
        n_store += 1
        nm = src(stores[-1].value)
        added = [c for e in p.stmts() for c in paths.stmt_calls(e.node, '_add_param') if c.args and src(c.args[0]) == nm]
        setp = [c for e in p.stmts() for c in paths.stmt_calls(e.node, 'set_parameter') if len(c.args) == 2 and src(c.args[0]) == nm]
        vals = {src(e.node.targets[0]): src(e.node.value).replace(' ', '') for e in p.stmts() if isinstance(e.node, ast.Assign) and isinstance(e.node.targets[0], ast.Name)}
        if not added or not setp:
            problems.append('a path binds the numeric %s to the parameter `%s`, which was not created for it on that path [%s]' % (key, nm, paths.describe(p, 5)))
        elif vals.get(src(setp[-1].args[1])) != 'float(%s[%s])' % (dic, key):
            problems.append('the dummy parameter is set to %s, not to the number given' % src(setp[-1].args[1]))
    if n_store == 0:
        raise AnalysisError('_param_dict_check: no path stores a dummy parameter name')
    ctx.ob('R1.2-binding', 'numeric-literals', not problems, ctx.loc('types', f),
           'a numeric rate parameter gets a dummy parameter of its own, created in that call and holding that number (%d storing paths)' % n_store,
           '; '.join(sorted(set(problems))[:2]))


def check_arguments_untouched(ctx):
    """Which propensity class a reaction gets, and from which keys it is initialised, is decided from the dictionary the caller hands
    to create_reaction.  The method may complete that dictionary (the default 'species' string of mass action) only in its own copy:
    a key written into the caller's object would be found there by the next reaction declared with the same dictionary."""
    f = ctx.fn('types:Model.create_reaction')
    where = ctx.loc('types', f)
    problems = []
    for a in f.args.args[1:]:
        nm = a.arg
        if 'dict' not in nm:
            continue
        copies = [n.lineno for n in ast.walk(f) if isinstance(n, ast.Assign) and len(n.targets) == 1 and isinstance(n.targets[0], ast.Name)
                  and n.targets[0].id == nm and isinstance(n.value, ast.Call) and
                  ((src(n.value.func) == 'dict' and [src(x) for x in n.value.args] == [nm]) or src(n.value.func) in ('%s.copy' % nm, 'copy.copy', 'copy.deepcopy'))]
        first_copy = min(copies) if copies else None
        for n in ast.walk(f):
            w = None
            if isinstance(n, (ast.Assign, ast.AugAssign)):
                for t in (n.targets if isinstance(n, ast.Assign) else [n.target]):
                    if isinstance(t, ast.Subscript) and isinstance(t.value, ast.Name) and t.value.id == nm:
                        w = util.stmt_key(n)[:60]
            if isinstance(n, ast.Delete):
                for t in n.targets:
                    if isinstance(t, ast.Subscript) and isinstance(t.value, ast.Name) and t.value.id == nm:
                        w = 'del %s' % src(t)
            if isinstance(n, ast.Call) and isinstance(n.func, ast.Attribute) and isinstance(n.func.value, ast.Name) and n.func.value.id == nm \
                    and n.func.attr in ('setdefault', 'update', 'pop', 'popitem', 'clear', '__setitem__'):
                w = src(n)[:60]
            if w is not None and (first_copy is None or n.lineno < first_copy):
                problems.append("`%s` writes into the caller's %s (line %d)%s" % (w, nm, n.lineno,
                                '' if first_copy is None else ', before the copy at line %d' % first_copy))
    ctx.ob('R1.3-dispatch', 'arguments-untouched', not problems, where,
           'create_reaction completes the parameter dictionaries only in its own copies, never in the objects the caller handed in',
           '; '.join(sorted(set(problems))[:3]))


# ----------------------------------------------------------------------------- R1.4 interface loops
IFACE_SLOTS = {'compute_propensities': ('get_propensity', False),
               'compute_volume_propensities': ('get_volume_propensity', True),
               'compute_stochastic_propensities': ('get_stochastic_propensity', False),
               'compute_stochastic_volume_propensities': ('get_stochastic_volume_propensity', True)}


def check_iface_loop(ctx, cls, slot, module='simulator', prop_vec='self.c_propensities', key_prefix=''):
    want, with_vol = IFACE_SLOTS[slot]
    dc, f = ctx.prog.resolve_method(cls, slot)
    if f is None:
        raise AnalysisError('anchor vanished: %s.%s' % (cls, slot))
    ctx.functions.add('%s:%s.%s' % (module, dc, slot))
    where = ctx.loc(ctx.prog.classes[dc].module, f)
    args = [a.arg for a in f.args.args[1:]]
    state, dest = args[0], args[1]
    vol = args[2] if with_vol else None
    time = args[-1]
    problems = []
    calls = [c for c in ast.walk(f) if isinstance(c, ast.Call) and isinstance(c.func, ast.Attribute)
             and c.func.attr in IFACE_SLOTS_VALUES]
    ctx.call_sites += len(calls)
    if dc in ('CSimInterface',):
        problems.append('receiver %s executes the base-class default (no per-reaction evaluation)' % cls)
    loops = [l for l in util.find_loops(f) if isinstance(l, ast.For) and src(l.iter) == 'range(self.num_reactions)']
    if len(loops) != 1:
        problems.append('expected one loop over range(self.num_reactions), found %d' % len(loops))
    elif len(calls) != 1:
        problems.append('expected exactly one propensity-slot call, found %s' % [c.func.attr for c in calls])
    else:
        lp, c = loops[0], calls[0]
        tv = src(lp.target)
        if c.func.attr != want:
            problems.append('calls %s, the %s mode needs %s' % (c.func.attr, slot, want))
        recv = util.strip_cast(c.func.value)
        if src(recv) != '%s[0][%s]' % (prop_vec, tv):
            problems.append('receiver is %s, not reaction %s of %s' % (src(recv), tv, prop_vec))
        exp_args = [state, 'self.c_param_values'] + ([vol] if with_vol else []) + [time]
        got_args = [src(a) for a in c.args]
        if got_args != exp_args:
            problems.append('arguments %s, expected %s' % (got_args, exp_args))
        # stored into dest[tv]
        st = c
        while not isinstance(st, ast.stmt):
            st = st._parent
        direct = isinstance(st, ast.Assign) and src(st.targets[0]) == '%s[%s]' % (dest, tv) and util.strip_cast(st.value) is c
        if not direct and isinstance(st, ast.Assign) and len(st.targets) == 1 and isinstance(st.targets[0], ast.Name) and util.strip_cast(st.value) is c:
            # through a temporary that is written nowhere else: `t = propensity...; dest[r] = t`
            tmp = st.targets[0].id
            block = getattr(st._parent, 'body', [])
            if util.single_defs(f).get(tmp) is not None and st in block:
                rest = block[block.index(st) + 1:]
                direct = bool(rest) and isinstance(rest[0], ast.Assign) and src(rest[0].targets[0]) == '%s[%s]' % (dest, tv) \
                    and isinstance(util.strip_cast(rest[0].value), ast.Name) and util.strip_cast(rest[0].value).id == tmp
        if not direct:
            problems.append('value not stored into %s[%s]: %s' % (dest, tv, util.stmt_key(st)))
        # call inside the loop
        inside = any(x is c for x in ast.walk(lp))
        if not inside:
            problems.append('slot call is outside the reaction loop')
        # no break/continue/return in the loop
        for x in ast.walk(lp):
            if isinstance(x, (ast.Break, ast.Return)):
                problems.append('reaction loop can exit early')
    # deterministic modes work on real-valued concentrations: the closed form holds for every positive state, so a rate may be forced
    # to 0 only under a condition that includes `state[...] <= 0` (an integer copy-number requirement has no place here)
    if slot in ('compute_propensities', 'compute_volume_propensities'):
        for n_ in ast.walk(f):
            if isinstance(n_, ast.Assign) and src(n_.targets[0]).startswith(dest + '[') and util.const_num(n_.value) == 0:
                g = util.guards_of(n_, f)
                gg = [x.replace(' ', '') for x in g]
                clamp = any(x.startswith(dest + '[') and x.endswith(']<0') for x in gg)     # a negative value clamped to 0: never the case for the closed forms
                if not clamp and not any(x.startswith(state + '[') and (x.endswith(']<=0') or x.endswith(']<0')) for x in gg):
                    problems.append('the deterministic rate is set to 0 under %s, which can hold at a positive concentration' % (sorted(g) or 'no condition'))
    ctx.ob('R1.4-iface-loop', '%s%s/%s' % (key_prefix, cls, slot), not problems, where,
           'every reaction r: dest[r] = propensity[r].%s(state, params%s, time)' % (want, ', volume' if with_vol else ''),
           '; '.join(problems) or 'executes %s.%s' % (dc, slot))


IFACE_SLOTS_VALUES = set(v[0] for v in IFACE_SLOTS.values())


def check_lineage_loops(ctx):
    """LineageCSimInterface / SafeLineageCSimInterface.compute_lineage_propensities: reactions then lineage events."""
    prog = ctx.prog
    for cls in ('LineageCSimInterface', 'SafeLineageCSimInterface'):
        dc, f = prog.resolve_method(cls, 'compute_lineage_propensities')
        if f is None:
            raise AnalysisError('anchor vanished: %s.compute_lineage_propensities' % cls)
        ctx.functions.add('lineage:%s.compute_lineage_propensities' % dc)
        where = ctx.loc('lineage', f)
        a = [x.arg for x in f.args.args[1:]]
        state, dest, vol, time = a
        loops = [l for l in f.body if isinstance(l, ast.For)]
        want = [('range(self.num_reactions)', 'self.c_propensities', '%s'), ('range(self.num_lineage_propensities)', 'self.c_lineage_propensities', 'self.num_reactions+%s')]
        problems = []
        if [src(l.iter).replace(' ', '') for l in loops] != [w[0] for w in want]:
            problems.append('loops are %s, expected reactions then lineage events' % [src(l.iter) for l in loops])
        else:
            for lp, (_, vec, dpat) in zip(loops, want):
                tv = src(lp.target)
                calls = [c for c in ast.walk(lp) if isinstance(c, ast.Call) and isinstance(c.func, ast.Attribute) and c.func.attr in IFACE_SLOTS_VALUES]
                ctx.call_sites += len(calls)
                if len(calls) != 1 or calls[0].func.attr != 'get_stochastic_volume_propensity':
                    problems.append('loop over %s calls %s' % (vec, [c.func.attr for c in calls]))
                    continue
                c = calls[0]
                recv = src(util.strip_cast(c.func.value)).replace(' ', '')
                if recv != '%s[0][%s]' % (vec, tv):
                    problems.append('receiver %s, expected entry %s of %s' % (recv, tv, vec))
                args = [src(x).replace(' ', '') for x in c.args]
                if args not in ([state, 'self.c_param_values', vol, time], ['__addr__(%s[0])' % state, 'self.c_param_values', vol, time]):
                    problems.append('arguments %s' % args)
                st = c
                while not isinstance(st, ast.stmt):
                    st = st._parent
                tgt = None
                if isinstance(st, ast.Assign) and isinstance(st.targets[0], ast.Subscript) and src(st.targets[0].value) == dest:
                    tgt = util.canon_expr(st.targets[0].slice)
                want_idx = util.canon_expr(ast.parse(dpat % tv, mode='eval').body)
                if tgt != want_idx:
                    problems.append('stored into %s[%s], expected %s[%s]' % (dest, tgt, dest, dpat % tv))
                if any(isinstance(x, (ast.Break, ast.Return)) for x in ast.walk(lp)):
                    problems.append('loop over %s can exit early' % vec)
        ctx.ob('R1.4-iface-loop', 'lineage/%s/compute_lineage_propensities' % cls, not problems, where,
               'every reaction r and every lineage event e: dest[r] / dest[num_reactions+e] = its stochastic volume propensity at (state, params, volume, time)',
               '; '.join(problems))


UNSIGNED_TYPES = ('unsigned', 'unsigned int', 'unsigned long', 'unsigned long long', 'size_t', 'unsigned short', 'unsigned char', 'Py_ssize_t_unsigned')
INT_TYPES = UNSIGNED_TYPES + ('int', 'long', 'long long', 'short', 'Py_ssize_t', 'ssize_t')


def _ctype(prog, cls, f, n):
    """declared C type of an operand of the lowered tree, or None when it is not declared (a Python object / unknown)"""
    n0 = n
    if isinstance(n, ast.Call) and isinstance(n.func, ast.Name) and n.func.id == '__cast__' and len(n.args) == 2 and isinstance(n.args[0], ast.Constant):
        return str(n.args[0].value)
    if isinstance(n, ast.Constant) and isinstance(n.value, int) and not isinstance(n.value, bool):
        return 'int'
    if isinstance(n, ast.Constant) and isinstance(n.value, float):
        return 'double'
    if isinstance(n, ast.Attribute) and isinstance(n.value, ast.Name) and n.value.id == 'self':
        return prog.all_attrs(cls).get(n.attr)
    if isinstance(n, ast.Name):
        for a in f.args.args:
            if a.arg == n.id and isinstance(a.annotation, ast.Constant):
                return str(a.annotation.value)
        for x in ast.walk(f):
            if isinstance(x, ast.AnnAssign) and isinstance(x.target, ast.Name) and x.target.id == n.id and isinstance(x.annotation, ast.Constant):
                return str(x.annotation.value)
        return None
    if isinstance(n, ast.Subscript):
        t = _ctype(prog, cls, f, n.value)
        if t and t.startswith('vector[') and t.endswith(']'):
            return t[len('vector['):-1]
        if t and t.endswith('*'):
            return t[:-1].strip()
        return None
    if isinstance(n, ast.BinOp):
        l, r = _ctype(prog, cls, f, n.left), _ctype(prog, cls, f, n.right)
        if l == 'double' or r == 'double' or isinstance(n.op, ast.Pow):
            return 'double'
        if l in UNSIGNED_TYPES or r in UNSIGNED_TYPES:
            return 'unsigned'       # usual arithmetic conversions
        if l in INT_TYPES and r in INT_TYPES:
            return 'int'
    return None


def check_c_arithmetic(ctx):
    """The closed forms are compared over the reals; C computes `a - b` in unsigned arithmetic when a is unsigned and b integral, which
    wraps to a huge number whenever a < b (an order-0 reaction: num_species - 1).  No subtraction in a rate-law method has an unsigned
    left operand and an integral right operand."""
    prog = ctx.prog
    n_sub = 0
    for cls in list(KEYS):
        for mode in MODES:
            bad = []
            # the method of this mode and the sibling methods it evaluates through `self.`
            todo, seen = [mode], set()
            while todo:
                m_ = todo.pop()
                if m_ in seen:
                    continue
                seen.add(m_)
                dc, f = prog.resolve_method(cls, m_)
                if f is None:
                    continue
                for n in ast.walk(f):
                    if isinstance(n, ast.Call) and isinstance(n.func, ast.Attribute) and isinstance(n.func.value, ast.Name) and n.func.value.id == 'self' \
                            and n.func.attr in MODES:
                        todo.append(n.func.attr)
                    if isinstance(n, ast.BinOp) and isinstance(n.op, ast.Sub):
                        n_sub += 1
                        lt, rt = _ctype(prog, dc, f, n.left), _ctype(prog, dc, f, n.right)
                        if lt in UNSIGNED_TYPES and rt in INT_TYPES:
                            bad.append('%s.%s: `%s` is computed in unsigned arithmetic (%s - %s): it wraps around when the left operand is smaller'
                                       % (dc, m_, src(n), lt, rt))
            dc0, f0 = prog.resolve_method(cls, mode)
            ctx.ob('R1.1-formula', '%s/%s/c-arithmetic' % (cls, MODE_NAME[mode]), not bad, ctx.loc('types', f0) if f0 is not None else '',
                   'the subtractions of the rate-law method mean what they mean over the reals: none is carried out in unsigned C arithmetic',
                   '; '.join(sorted(set(bad))[:2]))
    ctx.call_sites += n_sub


def reemit(ctx, rule, want_mode, slots):
    """Run all of C01 and re-emit, under `rule`, the obligations another property rests on: the closed forms of one evaluation mode
    (`want_mode` = 'deterministic' | 'stochastic' | 'volume' | 'stochastic+volume'), the key-to-index binding and reactant multiset
    of every class, the type dispatch, and the interface loops that fill the propensity buffer through `slots`."""
    from ..core import SubCtx
    sub = SubCtx(ctx)
    check(sub)
    n = 0
    for r, key, ok, where, what, detail in sub.got:
        take = (r == 'R1.1-formula' and ('/%s/' % want_mode in key or key.endswith('/' + want_mode))) \
            or r in ('R1.2-binding', 'R1.3-dispatch') or \
            (r == 'R1.4-iface-loop' and key.split('/')[-1] in slots)
        if take:
            ctx.ob(rule, '%s/%s' % (r, key), ok, where, what, detail)
            n += 1
    return n


def check(ctx):
    prog = ctx.prog
    prog.mod('types'); prog.mod('types.pxd'); prog.mod('simulator'); prog.mod('simulator.pxd')
    concrete = [c for c in KEYS]
    for c in concrete:
        prog.cls(c)
    # sibling discovery: every subclass of Propensity must be known to this rule (or be General)
    subs = set(prog.subclasses('Propensity'))
    unknown = [c for c in subs if prog.classes[c].module == 'types' and c not in KEYS and c != 'GeneralPropensity']
    if unknown:
        ctx.note('propensity classes without a documented closed form (not checked): %s' % unknown)
    for cls in concrete:
        roles = check_binding(ctx, cls)
        if cls == 'MassActionPropensity':
            check_massaction(ctx)
            continue
        need = {'ConstitutivePropensity': ['k'], 'UnimolecularPropensity': ['k', 'species'],
                'BimolecularPropensity': ['k', 's1', 's2']}.get(cls, list(KEYS[cls]))
        if all(r in roles for r in need):
            check_formulas(ctx, cls, roles)
        else:
            ctx.note('%s: formulas not compared because the binding obligations failed' % cls)
    check_c_arithmetic(ctx)
    check_numeric_literals(ctx)
    # the binding of a propensity object (initialize) happens once, when the reaction is created: MassActionPropensity.initialize appends
    # to its species vectors, so running it again on every model initialisation squares the rate law (C08 R8.3) - re-emitted here
    from ..core import SubCtx as _Sub
    from . import c08 as _c08
    for m_ in ('lineage', 'lineage.pxd'):
        prog.mod(m_)
    sub = _Sub(ctx)
    _c08.check_initialize_once(sub)
    for rule, key, ok, where, what, detail in sub.got:
        ctx.ob('R1.2-binding', 'C08/%s/%s' % (rule, key), ok, where, what, detail)
    check_dispatch(ctx)
    check_arguments_untouched(ctx)
    for cls in ('ModelCSimInterface', 'SafeModelCSimInterface'):
        for slot in IFACE_SLOTS:
            check_iface_loop(ctx, cls, slot)
    prog.mod('lineage'); prog.mod('lineage.pxd')
    check_lineage_loops(ctx)
    ctx.floor('R1.1-formula', 30)
    ctx.floor('R1.2-binding', 20)
    ctx.floor('R1.3-dispatch', 10)
    ctx.floor('R1.4-iface-loop', 8)
