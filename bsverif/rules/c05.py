"""C05 - stochastic simulation samples the chemical master equation (sampler-structure clauses).

R5.1 primitives: exponential_rv(L) = -log(U)/L with one uniform; uniform_rv maps one generator
word into [0,1]; sample_discrete is the inverse-CDF choice (threshold U*Lambda from one uniform,
running sum over data[0..i], result i-1); array_sum sums all `length` entries.
R5.2 loop wiring (all four stochastic simulators): in every iteration path the stochastic
propensities are computed from the current state and time before Lambda; Lambda is the sum of
that buffer over all reactions; the waiting time is drawn with that Lambda, and it is drawn on every path on which Lambda > 0 is
possible (a state is treated as absorbing only when Lambda == 0 exactly); the reaction is drawn
from the same buffer and Lambda with no intervening write; the recording loop precedes the state
update; a state update only happens with current_time equal to the event time sampled in this
iteration.
R5.4 net stoichiometry: the matrix whose column a firing adds is the interface's immediate (+ delayed) array (C06 R6.1) and the
shared arrays are never changed in place (C08 R8.4).
Distributional equality itself is not decided.
"""
import ast

import sympy as sp

from .. import paths, simloop, symx, util
from ..front import AnalysisError, src

EXPLANATION = __doc__
RACE_WHAT = 'one pass of the loop is an event race: the clock goes to the earliest of the sampled reaction, the requested time point, the delay queue and the volume clock, and exactly the event that won is carried out (%d value combinations of one pass in isolation, and %d consecutive passes from the set-up code on, on an unevenly spaced grid with scripted propensities and waiting times)'

ASSUMPTIONS = ['the generator word is uniformly distributed (its quality is not analysed)']


def check_primitives(ctx):
    prog = ctx.prog
    # exponential_rv
    f = ctx.fn('random:exponential_rv')
    se = symx.SymExec(prog, None, fresh_calls=('uniform_rv',))
    L = symx.possym(f.args.args[0].arg)
    cases = se.run(f, {f.args.args[0].arg: L})
    U = sp.Symbol('uniform_rv#1', positive=True)
    ok = len(cases) == 1 and se.fresh_count.get('uniform_rv', 0) == 1
    wit = None
    if ok:
        ok, wit = symx.equal(cases[0].value, -sp.log(U) / L)
    ctx.ob('R5.1-primitive', 'exponential_rv', ok, ctx.loc('random', f),
           'exponential_rv(L) == -log(U)/L for exactly one uniform draw U', 'returns %s %s' % (cases[0].value if cases else None, wit or ''))
    # uniform_rv
    f = ctx.fn('random:uniform_rv')
    rets = [n for n in ast.walk(f) if isinstance(n, ast.Return)]
    problems = []
    if len(rets) != 1:
        problems.append('expected one return')
    else:
        v = rets[0].value
        gens = util.calls_in(v, suffix='genrand64')
        if len(gens) != 1:
            problems.append('expected exactly one generator word, found %d' % len(gens))
        else:
            shift = None
            scale = None
            if isinstance(v, ast.BinOp) and isinstance(v.op, (ast.Mult, ast.Div)):
                a, b = v.left, v.right
                if isinstance(v.op, ast.Mult) and not util.calls_in(a, suffix='genrand64'):
                    a, b = b, a
                if isinstance(a, ast.BinOp) and isinstance(a.op, ast.RShift) and util.const_num(a.right) is not None:
                    shift = util.const_num(a.right)
                elif isinstance(a, ast.Call):
                    shift = 0
                if isinstance(v.op, ast.Div):
                    scale = util.const_num(b)
                elif isinstance(b, ast.BinOp) and isinstance(b.op, ast.Div) and util.const_num(b.left) == 1:
                    scale = util.const_num(b.right)
            if shift is None or scale is None:
                problems.append('not of the form (word >> s) * (1/c)')
            else:
                top = 2 ** (64 - int(shift))
                if not (top - 1 <= scale <= top * (1 + 1e-12)):
                    problems.append('(word >> %d) / %r is not confined to [0, 1]' % (shift, scale))
                if 64 - shift > 53:
                    problems.append('more than 53 bits kept: not exactly representable')
    ctx.ob('R5.1-primitive', 'uniform_rv', not problems, ctx.loc('random', f),
           'uniform_rv maps one generator word linearly into [0, 1]', '; '.join(problems))
    # array_sum
    f = ctx.fn('random:array_sum')
    data, length = f.args.args[0].arg, f.args.args[1].arg
    se = symx.SymExec(prog, None)
    n = sp.Symbol('n', integer=True, positive=True)
    cases = se.run(f, {length: n})
    ok = False
    detail = ''
    if len(cases) == 1:
        val = cases[0].value
        detail = str(val)
        ok = True
        for k in (1, 2, 4):
            got = c01_instantiate(val, {n: sp.Integer(k)})
            exp = sum(symx.posfun(data)(sp.Integer(i)) for i in range(k))
            if sp.simplify(got - exp) != 0:
                ok = False
                detail = 'length %d: returns %s' % (k, got)
    ctx.ob('R5.1-primitive', 'array_sum', ok, ctx.loc('random', f), 'array_sum(data, n) == data[0] + ... + data[n-1]', detail)
    # sample_discrete
    f = ctx.fn('random:sample_discrete')
    check_sample_discrete(ctx, f)


def c01_instantiate(e, tab):
    from .c01 import instantiate
    return instantiate(e, tab)


def check_sample_discrete(ctx, f):
    where = ctx.loc('random', f)
    a = [x.arg for x in f.args.args]
    if len(a) != 3:
        raise AnalysisError('sample_discrete signature changed')
    choices, data, lam = a
    problems = []
    whiles = [s for s in f.body if isinstance(s, ast.While)]
    if len(whiles) != 1:
        raise AnalysisError('sample_discrete: expected one while loop (inverse-CDF scan), found %d' % len(whiles))
    wh = whiles[0]
    pre = f.body[:f.body.index(wh)]
    post = f.body[f.body.index(wh) + 1:]
    init = {}
    se = symx.SymExec(ctx.prog, None, fresh_calls=('uniform_rv',))
    env = {lam: symx.possym('Lambda')}
    for s in pre:
        if isinstance(s, (ast.AnnAssign, ast.Assign)) and getattr(s, 'value', None) is not None:
            t = s.target if isinstance(s, ast.AnnAssign) else s.targets[0]
            env[t.id] = se.ex(s.value, env)
            init[t.id] = env[t.id]
    if se.fresh_count.get('uniform_rv', 0) != 1:
        problems.append('threshold uses %d uniform draws, expected 1' % se.fresh_count.get('uniform_rv', 0))
    U = sp.Symbol('uniform_rv#1', positive=True)
    # loop test: acc </<= q  and  i < choices
    t = wh.test
    conj = t.values if isinstance(t, ast.BoolOp) and isinstance(t.op, ast.And) else [t]
    acc = idx = thr = None
    for c in conj:
        if not (isinstance(c, ast.Compare) and len(c.ops) == 1 and isinstance(c.left, ast.Name) and isinstance(c.comparators[0], ast.Name)):
            problems.append('loop condition %s not understood' % src(c))
            continue
        l, r, op = c.left.id, c.comparators[0].id, type(c.ops[0])
        if r == choices:
            idx = l
            if op is not ast.Lt:
                problems.append('index bound is `%s`: reads beyond the %s weights' % (src(c), choices))
        else:
            acc, thr = l, r
            if op not in (ast.Lt, ast.LtE):
                problems.append('scan continues while %s' % src(c))
    if len(conj) != 2 or acc is None or idx is None:
        problems.append('scan condition must bound both the running sum and the index: %s' % src(t))
    else:
        if init.get(thr) is None or sp.simplify(init[thr] - U * env[lam]) != 0:
            problems.append('threshold %s = %s, expected U*%s' % (thr, init.get(thr), lam))
        if init.get(acc) != 0:
            problems.append('running sum starts at %s' % init.get(acc))
        if init.get(idx) != 0:
            problems.append('index starts at %s' % init.get(idx))
        body = [util.stmt_key(s) for s in wh.body]
        want = ['%s += %s[%s]' % (acc, data, idx), '%s += 1' % idx]
        if body != want:
            problems.append('scan body %s, expected %s' % (body, want))
        rets = [s for s in post if isinstance(s, ast.Return)]
        if len(rets) != 1 or src(rets[0].value).replace(' ', '') != '%s-1' % idx:
            problems.append('returns %s, expected %s - 1' % ([src(r.value) for r in rets], idx))
    ctx.ob('R5.1-primitive', 'sample_discrete', not problems, where,
           'sample_discrete returns the first index whose running weight sum reaches U*Lambda', '; '.join(problems))


SLOT = {'SSASimulator': 'compute_stochastic_propensities', 'DelaySSASimulator': 'compute_stochastic_propensities',
        'VolumeSSASimulator': 'compute_stochastic_volume_propensities',
        'DelayVolumeSSASimulator': 'compute_stochastic_volume_propensities'}


def check_loop(ctx, key):
    sl = simloop.SimLoop(ctx, key)
    sname = sl.state_name()
    stores = {st: simloop.classify_store(st, sname, sl.f) for st in simloop.state_stores(sl.f, sname)}
    rec_loops = [n for n in ast.walk(sl.loop) if isinstance(n, ast.While) and n is not sl.loop and 'c_timepoints[current_index]' in src(n.test)]
    if len(rec_loops) != 1:
        rec_loops = [n for n in ast.walk(sl.loop) if isinstance(n, ast.While) and n is not sl.loop]
    if len(rec_loops) != 1:
        raise AnalysisError('%s: recording loop not found' % key)
    rec = rec_loops[0]
    pths = sl.iteration_paths()
    probs = {'order': [], 'lambda': [], 'sample': [], 'record': [], 'time': [], 'wait': [], 'skip': []}
    fired = 0
    for p in pths:
        ev = p.events
        def first(pred):
            return paths.index_of(p, pred)
        i_comp = first(lambda e: e.kind == 'stmt' and paths.stmt_calls(e.node, SLOT[key]))
        i_any_comp = first(lambda e: e.kind == 'stmt' and any(paths.stmt_calls(e.node, s) for s in
                                                              ('compute_propensities', 'compute_volume_propensities',
                                                               'compute_stochastic_propensities', 'compute_stochastic_volume_propensities')))
        i_lam = first(lambda e: e.kind == 'stmt' and isinstance(e.node, ast.Assign) and src(e.node.targets[0]) == 'Lambda')
        i_exp = first(lambda e: e.kind == 'stmt' and paths.stmt_calls(e.node, 'exponential_rv'))
        i_smp = first(lambda e: e.kind == 'stmt' and paths.stmt_calls(e.node, 'sample_discrete'))
        i_rec = first(lambda e: e.kind == 'test' and e.node is rec.test)
        i_upd = first(lambda e: e.kind == 'stmt' and e.node in stores and stores[e.node][0] in ('immediate', 'delayed'))
        if i_comp < 0 or i_comp != i_any_comp:
            probs['order'].append((p, 'stochastic propensities (%s) are not the first propensity evaluation of the iteration' % SLOT[key]))
            continue
        c = paths.stmt_calls(ev[i_comp].node, SLOT[key])[0]
        args = [src(util.strip_cast(a)).replace(' ', '') for a in c.args]
        want = ['%s.data' % sname, 'c_propensity.data'] + (['current_volume'] if 'volume' in SLOT[key] else []) + ['current_time']
        if args != want:
            probs['order'].append((p, 'propensities computed with %s, expected %s' % (args, want)))
        if i_lam < i_comp:
            probs['lambda'].append((p, 'Lambda assigned before the propensities of this iteration'))
        else:
            lv = src(ev[i_lam].node.value).replace(' ', '')
            lc = util.calls_in(ev[i_lam].node.value, suffix='array_sum')
            if len(lc) != 1 or [src(util.strip_cast(a)).replace(' ', '') for a in lc[0].args] != ['c_propensity.data', 'num_reactions'] \
                    or util.strip_cast(ev[i_lam].node.value) is not lc[0]:
                probs['lambda'].append((p, 'Lambda = %s, expected array_sum(c_propensity, num_reactions)' % lv))
        # writes between compute and sample
        for j in range(i_comp + 1, max(i_smp, i_exp, i_comp + 1)):
            e = ev[j]
            if e.kind == 'stmt' and (e.node in stores or (isinstance(e.node, (ast.Assign, ast.AugAssign)) and
                                                         src((e.node.targets[0] if isinstance(e.node, ast.Assign) else e.node.target)).startswith('c_propensity'))):
                probs['sample'].append((p, 'state or propensity buffer written between evaluation and sampling at %s' % sl.loc(e.node)))
            if e.kind == 'stmt' and j > i_lam >= 0 and isinstance(e.node, (ast.Assign, ast.AugAssign)) and \
                    src((e.node.targets[0] if isinstance(e.node, ast.Assign) else e.node.target)) == 'Lambda':
                probs['sample'].append((p, 'Lambda reassigned before sampling'))
        if i_exp < 0 and i_lam >= 0:
            # an iteration that draws no waiting time treats the state as unable to react: only sound when Lambda == 0 exactly
            snap = [e for e in ev[i_lam + 1:] if e.state is not None]
            rel = simloop.lambda_rel(snap[-1]) if snap else frozenset('=>')
            if rel != frozenset('='):
                probs['skip'].append((p, 'no waiting time is drawn although Lambda > 0 is possible (Lambda vs 0: %s)' % ''.join(sorted(rel))))
        if i_exp >= 0:
            c = paths.stmt_calls(ev[i_exp].node, 'exponential_rv')[0]
            st = ev[i_exp].node
            if [src(a) for a in c.args] != ['Lambda'] or i_exp < i_lam:
                probs['wait'].append((p, 'waiting time drawn as %s' % util.stmt_key(st)))
            elif not (isinstance(st, ast.Assign) and src(st.value).replace(' ', '') in
                      ('current_time+cyrandom.exponential_rv(Lambda)', 'cyrandom.exponential_rv(Lambda)+current_time')):
                probs['wait'].append((p, 'event time is %s, expected current_time + exponential_rv(Lambda)' % util.stmt_key(st)))
        if i_smp >= 0:
            fired += 1
            c = paths.stmt_calls(ev[i_smp].node, 'sample_discrete')[0]
            args = [src(util.strip_cast(a)).replace(' ', '') for a in c.args]
            if args != ['num_reactions', 'c_propensity.data', 'Lambda']:
                probs['sample'].append((p, 'reaction drawn with %s' % args))
            if i_exp < 0:
                probs['wait'].append((p, 'a reaction is drawn on a path without a sampled waiting time'))
        if i_upd >= 0:
            if i_rec < 0 or i_rec > i_upd:
                probs['record'].append((p, 'state updated at %s before the rows up to the new time were recorded' % sl.loc(ev[i_upd].node)))
            # current_time at the update = proposed_time = current_time + exp
            last_ct = None
            last_pt = None
            for e in ev[:i_upd]:
                if e.kind == 'stmt' and isinstance(e.node, ast.Assign):
                    t = src(e.node.targets[0])
                    if t == 'current_time':
                        last_ct = e.node
                    elif t == 'proposed_time':
                        last_pt = e.node
            if last_ct is None or src(last_ct.value) != 'proposed_time' or last_pt is None or 'exponential_rv' not in src(last_pt.value):
                probs['time'].append((p, 'a reaction is applied with current_time = %s, proposed_time = %s (not the event time sampled in this iteration)'
                                      % (src(last_ct.value) if last_ct is not None else None, src(last_pt.value) if last_pt is not None else None)))

    def fmt(lst):
        return '; '.join('%s on path [%s]' % (m, paths.describe(p, 6)) for p, m in lst[:2])
    # the clock the waiting times are added to starts at the interface's initial time: the events between that time and the first
    # requested time point are part of "the events that precede it"
    init_t = sl.prelude_assign('current_time', resolve=True)
    t_txt = src(util.strip_cast(init_t)).replace(' ', '') if init_t is not None else None
    ctx.ob('R5.2-clock', key, t_txt == 'sim.get_initial_time()', sl.loc(init_t) if init_t is not None else sl.where,
           "the simulation clock starts at the interface's initial time (not at the first requested time point)", 'current_time = %s' % t_txt)
    ctx.ob('R5.2-order', key, not probs['order'], sl.where,
           'each iteration first evaluates the stochastic propensities at the current state and time', fmt(probs['order']) or '%d paths' % len(pths))
    ctx.ob('R5.2-lambda', key, not probs['lambda'], sl.where, 'Lambda is the sum of the freshly computed buffer over all reactions', fmt(probs['lambda']))
    ctx.ob('R5.2-waiting-time', key, not probs['wait'] and fired > 0, sl.where,
           'the event time is current_time + exponential_rv(Lambda) with that Lambda', fmt(probs['wait']))
    ctx.ob('R5.2-no-skip', key, not probs['skip'], sl.where,
           'an iteration draws no waiting time only when the total propensity is exactly zero', fmt(probs['skip']))
    ctx.ob('R5.2-choice', key, not probs['sample'] and fired > 0, sl.where,
           'the reaction is drawn from the same buffer and Lambda, nothing written in between', fmt(probs['sample']))
    ctx.ob('R5.2-record-before-update', key, not probs['record'], sl.where,
           'rows for all time points up to the new time are recorded before the state changes', fmt(probs['record']))
    ctx.ob('R5.2-event-time', key, not probs['time'], sl.where,
           'a reaction is applied only at the event time sampled in this iteration (never at a grid time)', fmt(probs['time']))
    # recording loop condition and store
    ok = util.canon_test(rec.test) == '(c_timepoints[current_index]<=current_time and current_index<num_timepoints)'
    ctx.ob('R5.2-record-condition', key, ok, sl.loc(rec), 'rows are recorded for every time point <= the new current time', src(rec.test))
    # loop termination variable
    ok = util.canon_test(sl.loop.test) == 'current_index<num_timepoints'
    ctx.ob('R5.2-loop-condition', key, ok, sl.where, 'the loop runs until all time points are recorded', src(sl.loop.test))


def check(ctx):
    prog = ctx.prog
    prog.mod('random'); prog.mod('simulator'); prog.mod('simulator.pxd')
    check_primitives(ctx)
    for key in simloop.SIMULATORS:
        check_loop(ctx, key)
    # "waiting times are exponential": the clock, the waiting time and the propensities are C doubles throughout - a single-precision
    # local rounds every event time to 24 bits, which at late times is coarser than the waiting times themselves
    for key in simloop.SIMULATORS:
        sl_ = simloop.SimLoop(ctx, key)
        sp_ = simloop.single_precision_decls(sl_.f)
        ctx.ob('R5.1-precision', key, not sp_, sl_.where, 'no variable of the simulation loop is declared single precision',
               '; '.join('%s (%s)' % (n_, sl_.loc(x_)) for n_, x_ in sp_[:3]))
    for key in ('SSASimulator',):
        sl_ = simloop.SimLoop(ctx, key)
        pr_, n_ = simloop.event_race(sl_)
        try:
            pr2_, n2_ = simloop.event_race_run(sl_)
        except AnalysisError as e_:
            # the scripted run cannot be evaluated on this source (a value the evaluator does not know decides the control flow): this
            # rule gives no verdict - the path rules of the property do - and says so
            ctx.note('R5.2-event-race %s: the scripted run was not evaluated (%s)' % (key, e_))
            pr2_, n2_ = [], 0
        if pr_ is None:     # a pass is not evaluable in isolation (it reads locals carried between passes): the run decides
            pr_, n_ = [], 0
        ctx.ob('R5.2-event-race', key, not pr_ and not pr2_, sl_.where, RACE_WHAT % (n_, n2_), '; '.join((pr2_ + pr_)[:2]))
    rmod = prog.mod('random')
    sp_ = [(fn_.name, n_) for fn_ in rmod.tree.body if isinstance(fn_, ast.FunctionDef) for n_, _ in simloop.single_precision_decls(fn_)]
    ctx.ob('R5.1-precision', 'random', not sp_, 'bioscrape/random.pyx', 'no variable of the random primitives is declared single precision',
           '; '.join('%s in %s' % (n_, f_) for f_, n_ in sp_[:3]))
    # the master equation is built from the stochastic propensities: the interface must evaluate the stochastic slot of every reaction
    # (C01 R1.4) and the stochastic mass-action forms must be the combinatorial ones (C01 R1.1) - re-emitted here
    from . import c01
    c01.reemit(ctx, 'R5.3-stochastic-rates', 'stochastic', ('compute_stochastic_propensities', 'compute_stochastic_volume_propensities'))
    # in safe mode the buffer is filled by a different loop: every reaction gets either its stochastic rate at the current state or 0
    # (never a value left from an earlier state) - C06 R6.4-safe-eval, re-emitted here for the stochastic slots
    from ..core import SubCtx
    from . import c06
    prog.mod('lineage'); prog.mod('lineage.pxd')
    sub = SubCtx(ctx)
    c06.check_safe_evaluators(sub)
    for rule, key, ok, where, what, detail in sub.got:
        if rule == 'R6.4-safe-eval' and 'stochastic' in key and 'Lineage' not in key:
            ctx.ob('R5.3-stochastic-rates', '%s/%s' % (rule, key), ok, where, what, detail)
    # "net stoichiometry": the column a firing adds to the state is the model's own (immediate + delayed) column - the matrix the loop
    # uses is built from the interface's arrays (C06 R6.1-matrix / store forms) and those shared arrays are never changed in place
    # (C08 R8.4) - re-emitted here
    from . import c08
    prog.mod('types'); prog.mod('types.pxd'); prog.mod('inference')
    sub = SubCtx(ctx)
    for key_, wd_ in (('SSASimulator', False), ('DelaySSASimulator', True), ('VolumeSSASimulator', False), ('DelayVolumeSSASimulator', True)):
        c06.check_sim(sub, key_, wd_)
    c08.check_copies(sub)
    seen_ = {}
    for rule, key, ok, where, what, detail in sub.got:
        if rule in ('R6.1-matrix', 'R6.1-store-forms') or (rule == 'R8.4-work-on-copies' and key in simloop.SIMULATORS):
            k_ = '%s/%s' % (rule, key)
            seen_[k_] = seen_.get(k_, 0) + 1
            ctx.ob('R5.4-net-stoichiometry', k_ if seen_[k_] == 1 else '%s#%d' % (k_, seen_[k_]), ok, where, what, detail)
    # ... and a 'general' stochastic propensity is its compiled expression: the translation builds the tree of the written formula and
    # every node computes its operator (C02 R2.1 / R2.2) - re-emitted here
    from . import c02
    sub = SubCtx(ctx)
    c02.check_nodes(sub)
    c02.check_translation(sub)
    for rule, key, ok, where, what, detail in sub.got:
        if (rule == 'R2.1-node-semantics' and key.endswith('.evaluate')) or rule == 'R2.2-translation':
            ctx.ob('R5.3-stochastic-rates', '%s/%s' % (rule, key), ok, where, what, detail)
    from . import c03
    # "S" in dx/dt = S * rate (resp. the net stoichiometry of the master equation) is built from the reaction list with multiplicity, a
    # species on both sides cancelling by count (C03 R3.1 / R3.3) - re-emitted here
    sub = SubCtx(ctx)
    c03.check_accumulation(sub)
    c03.check_matrices(sub)
    c03.check_constructor_reactions(sub)
    for rule, key, ok, where, what, detail in sub.got:
        if rule in ('R3.1-accumulation', 'R3.3-matrix-fill'):
            ctx.ob('R5.4-net-stoichiometry', 'C03/%s/%s' % (rule, key), ok, where, what, detail)
    ctx.floor('R5.4-net-stoichiometry', 10)
    ctx.floor('R5.3-stochastic-rates', 42)
    ctx.floor('R5.1-primitive', 4)
    ctx.floor('R5.2-order', 4)
