"""C13 - an imported (un-annotated) SBML file has the semantics of the SBML document.

R13.1 no state leaks between SBML elements: in the loops of import_sbml_rules and
import_sbml_reactions every variable that is assigned in the loop body is assigned in the same
iteration before it is read, on every path (accumulators excepted).  The annotated-delay branch
is outside this property and is reported as a note.
R13.2 rule translation: an assignmentRule appends exactly one ('assignment', {'equation':
var=formula}, frequency) and no reaction; a rateRule appends exactly one reaction
([], [var], 'general', {'rate': formula}) and no rule.
R13.3 stoichiometry expansion: reactant/product ids are appended int(stoichiometry) times in
both the known- and the unknown-species branch; nothing else is appended to those lists.
R13.4 local parameters: on an id collision the parameter is renamed to id_reactionId in the
kinetic law (and the reaction) before the formula string is taken, and its value is stored under
the new id.
R13.5 initial values: amount if finite; concentration only if finite and the amount left 0.
R13.6 assembly: all species, parameter values, the 8 reaction fields and the rule tuples reach
the model.
R13.7 sample documents: import_sbml_reactions partially evaluated on three un-annotated sample documents returns the expanded species
lists and a propensity whose rate is the kinetic law (text for general, algebraically equal product for a recognised special form).
"""
import ast

from .. import paths, util
from ..front import AnalysisError, src

EXPLANATION = __doc__
ASSUMPTIONS = ['libsbml.formulaToL3String prints the kinetic law it is given']
ACCUMULATORS = {'allrules', 'allreactions', 'allspecies', 'allparams'}


def func(ctx, name):
    m = ctx.prog.mod('sbmlutil')
    for n in m.tree.body:
        if isinstance(n, ast.FunctionDef) and n.name == name:
            ctx.functions.add('sbmlutil:' + name)
            return n
    raise AnalysisError('anchor vanished: sbmlutil:%s' % name)


def comp_bound(node):
    out = set()
    for n in ast.walk(node):
        if isinstance(n, ast.comprehension):
            for x in ast.walk(n.target):
                if isinstance(x, ast.Name):
                    out.add(x.id)
    return out


def loads_before_def(p, assigned_in_loop):
    """(name, node) read on the path before being assigned in this iteration."""
    out = []
    for e in p.events:
        if e.kind not in ('stmt', 'test', 'loop+', 'loop0'):
            continue
        node = e.node
        if e.kind in ('loop+', 'loop0'):
            exprs = [node.iter]
        elif e.kind == 'stmt' and isinstance(node, (ast.Assign, ast.AnnAssign, ast.AugAssign)):
            exprs = [node.value] if node.value is not None else []
            tg = node.targets if isinstance(node, ast.Assign) else [node.target]
            for t in tg:
                if not isinstance(t, (ast.Name, ast.Tuple, ast.List)):
                    exprs.append(t)
                if isinstance(node, ast.AugAssign):
                    exprs.append(t)
        else:
            exprs = [node]
        pre = e.pre if e.pre is not None else set()
        for x in exprs:
            bound = comp_bound(x)
            for nm in ast.walk(x):
                if isinstance(nm, ast.Name) and isinstance(nm.ctx, ast.Load) and nm.id in assigned_in_loop \
                        and nm.id not in pre and nm.id not in bound:
                    out.append((nm.id, node))
    return out


def check_leaks(ctx, fname, anchor_iter, want_paths=False):
    f = func(ctx, fname)
    loops = [s for s in f.body if isinstance(s, ast.For) and anchor_iter in src(s.iter)]
    if len(loops) != 1:
        raise AnalysisError('%s: loop over %s not found' % (fname, anchor_iter))
    lp = loops[0]
    assigned = util.assigned_names(ast.Module(body=lp.body, type_ignores=[])) - ACCUMULATORS
    params = {a.arg for a in f.args.args}
    defined = set(params) | ACCUMULATORS
    for x in ast.walk(lp.target):
        if isinstance(x, ast.Name):
            defined.add(x.id)
    pre_assigned = set()
    for s_ in f.body[:f.body.index(lp)]:
        pre_assigned |= util.assigned_names(s_)
    defined |= (pre_assigned - assigned)

    def annotated_test(test):
        return isinstance(test, ast.Compare) and isinstance(test.ops[0], ast.In) and isinstance(test.left, ast.Constant) \
            and test.left.value in ('DelayType', 'PropensityType', 'BioscrapeRule')
    reads_all, _ = paths.definite_assignment(lp.body, defined, assigned)
    reads_plain, _ = paths.definite_assignment(lp.body, defined, assigned, const_false=annotated_test)
    leaks, notes = {}, {}
    for name, node in reads_plain:
        leaks.setdefault(name, node)
    for name, node in reads_all:
        if name not in leaks:
            notes.setdefault(name, node)
    ps = None
    if want_paths:
        en = paths.Enumerator(snapshot=False, limit=200000)
        ps = en.run(lp.body, paths.State(), depth=1)
        ctx.paths += len(ps)
    where = ctx.loc('sbmlutil', lp)
    # one obligation per variable assigned in the loop that decides what is appended
    for name in sorted(assigned):
        if name in leaks:
            node = leaks[name]
            ctx.ob('R13.1-no-leak', '%s/%s' % (fname, name), False, ctx.loc('sbmlutil', node),
                   "'%s' is assigned in the loop body; every read must be preceded by an assignment in the same iteration" % name,
                   "the read at %s is not dominated by an assignment of this iteration: it may see the value left by the previous SBML element (or the pre-loop value)"
                   % ctx.loc('sbmlutil', node))
        else:
            ctx.ob('R13.1-no-leak', '%s/%s' % (fname, name), True, where,
                   "'%s' is assigned in the loop body; every read must be preceded by an assignment in the same iteration" % name, '')
    for name, node in sorted(notes.items()):
        if name not in leaks:
            ctx.note("%s: '%s' can carry over between elements on the annotated path (%s) - outside C13's un-annotated scope"
                     % (fname, name, ctx.loc('sbmlutil', node)))
    return f, lp, ps


def check_rules(ctx, f, lp, ps):
    where = ctx.loc('sbmlutil', lp)
    var = src(lp.target)
    problems_a, problems_r = [], []
    seen_a = seen_r = 0
    for p in ps:
        if p.exit != 'fall':
            continue
        kind = None
        for e in p.events:
            if e.kind == 'test' and e.info and isinstance(e.node, ast.Compare) and src(e.node.left) == '%s.getElementName()' % var:
                kind = e.node.comparators[0].value if isinstance(e.node.comparators[0], ast.Constant) else None
        if any(e.kind == 'test' and e.info and 'BioscrapeRule' in src(e.node) for e in p.events):
            continue
        n_rule = sum(len(paths.stmt_calls(e.node, 'allrules.append')) for e in p.stmts())
        n_rxn = sum(len(paths.stmt_calls(e.node, 'allreactions.append')) for e in p.stmts())
        if kind == 'assignmentRule':
            seen_a += 1
            if n_rule != 1 or n_rxn != 0:
                problems_a.append('an assignment rule appends %d rule(s) and %d reaction(s) on path [%s]' % (n_rule, n_rxn, paths.describe(p, 8)))
            # the rule type constant
            rt = p.state.env.get('rule_type', paths.TOP)
            if rt != 'assignment':
                problems_a.append("rule type is %s, expected 'assignment'" % (rt,))
            fq = p.state.env.get('rule_frequency', paths.TOP)
            if fq != 'repeated':
                problems_a.append("frequency of an un-annotated rule is %s, expected 'repeated'" % (fq,))
        elif kind == 'rateRule':
            seen_r += 1
            if n_rule != 0 or n_rxn != 1:
                problems_r.append('a rate rule appends %d rule(s) and %d reaction(s) on path [%s]' % (n_rule, n_rxn, paths.describe(p, 8)))
    ctx.ob('R13.2-rule-translation', 'assignmentRule', not problems_a and seen_a > 0, where,
           "an assignmentRule yields exactly one ('assignment', {'equation': ...}, 'repeated') and no reaction", '; '.join(sorted(set(problems_a))[:2]))
    ctx.ob('R13.2-rule-translation', 'rateRule', not problems_r and seen_r > 0, where,
           'a rateRule yields exactly one reaction and no rule', '; '.join(sorted(set(problems_r))[:2]))
    # rules are applied in list order: the imported list keeps the order of the document - every rule is appended, nothing is inserted,
    # sorted or moved
    order = []
    for n_ in ast.walk(f):
        if isinstance(n_, ast.Call) and isinstance(n_.func, ast.Attribute) and src(n_.func.value) == 'allrules' and \
                n_.func.attr in ('insert', 'sort', 'reverse', 'pop', 'remove', 'extend', 'clear'):
            order.append('`%s` (%s)' % (src(n_)[:60], ctx.loc('sbmlutil', n_)))
        if isinstance(n_, (ast.Assign, ast.AugAssign)) and not (isinstance(n_, ast.Assign) and isinstance(n_.value, ast.List) and not n_.value.elts):
            for t_ in (n_.targets if isinstance(n_, ast.Assign) else [n_.target]):
                b_ = t_.value if isinstance(t_, ast.Subscript) else t_
                if src(b_) == 'allrules':
                    order.append('`%s` (%s)' % (util.stmt_key(n_)[:60], ctx.loc('sbmlutil', n_)))
    ctx.ob('R13.2-rule-translation', 'document-order', not order, where,
           'the rules are collected by appending, in the order of the document (bioscrape applies its rules in list order)', '; '.join(order[:3]))
    # shapes of what is appended: the statements of every path are evaluated with the element's variable and formula as named holes
    from ..templates import StrExec, Hole, UNKNOWN
    miss = []
    n_a = n_r = 0

    def hook(n, ex):
        t = src(n).replace(' ', '')
        if t == 'libsbml.formulaToL3String(%s.getMath())' % var:
            return Hole('FORMULA')
        if t == '%s.getVariable()' % var:
            return Hole('VARIABLE')
        return None
    for p in ps:
        if p.exit != 'fall' or any(e.kind == 'test' and e.info and 'BioscrapeRule' in src(e.node) for e in p.events):
            continue
        ex = StrExec({}, (), call_hook=hook)
        for e in p.stmts():
            n = e.node
            for c, what in [(c, 'rule') for c in paths.stmt_calls(n, 'allrules.append')] + [(c, 'reaction') for c in paths.stmt_calls(n, 'allreactions.append')]:
                v = ex.ev(c.args[0]) if c.args else UNKNOWN
                if what == 'rule':
                    n_a += 1
                    ok = isinstance(v, list) and len(v) == 3 and v[0] == 'assignment' and v[2] == 'repeated' and isinstance(v[1], dict) and \
                        str(v[1].get('equation', '')).replace(' ', '') == 'VARIABLE=FORMULA' and set(v[1]) == {'equation'}
                    if not ok:
                        miss.append("an assignment rule is recorded as %r, expected ('assignment', {'equation': variable=formula}, 'repeated')" % (v,))
                else:
                    n_r += 1
                    ok = isinstance(v, list) and len(v) == 4 and v[0] == [] and v[1] == ['VARIABLE'] and v[2] == 'general' and isinstance(v[3], dict) and \
                        v[3].get('rate') == 'FORMULA' and set(v[3]) <= {'rate', 'type'} and v[3].get('type', 'general') == 'general'
                    if not ok:
                        miss.append("a rate rule is recorded as %r, expected ([], [variable], 'general', {'rate': formula})" % (v,))
            if isinstance(n, (ast.Assign, ast.AugAssign)):
                ex.stmt(n)
    if n_a == 0 or n_r == 0:
        raise AnalysisError('import_sbml_rules: appended rule / reaction not found on any path')
    miss = sorted(set(miss))[:3]
    ctx.ob('R13.2-rule-shape', 'tuples', not miss, where,
           "the rule is variable=formula of this element; the rate-rule reaction is ([], [variable], 'general', {'rate': formula})", str(miss))


def check_stoichiometry(ctx, f, lp):
    where = ctx.loc('sbmlutil', lp)
    for lst, getter, role in (('reactant_list', 'getListOfReactants', 'reactant'), ('product_list', 'getListOfProducts', 'product')):
        problems = []
        loops = [n for n in ast.walk(lp) if isinstance(n, ast.For) and getter in src(n.iter)]
        if len(loops) != 1:
            problems.append('loop over %s not found' % getter)
        else:
            sl = loops[0]
            v = src(sl.target)
            apps = [c for c in ast.walk(lp) if isinstance(c, ast.Call) and src(c.func) == '%s.append' % lst]
            if any(not any(c is x for x in ast.walk(sl)) for c in apps):
                problems.append('%s is appended to outside the %s loop' % (lst, role))
            fin_txt = 'np.isfinite(%s.getStoichiometry())' % v
            exp_iter = 'range(int(%s.getStoichiometry()))' % v
            en = paths.Enumerator()
            ps = en.run(sl.body, paths.State())
            ctx.paths += len(ps)
            seen = set()
            for p in ps:
                if p.exit != 'fall':
                    continue
                fin = [e.info for e in p.events if e.kind == 'test' and src(e.node).replace(' ', '') == fin_txt]
                if not fin:
                    problems.append('a path does not consult whether the stoichiometry is finite')
                    continue
                inside, outside = 0, 0
                depth_loop = None
                for e in p.events:
                    if e.kind in ('loop+',) and src(e.node.iter).replace(' ', '') == exp_iter:
                        depth_loop = e.depth
                    if e.kind == 'loopexit' and depth_loop is not None and e.depth == depth_loop:
                        depth_loop = None
                    if e.kind == 'stmt' and paths.stmt_calls(e.node, '%s.append' % lst):
                        c = paths.stmt_calls(e.node, '%s.append' % lst)[0]
                        if src(c.args[0]) != '%sspecies_id' % role:
                            problems.append('appends %s' % src(c.args[0]))
                        if depth_loop is not None and e.depth > depth_loop:
                            inside += 1
                        else:
                            outside += 1
                zero_pass = any(e.kind == 'loop0' and src(e.node.iter).replace(' ', '') == exp_iter for e in p.events)
                if fin[0]:
                    seen.add('finite')
                    if outside or (inside != 1 and not zero_pass) or (zero_pass and inside):
                        problems.append('finite stoichiometry: id appended %d time(s) outside and %d inside the expansion loop' % (outside, inside))
                else:
                    seen.add('non-finite')
                    if inside or outside != 1:
                        problems.append('non-finite stoichiometry: id appended %d time(s)' % (inside + outside))
            if seen != {'finite', 'non-finite'}:
                problems.append('cases seen: %s' % sorted(seen))
            ids = [util.stmt_key(s_).replace(' ', '') for s_ in sl.body]
            if '%sspecies=sbml_model.getSpecies(%s.getSpecies())' % (role, v) not in ids or '%sspecies_id=%sspecies.getId()' % (role, role) not in ids:
                problems.append('the species id is not taken from this %s reference' % role)
        # ... and the list built that way is what reaches the reaction tuple: it starts empty in this iteration and is never rebound,
        # filtered or shortened afterwards (a species on both sides with unequal stoichiometries keeps its net coefficient)
        binds = [n for n in ast.walk(lp) if isinstance(n, (ast.Assign, ast.AugAssign)) and
                 any(src(t) == lst for t in (n.targets if isinstance(n, ast.Assign) else [n.target]))]
        empties = [n for n in binds if isinstance(n, ast.Assign) and isinstance(n.value, ast.List) and not n.value.elts]
        for n in binds:
            if n not in empties:
                problems.append('%s is rebound by `%s`' % (lst, util.stmt_key(n)[:70]))
        if len(empties) != 1:
            problems.append('%s is emptied %d times per reaction' % (lst, len(empties)))
        for c in ast.walk(lp):
            if isinstance(c, ast.Call) and isinstance(c.func, ast.Attribute) and src(c.func.value) == lst and \
                    c.func.attr in ('remove', 'pop', 'clear', 'sort', 'reverse', 'insert', 'extend', '__delitem__'):
                problems.append('%s.%s(...) changes the list after it was built' % (lst, c.func.attr))
            if isinstance(c, ast.Delete) and any(src(t).startswith(lst + '[') for t in c.targets):
                problems.append('entries of %s are deleted' % lst)
        ctx.ob('R13.3-stoichiometry', lst, not problems, where,
               'on every path each %s id is appended int(stoichiometry) times (once if the stoichiometry is not finite); nothing else is appended' % role,
               '; '.join(sorted(set(problems))[:3]))
    mods = [n for n in ast.walk(lp) if isinstance(n, ast.Call) and 'getListOfModifiers' in src(n.func)]
    ctx.ob('R13.3-stoichiometry', 'modifiers', not mods, where, 'modifier species contribute no stoichiometry', '')


def check_local_params(ctx, f, lp):
    where = ctx.loc('sbmlutil', lp)
    body = lp.body
    idx = {}
    for i, s in enumerate(body):
        t = util.stmt_key(s).replace(' ', '')
        if isinstance(s, ast.For) and 'kl.getListOfParameters()' in src(s.iter):
            idx['ploop'] = i
        if t == 'math_ast=kl.getMath()':
            idx['math'] = i
        if isinstance(s, ast.Assign) and isinstance(s.targets[0], ast.Name) and src(s.value).replace(' ', '') == 'libsbml.formulaToL3String(math_ast)':
            idx['formula'] = i
            fvar = s.targets[0].id
            if fvar == 'rate_string':
                idx['rate'] = i         # the printed formula is the rate string itself
        if isinstance(s, ast.Assign) and src(s.targets[0]) == 'rate_string' and 'formula' in idx and src(s.value) == fvar:
            idx['rate'] = i
        if t == 'kl=%s.getKineticLaw()' % src(lp.target):
            idx['kl'] = i
    problems = []
    if not all(k in idx for k in ('ploop', 'math', 'formula', 'rate', 'kl')) or not (idx['kl'] < idx['ploop'] < idx['math'] < idx['formula'] <= idx['rate']):
        problems.append('order kinetic law -> local parameter renaming -> getMath -> formulaToL3String -> rate string not found (%s)' % idx)
    else:
        pl = body[idx['ploop']]
        pv = src(pl.target)
        en = paths.Enumerator()
        ps = en.run(pl.body, paths.State())
        for p in ps:
            txt = [util.stmt_key(e.node).replace(' ', '') for e in p.stmts()]
            collide = any(e.kind == 'test' and e.info and src(e.node).replace(' ', '') == 'pidinallparams' for e in p.events)
            if collide:
                need = ["newid=oldid+'_'+%s.getId()" % src(lp.target), 'kl.renameSIdRefs(oldid,newid)', '%s.setId(newid)' % pv, 'pid=newid', 'oldid=pid']
                miss = [n for n in need if n not in txt]
                if miss:
                    problems.append('collision path lacks %s' % miss)
                elif not (txt.index('kl.renameSIdRefs(oldid,newid)') < txt.index('pid=newid')):
                    problems.append('value stored before the rename')
            # what the path leaves in allparams for this parameter: its value attribute if that is finite, else 0.0 - under the (new) id
            nodes = [e.node for e in p.stmts()]
            sts = [i_ for i_, nd in enumerate(nodes) if isinstance(nd, ast.Assign) and isinstance(nd.targets[0], ast.Subscript)
                   and src(nd.targets[0].value) == 'allparams']
            tests = {util.canon_test(e.node).replace(' ', ''): e.info for e in p.events if e.kind == 'test'}
            fin = [t_ for t_ in tests if 'isfinite(%s.getValue())' % pv in t_]
            finite = bool(fin) and tests[fin[0]] == (not fin[0].startswith('not'))
            if not sts or src(nodes[sts[-1]].targets[0].slice) != 'pid':
                problems.append('local parameter not registered')
            else:
                last = src(nodes[sts[-1]].value).replace(' ', '')
                if collide and ('pid=newid' not in txt or any(i_ < txt.index('pid=newid') for i_ in sts)):
                    problems.append('value stored under the old id')
                if finite and last != '%s.getValue()' % pv:
                    problems.append('a finite local value is not stored')
                if not finite and last not in ('0.0', '0'):
                    problems.append('a non-finite local value is stored as %s' % last)
        # the renaming happens whenever the id is already taken - by a global or by another reaction's local - whatever the values are
        ren = [n for n in ast.walk(pl) if isinstance(n, ast.Call) and src(n.func) == 'kl.renameSIdRefs']
        for c in ren:
            st_ = c
            while not isinstance(st_, ast.stmt):
                st_ = st_._parent
            g = sorted(x.replace(' ', '') for x in util.guards_of(st_, pl))
            if g != ['pidinallparams']:
                problems.append('the local parameter is renamed under %s, not whenever its id is already in use' % g)
        if len(ren) != 1:
            problems.append('%d renaming calls' % len(ren))
    ctx.ob('R13.4-local-parameters', 'rename-before-formula', not problems, where,
           'a colliding local parameter is renamed to id_reactionId in the kinetic law before the formula string is taken; its value is stored under the new id',
           '; '.join(sorted(set(problems))[:3]))
    # the general propensity uses that string
    txt = [util.stmt_key(s).replace(' ', '') for s in ast.walk(lp) if isinstance(s, ast.stmt)]
    ok = (txt.count("propensity_params['rate']=rate_string") >= 1 and txt.count("propensity_params['type']='general'") >= 1) or \
        any(t_ in ("propensity_params={'type':'general','rate':rate_string}", "propensity_params={'rate':rate_string,'type':'general'}") for t_ in txt)
    rx = [t for t in txt if t.startswith('rxn=(')]
    ok2 = rx == ["rxn=(reactant_list,product_list,propensity_params['type'],propensity_params,delay_type,delay_reactants,delay_products,delay_params)"]
    # the tuple is what gets stored (read through single-definition temporaries, whatever the storing form)
    sd_ = {n_: v_ for n_, v_ in util.single_defs(f).items() if v_ is not None and n_ != 'rxn'}
    stored = []
    for n_ in ast.walk(lp):
        if isinstance(n_, ast.Call) and isinstance(n_.func, ast.Attribute) and src(n_.func.value) == 'allreactions' and n_.func.attr in ('append', 'extend') and len(n_.args) == 1:
            stored.append(n_.args[0])
        elif isinstance(n_, ast.AugAssign) and isinstance(n_.op, ast.Add) and src(n_.target) == 'allreactions':
            stored.append(n_.value)
        elif isinstance(n_, ast.Assign) and src(n_.targets[0]) == 'allreactions' and isinstance(n_.value, ast.BinOp) and src(n_.value.left) == 'allreactions':
            stored.append(n_.value.right)
    ok3 = len(stored) == 1 and src(util.inline(stored[0], sd_)).replace(' ', '') in ('rxn', '[rxn]')
    ctx.ob('R13.4-local-parameters', 'general-rate', ok and ok2 and ok3, where,
           "an un-annotated reaction becomes (reactants, products, 'general', {'rate': formula string}, no delay)", str(rx))


def check_unannotated_general(ctx, rule):
    """A reaction without a bioscrape annotation comes back as the general propensity whose rate is the formula string of its kinetic
    law, on every path of that branch - never as a type guessed from the shape of the formula.  (For a plain document the guess would
    leave the rate equations unchanged, so C13 does not demand this; the round trip does: general rates are written un-annotated and
    their stochastic and volume forms differ from those of mass action.)"""
    f = func(ctx, 'import_sbml_reactions')
    loops = [n for n in f.body if isinstance(n, ast.For) and 'getListOfReactions' in src(n.iter)]
    if len(loops) != 1:
        raise AnalysisError('import_sbml_reactions: reaction loop not found')
    lp = loops[0]
    where = ctx.loc('sbmlutil', lp)
    un = []
    anns = [n for n in ast.walk(lp) if isinstance(n, ast.If) and isinstance(n.test, ast.Compare) and isinstance(n.test.left, ast.Constant)
            and n.test.left.value == 'PropensityType' and isinstance(n.test.ops[0], ast.In)]
    if len(anns) != 1 or not anns[0].orelse:
        raise AnalysisError('import_sbml_reactions: the branch for reactions without a PropensityType annotation was not found')
    from ..templates import StrExec, Hole, UNKNOWN
    pps = paths.Enumerator().run(anns[0].orelse, paths.State())
    ctx.paths += len(pps)
    for p_ in pps:
        if p_.exit == 'raise':
            continue
        ex = StrExec({'rate_string': Hole('FORMULA'), 'kl_formula': Hole('FORMULA')}, ())
        for e in p_.stmts():
            if isinstance(e.node, (ast.Assign, ast.AugAssign)):
                ex.stmt(e.node)
        pp = ex.env.get('propensity_params', UNKNOWN)
        if not (isinstance(pp, dict) and pp.get('type') == 'general' and pp.get('rate') == 'FORMULA' and set(pp) == {'type', 'rate'}):
            un.append('an un-annotated reaction gets %r [%s]' % (pp, paths.describe(p_, 3)))
    ctx.ob(rule, 'unannotated-is-general', not un, where,
           "a reaction without a PropensityType annotation is read as ('general', {'rate': formula of its kinetic law}) on every path",
           '; '.join(sorted(set(un))[:2]))


def check_species(ctx):
    import sympy as sp
    from .. import symx
    f = func(ctx, 'import_sbml_species')
    loops = [s for s in f.body if isinstance(s, ast.For)]
    problems = []
    if len(loops) != 1:
        raise AnalysisError('import_sbml_species: loop not found')
    lp = loops[0]
    v = src(lp.target)
    skips = [s_ for s_ in lp.body if isinstance(s_, ast.If) and any(isinstance(x, ast.Continue) for x in ast.walk(s_))]
    body = [s_ for s_ in lp.body if s_ not in skips]
    for sk in skips:
        names = {n.id for n in ast.walk(sk.test) if isinstance(n, ast.Name)}
        lits = util.eq_literals(sk.test, sorted(names)[0]) if len(names) == 1 else None
        if not (lits is not None and sorted(lits) == ['t', 'volume'] and not sk.orelse):
            problems.append('species are skipped under the condition `%s` (only the keywords volume / t may be skipped)' % src(sk.test))
    for n in ast.walk(lp):
        if isinstance(n, (ast.Continue, ast.Break)) and not any(n in ast.walk(sk) for sk in skips):
            problems.append('the species loop is cut short at line %d' % n.lineno)
    A, C = sp.Symbol('A', real=True), sp.Symbol('C', real=True)
    FA, FC = sp.Symbol('FA', real=True), sp.Symbol('FC', real=True)

    def call(n, env, se):
        t = src(n).replace(' ', '')
        if t == '%s.getInitialAmount()' % v:
            return A
        if t == '%s.getInitialConcentration()' % v:
            return C
        if t == 'np.isfinite(%s.getInitialAmount())' % v:
            return sp.Ne(FA, 0)
        if t == 'np.isfinite(%s.getInitialConcentration())' % v:
            return sp.Ne(FC, 0)
        if isinstance(n, ast.Call) and src(n.func) in ('np.isfinite', 'numpy.isfinite', 'math.isfinite') and len(n.args) == 1:
            a = se.ex(n.args[0], env)       # a local holding one of the two getters' results
            if a == A:
                return sp.Ne(FA, 0)
            if a == C:
                return sp.Ne(FC, 0)
        return None
    se = symx.SymExec(None, None, call=call)
    g = ast.FunctionDef(name='g', args=ast.arguments(posonlyargs=[], args=[], kwonlyargs=[], kw_defaults=[], defaults=[]), body=body, decorator_list=[], type_params=[])
    try:
        final, _ = se.run_env(g, {})
    except AnalysisError as e:
        raise AnalysisError('import_sbml_species: %s' % e)
    key = [k_ for k_ in (final or {}) if k_.replace(' ', '').startswith('allspecies[')]
    if len(key) != 1:
        problems.append('the species value is not stored under its id')
    else:
        val = final[key[0]]
        for fa in (0, 1):
            for fc in (0, 1):
                for av in (0, 3):
                    got = val.subs({FA: fa, FC: fc}).subs({A: av, C: 7})
                    got = sp.simplify(got)
                    v0 = av if fa else 0
                    exp = 7 if (fc and v0 == 0) else v0
                    if got != exp:
                        problems.append('amount %s, concentration %s: value %s, expected %s' % (av if fa else 'unset', 7 if fc else 'unset', got, exp))
    ctx.ob('R13.5-initial-values', 'import_sbml_species', not problems, ctx.loc('sbmlutil', f),
           'value = amount if finite; the concentration is used only if finite and the value is still 0', '; '.join(sorted(set(problems))[:3]))
    # C13 only needs the value to be read at all: a parameter that is the target of an (always repeated, un-annotated) assignment rule is
    # overwritten by that rule, so skipping its value attribute would not change an imported plain document.  The strict per-path form
    # below is what the round trip (C12) needs, where rules can be scheduled or self-referential.
    f = func(ctx, 'import_sbml_parameters')
    txt = [util.stmt_key(s).replace(' ', '') for s in ast.walk(f) if isinstance(s, ast.stmt)]
    fdefs = {n_: v_ for n_, v_ in util.single_defs(f).items() if v_ is not None}
    stores = [src(util.inline(n_.value, fdefs)).replace(' ', '') for n_ in ast.walk(f) if isinstance(n_, ast.Assign)
              and isinstance(n_.targets[0], ast.Subscript) and src(n_.targets[0].value) == 'allparams']
    ok = 'p.getValue()' in stores and 'pid=p.getId()' in txt
    ctx.ob('R13.5-initial-values', 'import_sbml_parameters', ok, ctx.loc('sbmlutil', f), 'global parameters keep their finite values', '')
    # ... and per path: nothing but the finiteness of the value attribute (and being the variable of an assignment rule) decides it
    check_parameter_values(ctx, 'R13.5-initial-values', 'import_sbml_parameters/per-path', assignment_targets_free=True)


def check_parameter_values(ctx, rule='R13.5-initial-values', key='import_sbml_parameters', assignment_targets_free=False):
    """every global parameter is entered under its id with its value attribute (0.0 only if that is not finite) - on every path.
    With assignment_targets_free (C13: a plain document, whose assignment rules are always repeated) a path on which the parameter is known
    to be the variable of an assignment rule may store anything: the rule overwrites it before it is ever read."""
    from .. import paths
    f = func(ctx, 'import_sbml_parameters')
    loops = [s for s in f.body if isinstance(s, ast.For) and 'getListOfParameters' in src(s.iter)]
    if len(loops) != 1:
        raise AnalysisError('import_sbml_parameters: loop over the parameters not found')
    lp = loops[0]
    v = src(lp.target)
    problems = []
    ps = paths.Enumerator().run(lp.body, paths.State())
    ctx.paths += len(ps)
    k_ = lambda t: t.replace(' ', '')
    wrap = ast.FunctionDef(name='_body', args=ast.arguments(posonlyargs=[], args=[], kwonlyargs=[], kw_defaults=[], defaults=[]),
                           body=lp.body, decorator_list=[], type_params=[])
    defs = {n_: v_ for n_, v_ in util.single_defs(wrap).items() if v_ is not None and src(v_).replace(' ', '') == '%s.getValue()' % v}
    for p in ps:
        tests = {k_(util.canon_test(util.inline(e.node, defs))): e.info for e in p.events if e.kind == 'test'}
        stores = [e.node for e in p.stmts() if isinstance(e.node, ast.Assign) and isinstance(e.node.targets[0], ast.Subscript)
                  and src(e.node.targets[0].value) == 'allparams']
        if assignment_targets_free:
            tgt = [t for t in tests if 'getAssignmentRuleByVariable(' in t and (t.endswith('isnotNone') or t.endswith('is notNone') or t.endswith('isNone'))
                   and 'and' not in t and 'or' not in t]
            if any(tests[t] == (not t.endswith('isNone')) for t in tgt):
                if p.exit in ('fall', 'continue') and [e.node for e in p.stmts() if isinstance(e.node, ast.Assign) and isinstance(e.node.targets[0], ast.Subscript)
                                                       and src(e.node.targets[0].value) == 'allparams']:
                    continue        # the variable of an assignment rule: its stored value is never read
            tests = {t: b for t, b in tests.items() if t not in tgt}
        core = lambda t: t[3:] if t.startswith('not') else t
        fin = [t for t in tests if core(t) in ('np.isfinite(%s.getValue())' % v, 'numpy.isfinite(%s.getValue())' % v, 'math.isfinite(%s.getValue())' % v)]
        last = k_(src(util.inline(stores[-1].value, defs))) if stores else None
        idv = None
        if stores and isinstance(stores[-1].targets[0].slice, ast.Name):
            d = [e.node for e in p.stmts() if isinstance(e.node, ast.Assign) and src(e.node.targets[0]) == stores[-1].targets[0].slice.id]
            idv = k_(src(d[-1].value)) if d else None
        desc = paths.describe(p, 4)
        if p.exit not in ('fall', 'continue') or not stores or idv != '%s.getId()' % v:
            problems.append('a path does not enter the parameter under its id [%s]' % desc)
        elif len(fin) != 1 or len(tests) != 1:
            problems.append('a path decides the value by other conditions than the finiteness of the value attribute [%s]' % desc)
        elif tests[fin[0]] != (not fin[0].startswith('not')) and last not in ('0.0', '0'):
            problems.append('a non-finite value is stored as %s [%s]' % (last, desc))
        elif tests[fin[0]] == (not fin[0].startswith('not')) and last != '%s.getValue()' % v:
            problems.append('a finite value attribute is not what is stored (%s) [%s]' % (last, desc))
    ctx.ob(rule, key, not problems, ctx.loc('sbmlutil', f),
           'every global parameter gets its value attribute (0.0 only when that is not finite), whatever else the document says about it'
           + (' - except a parameter known to be the variable of an assignment rule' if assignment_targets_free else ''),
           '; '.join(sorted(set(problems))[:3]))


class Obj(dict):
    """a sample libsbml object: method name -> value, or a function of the evaluated arguments"""


def check_sample_documents(ctx):
    """import_sbml_reactions evaluated (templates.StrExec; helpers of the module are followed) on small sample documents without
    annotations: the reaction tuple must carry the stoichiometry-expanded species lists and a rate that is the document's kinetic law."""
    import sympy as sp
    from ..templates import StrExec, Hole, UNKNOWN
    from . import c12
    f = func(ctx, 'import_sbml_reactions')
    where = ctx.loc('sbmlutil', f)
    funcs = c12._module_funcs(ctx)
    samples = {
        'order-differs-from-stoichiometry': ([('A', 2), ('B', 1)], [('C', 1)], 'k1*A*B'),
        'saturating-law': ([('A', 1)], [('A', 1), ('B', 3)], 'k1*A/(K+A)'),
        'plain-mass-action': ([('A', 1), ('B', 1)], [('C', 2)], 'k1*A*B'),
        'repeated-species-reference': ([('A', 1), ('A', 1)], [('C', 1), ('B', 1), ('C', 2)], 'k1*A*A'),
        # a law that takes negative values (reversible="false" is only a hint in SBML: the law's value is the rate, whatever its sign)
        'law-with-negative-values': ([('A', 1)], [('B', 2)], 'k1*(A-B)'),
    }
    for label, (reac, prod, law) in samples.items():
        species = {'A': 1.0, 'B': 2.0, 'C': 0.0}
        params = {'k1': 2.0, 'K': 5.0}

        def ref(sid, st):
            return Obj(getSpecies=sid, getStoichiometry=float(st), getId=Hole('REF'), isSetStoichiometry=True, getConstant=True)
        kl = Obj(getListOfParameters=[], getListOfLocalParameters=[], getMath=Hole('MATH'), getFormula=law, getNumParameters=0, getNumLocalParameters=0)
        reaction = Obj(getKineticLaw=kl, getListOfReactants=[ref(*r) for r in reac], getListOfProducts=[ref(*r) for r in prod], getListOfModifiers=[],
                       getAnnotationString='', getId='r0', getReversible=False, isSetKineticLaw=True, getListOfAllElements=[],
                       getNumReactants=len(reac), getNumProducts=len(prod))
        model = Obj(getListOfReactions=[reaction], getSpecies=lambda a: Obj(getId=a[0], getName=a[0]) if a and isinstance(a[0], str) else None,
                    getNumReactions=1)

        def hook(n, ex):
            if isinstance(n.func, ast.Attribute):
                recv = ex.ev(n.func.value)
                if isinstance(recv, Obj):
                    if n.func.attr not in recv:
                        return None
                    v = recv[n.func.attr]
                    return v([ex.ev(a) for a in n.args]) if callable(v) else v
                nm = src(n.func)
                if nm.endswith('formulaToL3String') or nm.endswith('formulaToString'):
                    return law
                if nm.endswith('.isfinite') and len(n.args) == 1:
                    v = ex.ev(n.args[0])
                    return True if isinstance(v, (int, float)) else None
                if nm.startswith('warnings.'):
                    return 0
            return None
        pn = [a.arg for a in f.args.args]
        env = {pn[0]: model, pn[1]: dict(species), pn[2]: dict(params)}
        for nm in pn[3:]:
            env[nm] = False
        ex = c12._reader_exec(funcs, hook, env, set(pn[3:]) | {pn[0]})
        ex.local_names = c12.assigned_names(f.body) - set(pn)
        ex.run(f.body)
        r = ex.returned
        problems = []
        if ex.aborted:
            problems.append('the importer %s' % ex.aborted)
        elif not (isinstance(r, list) and r and isinstance(r[0], list) and len(r[0]) == 1 and isinstance(r[0][0], list) and len(r[0][0]) >= 4):
            raise AnalysisError('import_sbml_reactions: the reaction tuple for the sample document %s could not be evaluated (%r)' % (label, r))
        else:
            rx = r[0][0]
            want_r = [sid for sid, st in reac for _ in range(st)]
            want_p = [sid for sid, st in prod for _ in range(st)]
            if any(v is UNKNOWN for v in rx[:3]) or not isinstance(rx[3], dict) or any(v is UNKNOWN for v in rx[3].values()):
                raise AnalysisError('import_sbml_reactions: the reaction tuple for the sample document %s could not be evaluated (%r)' % (label, rx))
            if rx[0] != want_r or rx[1] != want_p:
                problems.append('reactants %r / products %r, the document says %r / %r' % (rx[0], rx[1], want_r, want_p))
            loc = {nm: sp.Symbol(nm, real=True) for nm in list(species) + list(params)}
            loc.update({'max': sp.Max, 'min': sp.Min, 'abs': sp.Abs, 'Heaviside': sp.Heaviside})
            want = sp.sympify(law, locals=loc)
            if rx[2] == 'general' and rx[3].get('type') == 'general':
                try:
                    got = sp.sympify(str(rx[3].get('rate')).replace('^', '**'), locals=loc)
                except Exception:
                    got = None
            elif rx[2] == 'massaction' and rx[3].get('type') == 'massaction' and str(rx[3].get('k')) in params:
                # Model.create_reaction fills the species of a mass action propensity from the reactants unless they are given
                sp_list = rx[3]['species'].split('*') if isinstance(rx[3].get('species'), str) else rx[0]
                got = loc[str(rx[3]['k'])]
                for sid in sp_list:
                    got = got * loc.get(sid.strip(), sp.Symbol(sid.strip()))
            else:
                raise AnalysisError('import_sbml_reactions: an un-annotated reaction becomes a %r propensity %r - its rate is not decided by this rule' % (rx[2], rx[3]))
            if got is None or sp.simplify(got - want) != 0:
                problems.append("kinetic law %s is imported as a '%s' propensity with rate %s" % (law, rx[2], got))
            if len(rx) == 8 and any(v is UNKNOWN for v in rx[4:]):
                raise AnalysisError('import_sbml_reactions: the delay fields for the sample document %s could not be evaluated (%r)' % (label, rx[4:]))
            if len(rx) == 8 and any(v is not None for v in rx[4:]):
                problems.append('a delay %r appears from nowhere' % (rx[4:],))
        ctx.ob('R13.7-sample-document', label, not problems, where,
               'the importer, evaluated on a sample document (reactants %s, products %s, kinetic law %s), returns the expanded species lists and a '
               'propensity whose rate is that law' % (reac, prod, law), '; '.join(problems))


def check_every_reaction_kept(ctx, f, lp):
    """Every reaction element of the document becomes a reaction of the model: the loop over getListOfReactions appends one tuple on
    every pass that reaches its end - the append is not under a condition, and no pass is cut short by continue / break."""
    problems = []
    ret = [r for r in ast.walk(f) if isinstance(r, ast.Return) and r.value is not None]
    lists = set()
    for r in ret:
        for e in (r.value.elts if isinstance(r.value, ast.Tuple) else [r.value]):
            if isinstance(e, ast.Name):
                lists.add(e.id)
    apps = [c for c in ast.walk(lp) if isinstance(c, ast.Call) and isinstance(c.func, ast.Attribute) and c.func.attr in ('append', 'insert', 'extend')
            and isinstance(c.func.value, ast.Name) and c.func.value.id in lists and 'reaction' in c.func.value.id]
    # (`L += [rxn]` stores as well)
    apps += [n_ for n_ in ast.walk(lp) if isinstance(n_, ast.AugAssign) and isinstance(n_.op, ast.Add) and isinstance(n_.target, ast.Name)
             and n_.target.id in lists and 'reaction' in n_.target.id]
    if not apps:
        raise AnalysisError('import_sbml_reactions: the statement that stores the imported reaction was not found')
    for c in apps:
        cur = c
        while getattr(cur, '_parent', None) is not None and cur is not lp:
            par = cur._parent
            if isinstance(par, (ast.If, ast.While)) or (isinstance(par, ast.For) and par is not lp) or isinstance(par, ast.Try):
                problems.append('`%s` (%s) runs only under `%s`' % (src(c)[:50], ctx.loc('sbmlutil', c),
                                                                     src(par.test)[:60] if isinstance(par, (ast.If, ast.While)) else type(par).__name__))
                break
            cur = par
    def direct(stmts):
        for st in stmts:
            if isinstance(st, (ast.Continue, ast.Break)):
                yield st
            elif isinstance(st, ast.If):
                yield from direct(st.body)
                yield from direct(st.orelse)
            elif isinstance(st, ast.Try):
                yield from direct(st.body + st.orelse + st.finalbody + [y for h in st.handlers for y in h.body])
    for st in direct(lp.body):
        problems.append('a pass over a reaction is cut short by `%s` (%s)' % (type(st).__name__.lower(), ctx.loc('sbmlutil', st)))
    ctx.ob('R13.3-stoichiometry', 'every-reaction-kept', not problems, ctx.loc('sbmlutil', lp),
           'each reaction element of the document contributes a reaction to the model (none is skipped or merged with an earlier one)',
           '; '.join(problems[:2]))


def check_assembly(ctx):
    f = func(ctx, 'import_sbml')
    txt = [util.stmt_key(s).replace(' ', '') for s in ast.walk(f) if isinstance(s, ast.stmt)]
    need = ['allspecies=import_sbml_species(model)', 'allparams=import_sbml_parameters(model)',
            'allreactions,allspecies=import_sbml_reactions(model,allspecies,allparams,input_printout,sbml_warnings)',
            'allrules,allreactions=import_sbml_rules(model,allspecies,allparams,allreactions,input_printout)',
            'bioscrape_model._add_species(species)', 'bioscrape_model._add_param(param)', 'bioscrape_model.set_parameter(param,val)',
            'reactants,products,propensity_type,propensity_param_dict,delay_type,delay_reactants,delay_products,delay_param_dict=rxn',
            'bioscrape_model.set_species(allspecies)', 'bioscrape_model.py_initialize()', 'rule_type,rule_attributes,rule_frequency=rule']
    miss = [n for n in need if n not in txt]
    calls = [c for c in util.calls_in(f, suffix='create_reaction')]
    ok = len(calls) == 1 and [src(a) for a in calls[0].args] == ['reactants', 'products', 'propensity_type', 'propensity_param_dict', 'delay_type',
                                                               'delay_reactants', 'delay_products', 'delay_param_dict']
    rc = [c for c in util.calls_in(f, suffix='create_rule') if any(k.arg == 'rule_frequency' and src(k.value) == 'rule_frequency' for k in c.keywords)]
    ctx.ob('R13.6-assembly', 'import_sbml', not miss and ok and len(rc) == 1, ctx.loc('sbmlutil', f),
           'all species, parameter values, the 8 reaction fields in order and the rule tuples with their frequency reach the model',
           str(miss) if miss else '')
    # names are classified when a formula is compiled: a document parameter called `t` or `volume` is the document's parameter only if it
    # is in the model before the reactions (kinetic laws, rate rules) and rules are created.  import_sbml's own loops do that; the Model
    # constructor creates reactions first, so the model is never assembled by handing the imported pieces to Model(...)
    prob = []
    for c in ast.walk(f):
        if isinstance(c, ast.Call) and src(c.func).split('.')[-1] == 'Model' and (c.args or c.keywords):
            # (only what makes the constructor compile formulas matters: reactions, rules or a file to read; empty lists do not)
            _dc, init = ctx.prog.resolve_method('Model', '__init__')
            names = [a.arg for a in init.args.args[1:]] if init is not None else []
            given = {names[i] if i < len(names) else '*%d' % i: a for i, a in enumerate(c.args)}
            given.update({k_.arg or '**': k_.value for k_ in c.keywords})
            empty = lambda v: (isinstance(v, (ast.List, ast.Tuple)) and not v.elts) or (isinstance(v, ast.Constant) and v.value is None)
            if not any(not empty(v) for n_, v in given.items() if n_ in ('filename', 'sbml_filename', 'reactions', 'rules', '**') or n_.startswith('*')):
                continue
            prob.append('`%s` (%s) builds the model through the constructor, which creates reactions before parameters' % (src(c)[:70], ctx.loc('sbmlutil', c)))
    top = {}
    for c in ast.walk(f):       # (the assembly is straight-line code with loops: source order is execution order)
        if isinstance(c, ast.Call) and isinstance(c.func, ast.Attribute) and c.func.attr in ('_add_param', 'set_parameter', 'create_reaction', 'create_rule'):
            top.setdefault(c.func.attr, []).append(c.lineno)
    if top.get('_add_param') and top.get('create_reaction') and max(top['_add_param']) >= min(top['create_reaction']):
        prob.append('parameters are added after reactions have been created')
    if top.get('_add_param') and top.get('create_rule') and max(top['_add_param']) >= min(top['create_rule']):
        prob.append('parameters are added after rules have been created')
    ctx.ob('R13.6-assembly', 'parameters-first', not prob, ctx.loc('sbmlutil', f),
           'every document parameter is in the model before any kinetic law or rule formula is compiled against it', '; '.join(prob[:2]))


def check(ctx):
    ctx.prog.mod('sbmlutil')
    f, lp, ps = check_leaks(ctx, 'import_sbml_rules', 'getListOfRules', want_paths=True)
    check_rules(ctx, f, lp, ps)
    f2, lp2, ps2 = check_leaks(ctx, 'import_sbml_reactions', 'getListOfReactions')
    check_stoichiometry(ctx, f2, lp2)
    check_every_reaction_kept(ctx, f2, lp2)
    check_local_params(ctx, f2, lp2)
    check_species(ctx)
    check_assembly(ctx)
    # "kinetic laws over the supported operator set": the importer hands bioscrape the text libsbml prints for the document's MathML
    from . import c14
    c14.check_printer_language(ctx, 'R13.8-printer-language', 'import_sbml_reactions', 'kinetic-law')
    c14.check_printer_language(ctx, 'R13.8-printer-language', 'import_sbml_rules', 'rule')
    ctx.floor('R13.8-printer-language', 6)
    try:
        check_sample_documents(ctx)
        ctx.floor('R13.7-sample-document', 5)
    except AnalysisError as e:
        # the evaluation could not be carried through.  If the other rules already report violations those are what the run reports;
        # otherwise the run fails closed.
        if not any(not o.ok for o in ctx.obs):
            raise
        ctx.note('R13.7-sample-document not decided: %s' % e)
        ctx.floors.pop('R13.7-sample-document', None)
    ctx.floor('R13.1-no-leak', 10)
    ctx.floor('R13.2-rule-translation', 2)
    ctx.floor('R13.3-stoichiometry', 3)
