"""C20 - the delay queue delivers each entry once, in order, at the nearest grid time.

Invariant: slot (start_index + j) mod num_cols holds what is due at next_queue_time + j*dt.
R20.1 add_reaction: slot = nearest integer to (time - next_queue_time)/dt, clamped to
[0, num_cols-1], shifted by start_index modulo num_cols; the store accumulates.
R20.2 delivery: get_next_reactions copies column start_index for all reactions; advance_time adds
dt, zeroes exactly that column for all reactions, then advances start_index modulo num_cols.
R20.3 set_current_time sets next_queue_time = t + dt and nothing else.
R20.4 copies: copy / clear_copy carry every declared attribute and never write self;
binomial_partition splits every cell into binom(cell, p) and the remainder on clear copies.
"""
import ast

import sympy as sp
from sympy.core.function import AppliedUndef

from .. import symx, util
from ..front import AnalysisError, src

EXPLANATION = __doc__
ASSUMPTIONS = ['requested times are never exactly half-way between two grid points (property side-condition)']
CLS = 'ArrayDelayQueue'


def key(t):
    return t.replace(' ', '')


def check_add(ctx):
    f = ctx.fn('simulator:%s.add_reaction' % CLS)
    where = ctx.loc('simulator', f)
    a = [x.arg for x in f.args.args[1:]]
    if len(a) != 3:
        raise AnalysisError('add_reaction signature changed')
    time, rxn, amount = a
    problems = []
    # the accumulate store
    stores = [n for n in ast.walk(f) if isinstance(n, (ast.Assign, ast.AugAssign))
              and src((n.targets[0] if isinstance(n, ast.Assign) else n.target)).startswith('self.queue[')]
    if len(stores) != 1:
        raise AnalysisError('add_reaction: expected one store into self.queue')
    st = stores[0]
    if not (isinstance(st, ast.AugAssign) and isinstance(st.op, ast.Add) and src(st.value) == amount):
        problems.append('the store is `%s`; entries must accumulate (+= %s)' % (util.stmt_key(st), amount))
    tgt = st.target if isinstance(st, ast.AugAssign) else st.targets[0]
    idx = tgt.slice.elts if isinstance(tgt.slice, ast.Tuple) else []
    if len(idx) != 2 or src(idx[0]) != rxn:
        problems.append('row index is not the reaction id')
    # symbolic slot index
    se = symx.SymExec(ctx.prog, CLS)
    tsym = sp.Symbol('T', real=True)
    env = {time: tsym}
    body = [s for s in f.body if s is not st]
    import copy
    g = copy.copy(f)
    g.body = body
    final, _ = se.run_env(g, env)
    if final is None or len(idx) != 2:
        raise AnalysisError('add_reaction: control flow not understood')
    slot = se.ex(idx[1], final)
    nqt, dt, start, ncols = (sp.Symbol('self.next_queue_time', real=True), sp.Symbol('self.dt', real=True),
                             sp.Symbol('self.start_index', real=True), sp.Symbol('self.num_cols', real=True))
    # recognise the rounding idiom(s)
    raw_calls = [x for x in slot.atoms(AppliedUndef) if x.func.__name__ in ('int', 'round', 'np.round', 'lround')] + \
                [x for x in slot.atoms(sp.floor)]
    raws = [x for x in raw_calls if x.has(tsym)]
    if not raws:
        problems.append('no rounding of (time - next_queue_time)/dt found in the slot index %s' % slot)
    else:
        E = (tsym - nqt) / dt
        for rw in set(raws):
            arg = rw.args[0]
            nm = rw.func.__name__ if isinstance(rw, AppliedUndef) else 'floor'
            want = E + sp.Rational(1, 2) if nm in ('int', 'floor') else E
            if sp.simplify(arg - want) != 0:
                problems.append('slot offset is %s(%s); nearest-slot rounding needs %s(%s)' % (nm, arg, nm, want))
        if not problems or all('slot offset' not in p for p in problems):
            N = 4
            for r in (-3, -1, 0, 1, N - 1, N, N + 3):
                for s0 in range(N):
                    def rep(e):
                        if e.has(tsym):
                            return sp.Integer(r)
                        return e.args[0]
                    v = slot.replace(lambda e: (isinstance(e, AppliedUndef) and e.func.__name__ in ('int', 'round', 'np.round', 'lround'))
                                     or isinstance(e, sp.floor), rep)
                    v = v.xreplace({ncols: sp.Integer(N), start: sp.Integer(s0)})
                    v = sp.simplify(v)
                    exp = (min(max(r, 0), N - 1) + s0) % N
                    if v != exp:
                        problems.append('offset %d with %d slots and start_index %d goes to slot %s, expected %d' % (r, N, s0, v, exp))
                        break
                else:
                    continue
                break
    ctx.ob('R20.1-add', 'slot', not problems, where,
           'an entry goes to slot (clamp(round((time-next_queue_time)/dt), 0, num_cols-1) + start_index) mod num_cols and accumulates',
           '; '.join(problems) or 'slot index %s' % slot)


def check_delivery(ctx):
    f = ctx.fn('simulator:%s.get_next_reactions' % CLS)
    out = f.args.args[1].arg
    loops = [s for s in f.body if isinstance(s, ast.For)]
    ok = len(loops) == 1 and key(src(loops[0].iter)) == 'range(self.num_reactions)' and \
        [key(util.stmt_key(x)) for x in loops[0].body] == ['%s[%s]=self.queue[%s,self.start_index]' % (out, src(loops[0].target), src(loops[0].target))] and \
        not [s for s in ast.walk(f) if isinstance(s, (ast.Assign, ast.AugAssign)) and 'self.' in src((s.targets[0] if isinstance(s, ast.Assign) else s.target))]
    ctx.ob('R20.2-delivery', 'get_next_reactions', ok, ctx.loc('simulator', f),
           'get_next_reactions copies column start_index for every reaction and changes nothing', '')
    f = ctx.fn('simulator:%s.advance_time' % CLS)
    problems = []
    seq = [s for s in f.body if not isinstance(s, (ast.AnnAssign,)) or s.value is not None]
    kinds = []
    for s in seq:
        t = key(util.stmt_key(s))
        if t in ('self.next_queue_time+=self.dt', 'self.next_queue_time=self.next_queue_time+self.dt'):
            kinds.append('time')
        elif isinstance(s, ast.For):
            ok = key(src(s.iter)) == 'range(self.num_reactions)' and \
                [key(util.stmt_key(x)) for x in s.body] in (['self.queue[%s,self.start_index]=0' % src(s.target)],
                                                           ['self.queue[%s,self.start_index]=0.0' % src(s.target)])
            kinds.append('clear' if ok else 'badloop:' + util.stmt_key(s))
        elif t in ('self.start_index=(self.start_index+1)%self.num_cols',):
            kinds.append('advance')
        elif t == 'self.queue[:,self.start_index]=0':
            kinds.append('clear')
        elif isinstance(s, ast.Expr) and isinstance(s.value, ast.Constant):
            continue
        else:
            kinds.append('other:' + t)
    if sorted(kinds) != ['advance', 'clear', 'time']:
        problems.append('advance_time performs %s; expected exactly: add dt, clear the delivered column, advance start_index modulo num_cols' % kinds)
    elif kinds.index('clear') > kinds.index('advance'):
        problems.append('start_index is advanced before the delivered column is cleared (clears the wrong column)')
    ctx.ob('R20.2-delivery', 'advance_time', not problems, ctx.loc('simulator', f),
           'advance_time: next_queue_time += dt; zero column start_index for all reactions; start_index = (start_index+1) % num_cols',
           '; '.join(problems))
    f = ctx.fn('simulator:%s.get_next_queue_time' % CLS)
    rets = [s for s in f.body if isinstance(s, ast.Return)]
    ctx.ob('R20.2-delivery', 'get_next_queue_time', len(rets) == 1 and src(rets[0].value) == 'self.next_queue_time',
           ctx.loc('simulator', f), 'get_next_queue_time reports the time of slot start_index', '')
    f = ctx.fn('simulator:%s.set_current_time' % CLS)
    t = f.args.args[1].arg
    body = [key(util.stmt_key(s)) for s in f.body if not (isinstance(s, ast.Expr) and isinstance(s.value, ast.Constant))]
    ctx.ob('R20.3-set-time', 'set_current_time', body in (['self.next_queue_time=%s+self.dt' % t], ['self.next_queue_time=self.dt+%s' % t]),
           ctx.loc('simulator', f), 'set_current_time sets next_queue_time = t + dt and touches nothing else', str(body))
    f = ctx.fn('simulator:%s.__init__' % CLS)
    body = set(key(util.stmt_key(s)) for s in f.body)
    a = [x.arg for x in f.args.args[1:]]
    want = {'self.num_reactions=%s.shape[0]' % a[0], 'self.num_cols=%s.shape[1]' % a[0], 'self.queue=%s' % a[0],
            'self.dt=%s' % a[1], 'self.start_index=0'}
    ok = want <= body and ('self.next_queue_time=%s+%s' % (a[2], a[1]) in body or 'self.next_queue_time=%s+%s' % (a[1], a[2]) in body)
    ctx.ob('R20.3-set-time', '__init__', ok, ctx.loc('simulator', f),
           'a new queue has rows=reactions, cols=slots, start_index 0 and first slot at current_time + dt', str(sorted(body - want)))


def check_copies(ctx):
    prog = ctx.prog
    attrs = prog.cls(CLS).attrs
    if len(attrs) < 6:
        raise AnalysisError('ArrayDelayQueue attribute declarations not found (%s)' % sorted(attrs))
    for meth, qexp in (('copy', ('self.queue.copy()', 'np.copy(self.queue)', 'np.array(self.queue)')),
                       ('clear_copy', ('np.zeros((self.num_reactions,self.num_cols))', 'np.zeros(self.queue.shape)',
                                       'np.zeros_like(self.queue)', 'np.zeros((self.queue.shape[0],self.queue.shape[1]))'))):
        f = ctx.fn('simulator:%s.%s' % (CLS, meth))
        problems = []
        new = None
        ctor_args = None
        for s in f.body:
            if isinstance(s, (ast.AnnAssign, ast.Assign)) and s.value is not None and isinstance(s.value, ast.Call) \
                    and src(s.value.func) == CLS:
                new = src(s.target if isinstance(s, ast.AnnAssign) else s.targets[0])
                ctor_args = [key(src(x)) for x in s.value.args]
        if new is None:
            raise AnalysisError('%s: construction of the new queue not found' % meth)
        assigned = {}
        for s in ast.walk(f):
            if isinstance(s, ast.Assign) and isinstance(s.targets[0], ast.Attribute):
                base = src(s.targets[0].value)
                if base == new:
                    assigned[s.targets[0].attr] = key(src(s.value))
                elif base == 'self':
                    problems.append('%s writes self.%s' % (meth, s.targets[0].attr))
            if isinstance(s, (ast.Assign, ast.AugAssign)):
                t = s.targets[0] if isinstance(s, ast.Assign) else s.target
                if isinstance(t, ast.Subscript) and src(t.value).startswith('self.'):
                    problems.append('%s writes into %s' % (meth, src(t.value)))
        from_ctor = {}
        if ctor_args and len(ctor_args) == 3:
            if ctor_args[0] == 'self.queue':
                from_ctor['num_reactions'] = 'self.num_reactions'
                from_ctor['num_cols'] = 'self.num_cols'
            if ctor_args[1] == 'self.dt':
                from_ctor['dt'] = 'self.dt'
        for a in sorted(attrs):
            if a == 'queue':
                if assigned.get('queue') not in qexp:
                    problems.append('%s: new queue array is %s' % (meth, assigned.get('queue')))
                continue
            got = assigned.get(a, from_ctor.get(a))
            if got != 'self.' + a:
                problems.append('%s: attribute %s of the new queue is %s, not self.%s' % (meth, a, got, a))
        rets = [s for s in f.body if isinstance(s, ast.Return)]
        if len(rets) != 1 or src(rets[0].value) != new:
            problems.append('%s does not return the new queue' % meth)
        ctx.ob('R20.4-copies', meth, not problems, ctx.loc('simulator', f),
               '%s carries all %d declared attributes to the new queue (%s) and leaves self unchanged'
               % (meth, len(attrs), 'same contents' if meth == 'copy' else 'zero contents, same shape'), '; '.join(problems))
    f = util.inline_pure_temps(ctx.fn('simulator:%s.binomial_partition' % CLS))
    problems = []
    p = f.args.args[1].arg
    simple = [(src(s.targets[0]), s.value) for s in f.body if isinstance(s, ast.Assign) and isinstance(s.targets[0], ast.Name)] + \
             [(src(s.target), s.value) for s in f.body if isinstance(s, ast.AnnAssign) and s.value is not None]
    copies = [t for t, v in simple if key(src(v)) == 'self.clear_copy()']
    if len(copies) != 2:
        problems.append('the two parts are not both clear copies of self: %s' % copies)
    else:
        q1, q2 = copies
        env = {}
        for t, v in simple:
            env[t] = key(src(v))
        loops = [s for s in f.body if isinstance(s, ast.For)]
        if len(loops) != 1 or not isinstance(loops[0].body[0], ast.For):
            problems.append('cell loop nest not found')
        else:
            outer, inner = loops[0], loops[0].body[0]
            rng = {}
            for lp in (outer, inner):
                it = key(src(lp.iter))
                b = it[len('range('):-1]
                rng[src(lp.target)] = env.get(b, b)
            dims = sorted(rng.values())
            okd = [sorted(['%s.queue.shape[0]' % q, '%s.queue.shape[1]' % q]) for q in (q1, q2, 'self')] + \
                  [sorted(['self.num_reactions', 'self.num_cols'])]
            if dims not in okd:
                problems.append('loops range over %s, not over all (reaction, slot) cells' % rng)
            tv = {v: k for k, v in rng.items()}
            body = [key(util.stmt_key(x)) for x in inner.body]
            # identify row/col variables from the self.queue subscript
            rows = [k for k, v in rng.items() if v.endswith('shape[0]') or v.endswith('num_reactions')]
            cols = [k for k, v in rng.items() if v.endswith('shape[1]') or v.endswith('num_cols')]
            if len(rows) == 1 and len(cols) == 1:
                r, c = rows[0], cols[0]
                w1 = '%s.queue[%s,%s]=cyrandom.binom_rnd_f(self.queue[%s,%s],%s)' % (q1, r, c, r, c, p)
                w2 = '%s.queue[%s,%s]=self.queue[%s,%s]-%s.queue[%s,%s]' % (q2, r, c, r, c, q1, r, c)
                if body != [w1, w2]:
                    problems.append('cell split is %s; expected part1 = binom(cell, p), part2 = cell - part1' % body)
        for s in ast.walk(f):
            if isinstance(s, (ast.Assign, ast.AugAssign)):
                t = s.targets[0] if isinstance(s, ast.Assign) else s.target
                if src(t).startswith('self.'):
                    problems.append('binomial_partition writes %s' % src(t))
    ctx.ob('R20.4-copies', 'binomial_partition', not problems, ctx.loc('simulator', f),
           'every cell is split into binom(cell, p) and the remainder on two clear copies; self is not written', '; '.join(problems))


def check(ctx):
    prog = ctx.prog
    prog.mod('simulator'); prog.mod('simulator.pxd')
    check_add(ctx)
    check_delivery(ctx)
    check_copies(ctx)
    # "every occurrence added ... is delivered exactly once": a queue starts empty and is its own object - setup_queue builds a fresh
    # (reactions x slots) array of zeros on every call (C10 R10.5-queue-setup), and the module keeps no queue between calls (C08 R8.7)
    from ..core import SubCtx
    from . import c10, c08
    for m_ in ('types', 'types.pxd', 'random', 'lineage', 'lineage.pxd', 'inference'):
        prog.mod(m_)
    sub = SubCtx(ctx)
    c10.check_setup(sub)
    c08.check_pure_evaluation(sub)
    for rule, key, ok, where, what, detail in sub.got:
        if (rule == 'R10.5-queue-setup' and key == 'setup_queue') or (rule == 'R8.7-pure-evaluation' and key == 'module-state'):
            ctx.ob('R20.5-fresh-queue', '%s/%s' % (rule, key), ok, where, what, detail)
    ctx.floor('R20.1-add', 1)
    ctx.floor('R20.2-delivery', 3)
    ctx.floor('R20.4-copies', 3)
