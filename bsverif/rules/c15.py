"""C15 - the inference cost is the stated posterior on correctly aligned data.

R15.1 axis alignment: InferenceSetup.extract_data is interpreted over symbolic array shapes (axes
N trajectories, T time points, M measured species; a list filled in a loop stacks along a new
leading axis; np.reshape may only drop/insert unit axes - a permutation needs a transpose) for
the four shapes of input {list of frames, one frame} x {M == 1, M > 1}; the result must have
axes (N, T, M) in this order.
R15.2 name alignment: measured-species indices are looked up by name in the data's own species
order; the cost compares measurements[n, t, i] with the simulated ans[t, meas_indices[i]].
R15.3 cost formula: sum over all trajectories, all measured species, all time points of
|data - sim|^p, result -(.)^(1/p) (stochastic: / N_simulations), NaN -> -inf.
R15.4 per-trajectory set-up (time points, initial state, parameter condition) precedes each
simulation.
R15.5 an evaluation resets the parameters to the defaults, then sets theta, then evaluates;
the value is log-prior + cost; defaults are a copy taken at construction.
"""
import ast

import sympy as sp

from .. import paths, symx, util
from ..front import AnalysisError, src

EXPLANATION = __doc__
ASSUMPTIONS = ['pandas df.get(column) yields one value per time point (axis T)',
               'np.array of a list of equal-shape arrays stacks them along a new leading axis']


class Lst:
    def __init__(self, depth):
        self.depth = depth          # loop-nesting depth at creation
        self.elem = None
        self.count = []             # axis symbols contributed by appends


class ShapeError(Exception):
    pass


class ShapeInterp:
    def __init__(self, scenario, ctx_loc):
        self.sc = scenario          # {'list': bool, 'M1': bool}
        self.loops = []
        self.env = {}
        self.result = None
        self.problems = []
        self.loc = ctx_loc
        self.mvars = []             # loop variables currently ranging over self.measurements
        self.defs = {}              # name -> text of its last definition

    def sym(self, name):
        if name == 'M':
            return 1 if self.sc['M1'] else 'M'
        if name == 'N':
            return 'N' if self.sc['list'] else 1
        return name

    # ---- conditions
    def cond(self, t):
        if isinstance(t, ast.BoolOp):
            vals = [self.cond(v) for v in t.values]
            return all(vals) if isinstance(t.op, ast.And) else any(vals)
        if isinstance(t, ast.UnaryOp) and isinstance(t.op, ast.Not):
            return not self.cond(t.operand)
        s = src(t).replace(' ', '')
        table = {
            'type(exp_data)islist': self.sc['list'],
            'len(exp_data)==1': False,
            'type(exp_data)ispd.DataFrame': not self.sc['list'],
            'type(df)isnotpd.DataFrame': False,
            'self.time_column': True,
            'type(self.measurements)islist': True,
            'len(self.measurements)==1': self.sc['M1'],
            'len(self.measurements)>1': not self.sc['M1'],
            'len(self.measurements)>=2': not self.sc['M1'],
            'T!=len(timepoint_i)': False,
            'self.debug': False,
        }
        if s in table:
            return table[s]
        if s.startswith('isinstance(self.timepoints'):
            return False
        if isinstance(t, ast.Compare) and len(t.ops) == 1 and isinstance(t.ops[0], (ast.IsNot, ast.NotEq, ast.Is, ast.Eq)):
            flip = {ast.IsNot: ast.Is, ast.Is: ast.IsNot, ast.NotEq: ast.Eq, ast.Eq: ast.NotEq}[type(t.ops[0])]
            neg = src(ast.Compare(left=t.left, ops=[flip()], comparators=t.comparators)).replace(' ', '')
            if neg in table:
                return not table[neg]
        raise AnalysisError('extract_data: condition not understood by the shape analysis: %s' % src(t))

    # ---- shapes
    def dims(self, n):
        """a shape tuple written in the source"""
        if not isinstance(n, ast.Tuple):
            raise AnalysisError('reshape target is not a literal tuple: %s' % src(n))
        out = []
        for e in n.elts:
            if isinstance(e, ast.Constant) and e.value in (1, -1):
                out.append(1 if e.value == 1 else '?')
            elif isinstance(e, ast.Name) and e.id in self.env and isinstance(self.env[e.id], (str, int)):
                out.append(self.env[e.id])
            else:
                raise AnalysisError('reshape dimension %s has no known meaning' % src(e))
        return tuple(out)

    def shape(self, n):
        if isinstance(n, ast.Name):
            v = self.env.get(n.id)
            if isinstance(v, tuple):
                return v
            if isinstance(v, Lst):
                return v
            raise AnalysisError('shape of %s unknown' % n.id)
        if isinstance(n, ast.Attribute) and n.attr == 'T':
            return tuple(reversed(self.shape(n.value)))
        fs = self.frame_selection(n)
        if fs is not None:
            return fs
        if isinstance(n, ast.Call):
            f = src(n.func)
            if f in ('np.array', 'np.asarray', 'numpy.array'):
                a = n.args[0]
                if isinstance(a, ast.Call) and src(a.func).endswith('.get'):
                    return self.column(a, a.args[0] if a.args else None)
                if isinstance(a, ast.Subscript) and isinstance(a.value, ast.Name) and a.value.id in ('df', 'exp_data'):
                    return self.column(a, a.slice)
                v = self.shape(a)
                if isinstance(v, Lst):
                    if v.elem is None:
                        raise ShapeError('array built from an empty list')
                    return tuple(v.count) + tuple(v.elem)
                return v
            if f.endswith('.flatten') and isinstance(n.func, ast.Attribute):
                v = self.shape(n.func.value)
                return v if len(v) == 1 else ('*'.join(map(str, v)),)
            if f in ('np.reshape', 'numpy.reshape'):
                v = self.shape(n.args[0])
                tgt = self.dims(n.args[1])
                self.check_reshape(v, tgt, n)
                return tgt
            if isinstance(n.func, ast.Attribute) and n.func.attr == 'reshape':
                v = self.shape(n.func.value)
                tgt = self.dims(n.args[0] if len(n.args) == 1 else ast.Tuple(elts=n.args, ctx=ast.Load()))
                self.check_reshape(v, tgt, n)
                return tgt
            if f in ('np.transpose', 'numpy.transpose'):
                v = self.shape(n.args[0])
                if len(n.args) == 1 and not n.keywords:
                    return tuple(reversed(v))
                axes = n.args[1] if len(n.args) > 1 else [k.value for k in n.keywords if k.arg == 'axes'][0]
                perm = [e.value for e in axes.elts]
                return tuple(v[i] for i in perm)
            if isinstance(n.func, ast.Attribute) and n.func.attr == 'transpose':
                v = self.shape(n.func.value)
                if not n.args:
                    return tuple(reversed(v))
                perm = [e.value for e in (n.args[0].elts if isinstance(n.args[0], ast.Tuple) else n.args)]
                return tuple(v[i] for i in perm)
            if f in ('np.swapaxes', 'numpy.swapaxes'):
                v = list(self.shape(n.args[0]))
                i, j = n.args[1].value, n.args[2].value
                v[i], v[j] = v[j], v[i]
                return tuple(v)
            if f in ('np.moveaxis', 'numpy.moveaxis'):
                v = list(self.shape(n.args[0]))
                i, j = n.args[1].value, n.args[2].value
                x = v.pop(i)
                v.insert(j if j >= 0 else len(v) + 1 + j, x)
                return tuple(v)
            if f in ('np.stack', 'np.column_stack', 'numpy.stack'):
                v = self.shape(n.args[0])
                if not isinstance(v, Lst):
                    raise AnalysisError('np.stack of a non-list')
                axis = 0
                for k in n.keywords:
                    if k.arg == 'axis':
                        axis = util.const_num(k.value)
                if f.endswith('column_stack'):
                    axis = 1
                e = list(v.elem)
                pos = axis if axis >= 0 else len(e) + 1 + axis
                for c in reversed(v.count):
                    e.insert(pos, c)
                return tuple(e)
        raise AnalysisError('shape of %s unknown' % src(n))

    def column(self, node, key):
        """axes of frame.get(key) / frame[key]: the column must be named by the measured species (or be the time column)"""
        k = src(key).replace(' ', '') if key is not None else None
        if k == 'self.time_column':
            return ('T',)
        if k == 'self.measurements':
            return ('T', self.sym('M'))         # list indexing keeps the order of the list
        if k == 'self.measurements[0]' and self.sc['M1']:
            return ('T',)
        if self.mvars and k == self.mvars[-1]:
            return ('T',)
        self.problems.append('column selected by `%s` at %s: not by the name of the measured species in the order of self.measurements'
                             % (k, self.loc(node)))
        return ('T',)

    def frame_selection(self, n):
        """frame.loc[:, sel] / frame[sel] (.to_numpy() / .values): -> axes or None if n is not such a selection"""
        x = n
        if isinstance(x, ast.Call) and isinstance(x.func, ast.Attribute) and x.func.attr in ('to_numpy', 'copy'):
            x = x.func.value
        if isinstance(x, ast.Attribute) and x.attr == 'values':
            x = x.value
        if not isinstance(x, ast.Subscript):
            return None
        base, sel = x.value, x.slice
        if isinstance(base, ast.Attribute) and base.attr in ('loc', 'iloc') and isinstance(sel, ast.Tuple) and len(sel.elts) == 2 \
                and isinstance(sel.elts[0], ast.Slice):
            base, sel = base.value, sel.elts[1]
        if not (isinstance(base, ast.Name) and base.id in ('df', 'exp_data')):
            return None
        k = src(sel).replace(' ', '')
        if k in ('self.measurements', 'list(self.measurements)'):
            return ('T', self.sym('M'))
        d = self.defs.get(k)
        if 'isin(' in k or (d is not None and 'isin(' in d):
            raise ShapeError('columns selected by a membership mask (%s) at %s come in the order of the data frame, not in the order of '
                             'self.measurements: data are no longer matched to species by name' % (d or k, self.loc(n)))
        raise AnalysisError('extract_data: column selection %s not understood' % src(n))

    @staticmethod
    def core(shape):
        return tuple(a for a in shape if a != 1)

    def check_reshape(self, v, tgt, node):
        if isinstance(v, Lst):
            raise AnalysisError('reshape of a list')
        if '?' in tgt:
            return
        if self.core(v) != self.core(tgt):
            self.problems.append('np.reshape at %s turns axes %s into %s: reshape cannot permute axes (a transpose is needed), so species and time would be scrambled'
                                 % (self.loc(node), v, tgt))

    # ---- statements
    def run(self, stmts):
        for s in stmts:
            if self.result is not None:
                return
            self.stmt(s)

    def stmt(self, s):
        if isinstance(s, ast.Assign) and len(s.targets) == 1 and isinstance(s.targets[0], ast.Name):
            t = s.targets[0].id
            v = s.value
            if isinstance(v, ast.List) and not v.elts:
                self.env[t] = Lst(len(self.loops))
                return
            if isinstance(v, ast.ListComp) and len(v.generators) == 1 and not v.generators[0].ifs:
                # `t = [e for x in seq]` is `t = []` followed by `for x in seq: t.append(e)`
                g = v.generators[0]
                init = ast.copy_location(ast.Assign(targets=[ast.Name(id=t, ctx=ast.Store())], value=ast.List(elts=[], ctx=ast.Load()), type_comment=None), s)
                app = ast.copy_location(ast.Expr(value=ast.Call(func=ast.Attribute(value=ast.Name(id=t, ctx=ast.Load()), attr='append', ctx=ast.Load()),
                                                                args=[v.elt], keywords=[])), s)
                loop = ast.copy_location(ast.For(target=g.target, iter=g.iter, body=[app], orelse=[], type_comment=None), s)
                for x_ in (init, app, loop):
                    ast.fix_missing_locations(x_)
                self.stmt(init)
                self.stmt(loop)
                return
            if isinstance(v, ast.Call) and src(v.func) == 'len':
                a = src(v.args[0]).replace(' ', '')
                m = {'self.measurements': 'M', 'exp_data': 'N', 'timepoints_list[0]': 'T', 'self.timepoints': 'T', 'timepoint_i': 'T'}.get(a)
                if m is None:
                    raise AnalysisError('extract_data: len(%s) has no known meaning' % a)
                self.env[t] = self.sym(m)
                return
            if isinstance(v, ast.Constant) and v.value == 1:
                self.env[t] = 1
                return
            if t in ('exp_data',):
                return
            self.defs[t] = src(v).replace(' ', '')
            try:
                self.env[t] = self.shape(v)
            except AnalysisError:
                if t in ('data', 'data_i', 'data_list', 'data_list_final') or (t in self.env and isinstance(self.env[t], (tuple, Lst))):
                    raise
                self.env[t] = None
            return
        if isinstance(s, ast.Expr) and isinstance(s.value, ast.Call) and isinstance(s.value.func, ast.Attribute) and s.value.func.attr == 'append' \
                and isinstance(s.value.func.value, ast.Name):
            lst = self.env.get(s.value.func.value.id)
            if isinstance(lst, Lst):
                try:
                    e = self.shape(s.value.args[0])
                except AnalysisError:
                    if s.value.func.value.id in ('timepoints_list',):
                        return
                    raise
                extra = self.loops[lst.depth:]
                lst.elem = e
                lst.count = list(extra) if extra else [1]
            return
        if isinstance(s, ast.If):
            self.run(s.body if self.cond(s.test) else s.orelse)
            return
        if isinstance(s, ast.For):
            it = src(s.iter).replace(' ', '')
            symb = {'exp_data': 'N', 'self.measurements': 'M'}.get(it)
            if symb is None:
                raise AnalysisError('extract_data: loop over %s has no known meaning' % it)
            self.loops.append(self.sym(symb))
            if symb == 'M':
                self.mvars.append(src(s.target))
            self.run(s.body)
            if symb == 'M':
                self.mvars.pop()
            self.loops.pop()
            return
        if isinstance(s, ast.Return):
            self.result = self.shape(s.value)
            return
        if isinstance(s, ast.Raise):
            raise AnalysisError('extract_data raises in scenario %s' % self.sc)
        return


def get_class(ctx, modname, cname):
    m = ctx.prog.mod(modname)
    for n in m.tree.body:
        if isinstance(n, ast.ClassDef) and n.name == cname:
            return n
    raise AnalysisError('anchor vanished: %s:%s' % (modname, cname))


def meth(cls, name):
    for s in cls.body:
        if isinstance(s, ast.FunctionDef) and s.name == name:
            return s
    raise AnalysisError('anchor vanished: %s.%s' % (cls.name, name))


def check_shapes(ctx):
    cls = get_class(ctx, 'inference_setup', 'InferenceSetup')
    f = meth(cls, 'extract_data')
    ctx.functions.add('inference_setup:InferenceSetup.extract_data')
    for lst in (True, False):
        for m1 in (True, False):
            sc = {'list': lst, 'M1': m1}
            it = ShapeInterp(sc, lambda n: ctx.loc('inference_setup', n))
            try:
                it.run(f.body)
            except ShapeError as e:
                it.problems.append(str(e))
            want = tuple(x for x in (it.sym('N'), 'T', it.sym('M')))
            if it.result is None:
                it.problems.append('no array returned')
            elif not it.problems and ShapeInterp.core(it.result) != ShapeInterp.core(want):
                it.problems.append('returned axes %s, expected (N, T, M) order' % (it.result,))
            elif not it.problems and len(it.result) != 3:
                it.problems.append('returned array has %d axes' % len(it.result))
            key = '%s/%s' % ('list-of-frames' if lst else 'single-frame', 'one-measurement' if m1 else 'several-measurements')
            ctx.ob('R15.1-axis-alignment', key, not it.problems, ctx.loc('inference_setup', f),
                   'the data array has axes (trajectory, time, measured species); every reshape keeps the axis order', '; '.join(it.problems))
    # the time axis handed on is the data's own time column, unchanged: "each trajectory is simulated at its own time points"
    def time_value(e, seen=()):
        """None if the expression is the time column of a frame (through array conversions and locals assigned only such values)"""
        e = util.strip_cast(e)
        if isinstance(e, ast.Call) and isinstance(e.func, ast.Attribute) and e.func.attr in ('flatten', 'ravel', 'copy', 'to_numpy') and not e.args:
            return time_value(e.func.value, seen)
        if isinstance(e, ast.Call) and src(e.func) in ('np.array', 'np.asarray', 'numpy.array', 'numpy.asarray', 'list') and e.args:
            return time_value(e.args[0], seen)
        if isinstance(e, ast.Call) and isinstance(e.func, ast.Attribute) and e.func.attr == 'get' and len(e.args) == 1 and src(e.args[0]) == 'self.time_column':
            return None
        if isinstance(e, ast.Subscript) and src(e.slice) == 'self.time_column':
            return None
        if isinstance(e, ast.Name) and e.id not in seen:
            defs_ = [n_ for n_ in ast.walk(f) if isinstance(n_, (ast.Assign, ast.AugAssign)) and
                     any(isinstance(t_, ast.Name) and t_.id == e.id for t_ in (n_.targets if isinstance(n_, ast.Assign) else [n_.target]))]
            if not defs_:
                return 'the value of %s is not defined here' % e.id
            for d_ in defs_:
                if isinstance(d_, ast.AugAssign):
                    return '`%s` changes the time values' % util.stmt_key(d_)[:60]
                r_ = time_value(d_.value, seen + (e.id,))
                if r_ is not None:
                    return r_
            return None
        return '`%s` is not the time column of the data' % src(e)[:60]
    t_problems = []
    n_sinks = 0
    for n_ in ast.walk(f):
        if isinstance(n_, ast.Assign) and any(src(t_) == 'self.timepoints' for t_ in n_.targets):
            n_sinks += 1
            v_ = n_.value
            if isinstance(v_, ast.Name) and any(isinstance(d_, ast.Assign) and any(src(t_) == v_.id for t_ in d_.targets) and isinstance(d_.value, ast.List)
                                                and not d_.value.elts for d_ in ast.walk(f)):
                apps = [c_ for c_ in ast.walk(f) if isinstance(c_, ast.Call) and isinstance(c_.func, ast.Attribute) and c_.func.attr == 'append'
                        and src(c_.func.value) == v_.id]
                if not apps:
                    t_problems.append('nothing is put into %s' % v_.id)
                for c_ in apps:
                    r_ = time_value(c_.args[0])
                    if r_ is not None:
                        t_problems.append(r_)
            else:
                r_ = time_value(v_)
                if r_ is not None:
                    t_problems.append(r_)
    ctx.ob('R15.1-axis-alignment', 'time-axis', not t_problems and n_sinks >= 2, ctx.loc('inference_setup', f),
           "the time points kept for a trajectory are the values of its data frame's time column, unchanged", '; '.join(sorted(set(t_problems))[:3]))
    # BulkData.set_data keeps the layout
    f = ctx.fn('inference:BulkData.set_data')
    txt = [util.stmt_key(s).replace(' ', '') for s in f.body]
    ctx.ob('R15.1-axis-alignment', 'BulkData.set_data', 'self.measurements=np.reshape(measurements,(self.N,self.nT,self.M))' in txt, ctx.loc('inference', f),
           'the data object stores the array as (N, T, M)', '')


def check_likelihood(ctx, cname, data_attr, stochastic):
    f = ctx.fn('inference:%s.set_data' % cname)
    txt = [util.stmt_key(s).replace(' ', '') for s in ast.walk(f) if isinstance(s, ast.stmt)]
    d = f.args.args[1].arg
    # entry i of the index table is the model index of the i-th *name* in the data object's list of measured species, for every i
    defs_ = {n_: v_ for n_, v_ in util.single_defs(f).items() if v_ is not None}
    ok = False
    for lp_ in [s_ for s_ in ast.walk(f) if isinstance(s_, ast.For) and isinstance(s_.target, ast.Name)]:
        v_ = lp_.target.id
        for st_ in lp_.body:
            if isinstance(st_, ast.Assign) and src(st_.targets[0]).replace(' ', '') == 'self.meas_indices[%s]' % v_ and isinstance(st_.value, ast.Call) \
                    and src(st_.value.func).replace(' ', '') == 'self.m.get_species_index' and len(st_.value.args) == 1:
                a_ = st_.value.args[0]
                if isinstance(a_, ast.Subscript) and isinstance(a_.value, ast.Name) and src(a_.slice) == v_ \
                        and a_.value.id in defs_ and src(defs_[a_.value.id]).replace(' ', '') == '%s.get_measured_species()' % d:
                    names = a_.value.id
                    if isinstance(lp_.iter, ast.Call) and src(lp_.iter.func) == 'range' and len(lp_.iter.args) == 1:
                        bound = src(util.inline(lp_.iter.args[0], defs_)).replace(' ', '')
                        m_defs = [src(util.inline(x_.value, defs_)).replace(' ', '') for x_ in ast.walk(f) if isinstance(x_, ast.Assign)
                                  and src(x_.targets[0]) == 'self.M']
                        lens = ('len(%s)' % names, 'len(%s)' % src(defs_[names]).replace(' ', ''))
                        if bound in lens or (bound == 'self.M' and m_defs and all(t_ in lens for t_ in m_defs)):
                            ok = True
    ctx.ob('R15.2-name-alignment', '%s.set_data' % cname, ok, ctx.loc('inference', f),
           'meas_indices[i] is the model index of the i-th measured species name, for every i', '')
    f = ctx.fn('inference:%s.get_log_likelihood' % cname)
    where = ctx.loc('inference', f)
    outer = [s for s in f.body if isinstance(s, ast.For)]
    problems = []
    if len(outer) != 1 or src(outer[0].iter).replace(' ', '') != 'range(self.N)':
        raise AnalysisError('%s.get_log_likelihood: trajectory loop not found' % cname)
    nl = outer[0]
    n = src(nl.target)
    # innermost accumulate
    acc = [x for x in ast.walk(nl) if isinstance(x, ast.AugAssign) and src(x.target) == 'error']
    if len(acc) != 1:
        problems.append('expected one accumulation into error')
    else:
        a = acc[0]
        fors = []
        cur = a._parent
        while cur is not nl:
            if isinstance(cur, ast.For):
                fors.append(cur)
            cur = cur._parent
        its = [src(x.iter).replace(' ', '') for x in fors]
        want = ['range(len(timepoints))', 'range(self.M)'] + (['range(self.N_simulations)'] if stochastic else [])
        if its != want:
            problems.append('the error is accumulated over loops %s, expected %s' % (its, want))
        else:
            tv, iv = src(fors[0].target), src(fors[1].target)
            body = fors[0].body
            se = symx.SymExec(None, None)
            D, S, E, P = sp.Symbol('D', real=True), sp.Symbol('S', real=True), sp.Symbol('E', real=True), sp.Symbol('P', positive=True)

            def leaf(node, env, se_):
                t = src(node).replace(' ', '')
                if t == 'measurements[%s,%s,%s]' % (n, tv, iv):
                    return D
                if t == 'ans[%s,self.meas_indices[%s]]' % (tv, iv):
                    return S
                if t == 'self.norm_order':
                    return P
                if isinstance(node, ast.Subscript) and src(node.value) in ('measurements', 'ans'):
                    raise AnalysisError('cost compares %s - not data[n,t,i] with sim[t, meas_indices[i]]' % t)
                return None
            se.leaf = leaf
            import copy
            g = ast.FunctionDef(name='g', args=ast.arguments(posonlyargs=[], args=[], kwonlyargs=[], kw_defaults=[], defaults=[]), body=body,
                                decorator_list=[], type_params=[])
            try:
                final, _ = se.run_env(g, {'error': E, 'dif': sp.Integer(0)})
                inc = final['error'] - E
                for dv, sv, pv in ((5, 2, 2), (1, 4, 3), (2, 2, 1), (0, 3, 2)):
                    got = inc.subs({D: dv, S: sv, P: pv})
                    if sp.simplify(got - abs(dv - sv) ** pv) != 0:
                        problems.append('with data %s, simulation %s, p=%s one term adds %s, expected |data-sim|^p = %s' % (dv, sv, pv, got, abs(dv - sv) ** pv))
                        break
            except AnalysisError as e:
                problems.append(str(e))
    post = f.body[f.body.index(nl) + 1:]
    ptxt = [util.stmt_key(s).replace(' ', '') for s in post]
    if 'error=error**(1.0/self.norm_order)' not in ptxt and 'error=error**(1/self.norm_order)' not in ptxt:
        problems.append('the sum is not raised to 1/p: %s' % ptxt[:2])
    if stochastic and 'error=-1.0*error/(1.0*self.N_simulations)' not in ptxt:
        problems.append('the stochastic cost is not -(sum)^(1/p)/N_simulations')
    # what is returned: -inf if the cost is NaN, otherwise minus the cost (the stochastic cost already carries its sign) - on every path
    want_ret = 'error' if stochastic else '-error'
    ok = True
    rp = paths.Enumerator().run(post, paths.State())
    ctx.paths += len(rp)
    n_nan = n_val = 0
    for p_ in rp:
        if p_.exit != 'return':
            ok = False
            continue
        tests = {util.canon_test(e.node).replace(' ', ''): e.info for e in p_.events if e.kind == 'test'}
        nan = tests.get('np.isnan(error)')
        if nan is None and tests.get('notnp.isnan(error)') is not None:
            nan = not tests['notnp.isnan(error)']
        val = src(p_.events[-1].node.value).replace(' ', '') if p_.events[-1].node.value is not None else None
        if nan is True:
            n_nan += 1
            ok = ok and val in ('-np.inf', '-numpy.inf', "float('-inf')")
        elif nan is False:
            n_val += 1
            ok = ok and val == want_ret
        else:
            ok = False
    ok = ok and n_nan >= 1 and n_val >= 1
    if not ok:
        problems.append('the result is not -cost with NaN mapped to -inf')
    init = [util.stmt_key(s).replace(' ', '') for s in f.body[:f.body.index(nl)]]
    if 'error=0.0' not in init and 'error=0' not in init:
        problems.append('the accumulator does not start at 0')
    ctx.ob('R15.3-cost-formula', cname, not problems, where,
           'cost = -(sum over all trajectories, measured species, time points of |data[n,t,i] - sim[t, meas_indices[i]]|^p)^(1/p)' + (' / N_simulations' if stochastic else ''),
           '; '.join(problems))
    # R15.4 per-trajectory set-up
    en = paths.Enumerator()
    ps = en.run(nl.body, paths.State())
    ctx.paths += len(ps)
    problems = []
    defs = {k_: v_ for k_, v_ in util.single_defs(f).items() if k_ not in ('timepoints', 'ans', 'dif', 'error')}

    def txt(node):
        return src(util.inline(node, defs)).replace(' ', '')
    for p in ps:
        ev = p.events
        i_sim = paths.index_of(p, lambda e: e.kind == 'stmt' and (paths.stmt_calls(e.node, 'simulate') or paths.stmt_calls(e.node, 'delay_simulate')))
        if i_sim < 0:
            if stochastic and any(e.kind == 'loop0' for e in ev):
                continue
            problems.append('a trajectory is not simulated')
            continue
        pre = [util.stmt_key(e.node).replace(' ', '') for e in ev[:i_sim] if e.kind == 'stmt'] + \
              [txt(e.node.value) for e in ev[:i_sim] if e.kind == 'stmt' and isinstance(e.node, ast.Expr)]
        if not any(t in ('timepoints=self.%s.get_timepoints()[%s,:]' % (data_attr, n), 'timepoints=self.%s.get_timepoints()' % data_attr) for t in pre):
            problems.append('the time points of trajectory n are not selected before simulating')
        if 'self.csim.set_initial_state(self.get_initial_state(%s))' % n not in pre:
            problems.append('the initial state of trajectory n is not set before simulating')
        tests = {txt(e.node): e.info for e in ev[:i_sim] if e.kind == 'test'}
        pc = tests.get('self.get_initial_params(%s)isnotNone' % n)
        if pc is None and 'self.get_initial_params(%s)isNone' % n in tests:
            pc = not tests['self.get_initial_params(%s)isNone' % n]
        if pc is None:
            problems.append('the parameter condition of trajectory n is not consulted before simulating')
        elif pc and 'self.set_init_params(self.get_initial_params(%s))' % n not in pre:
            problems.append('the parameter condition of trajectory n is not applied before simulating')
        mt = tests.get('self.%s.has_multiple_timepoints()' % data_attr)
        if mt is True and 'timepoints=self.%s.get_timepoints()[%s,:]' % (data_attr, n) not in pre:
            problems.append('per-trajectory time points are not used')
        c = (paths.stmt_calls(ev[i_sim].node, 'simulate') + paths.stmt_calls(ev[i_sim].node, 'delay_simulate'))[0]
        if src(c.args[0]) != 'self.csim' or src(c.args[-1]) != 'timepoints':
            problems.append('simulated with %s' % [src(a) for a in c.args])
    ctx.ob('R15.4-trajectory-setup', cname, not problems, where,
           "each trajectory's time points, initial state and parameter condition are set before its simulation", '; '.join(sorted(set(problems))))


def check_init_species(ctx):
    f = ctx.fn('inference:ModelLikelihood.set_init_species')
    k_ = lambda t: t.replace(' ', '')
    sds = f.args.args[1].arg
    problems = []
    outer = [s_ for s_ in f.body if isinstance(s_, ast.For) and k_(src(s_.iter)) == 'range(self.Nx0)']
    fdefs = {n_: v_ for n_, v_ in util.single_defs(f).items() if v_ is not None}
    inner = []
    if len(outer) == 1:
        i_ = src(outer[0].target)
        inner = [s_ for s_ in outer[0].body if isinstance(s_, ast.For)
                 and k_(src(util.resolve_alias(s_.iter, fdefs))) in ('self.m.get_species2index()',)]
        if [x for x in outer[0].body if x not in inner and not isinstance(x, ast.Pass)]:
            problems.append('the trajectory loop does more than fill one row per species')
    if len(outer) != 1 or len(inner) != 1:
        problems.append('no loop over every trajectory and, inside it, over every species of the model')
    else:
        s_ = src(inner[0].target)
        dict_name = src(inner[0].iter)
        ps = paths.Enumerator().run(inner[0].body, paths.State())
        ctx.paths += len(ps)
        for p_ in ps:
            stores = [e.node for e in p_.stmts() if isinstance(e.node, (ast.Assign, ast.AugAssign)) and
                      isinstance((e.node.targets[0] if isinstance(e.node, ast.Assign) else e.node.target), ast.Subscript) and
                      src((e.node.targets[0] if isinstance(e.node, ast.Assign) else e.node.target).value) == 'self.initial_states']
            tests = {k_(util.canon_test(e.node)): e.info for e in p_.events if e.kind == 'test'}
            named = tests.get('%sin%s[%s]' % (s_, sds, i_))
            if named is None and '%snotin%s[%s]' % (s_, sds, i_) in tests:
                named = not tests['%snotin%s[%s]' % (s_, sds, i_)]
            if p_.exit != 'fall' or len(stores) != 1 or not isinstance(stores[0], ast.Assign) or named is None or len(tests) != 1:
                problems.append('a species is not given exactly one value decided by whether this trajectory names it [%s]' % paths.describe(p_, 4))
                continue
            tgt = stores[0].targets[0]
            idx = [src(x) for x in tgt.slice.elts] if isinstance(tgt.slice, ast.Tuple) else [src(tgt.slice)]
            ldefs = {}
            for e in p_.stmts():
                if isinstance(e.node, ast.Assign) and isinstance(e.node.targets[0], ast.Name):
                    ldefs[e.node.targets[0].id] = e.node.value
            col = k_(src(util.inline(ast.parse(idx[1], mode='eval').body, ldefs))) if len(idx) == 2 else None
            if len(idx) != 2 or idx[0] != i_ or col != '%s[%s]' % (dict_name, s_):
                problems.append('the value is stored at [%s], expected [trajectory, index of the species by name]' % ', '.join(idx))
                continue
            val = k_(src(util.inline(stores[0].value, ldefs)))
            want = '%s[%s][%s]' % (sds, i_, s_) if named else 'self.default_species[%s[%s]]' % (dict_name, s_)
            if val != want:
                problems.append('a species the trajectory %s gets %s, expected %s' % ('names' if named else 'does not name', val, want))
    first = [k_(util.stmt_key(x)) for x in f.body[:1]]
    if not first or not first[0].startswith('self.initial_states=np.zeros((self.Nx0,'):
        problems.append('the table of initial states is not allocated afresh (one row per trajectory)')
    ok = not problems
    ctx.ob('R15.4-trajectory-setup', 'set_init_species', ok, ctx.loc('inference', f),
           'initial conditions are matched to species by name; unspecified species take the model default at the same index, for every '
           'trajectory on its own', '; '.join(sorted(set(problems))[:2]))
    f = ctx.fn('inference:ModelLikelihood.set_init_params')
    txt = [util.stmt_key(s).replace(' ', '') for s in f.body]
    a = f.args.args[1].arg
    ok = txt == ['self.m.set_params(%s)' % a, 'self.csim.py_set_param_values(self.m.get_params_values())']
    ctx.ob('R15.4-trajectory-setup', 'set_init_params', ok, ctx.loc('inference', f),
           "parameters are set on the model by name and the interface is bound to the model's own array", str(txt))
    # "each trajectory is simulated from its own initial condition and parameter condition": the accessors hand out entry n of the
    # tables, for every n - no shortcut that serves another trajectory's entry
    for mname, table in (('get_initial_state', 'self.initial_states'), ('get_initial_params', 'self.initial_parameters')):
        g = ctx.fn('inference:ModelLikelihood.%s' % mname)
        n_ = g.args.args[1].arg
        bad = []
        for r_ in [x for x in ast.walk(g) if isinstance(x, ast.Return)]:
            v_ = src(r_.value).replace(' ', '') if r_.value is not None else 'None'
            if v_ in ('%s[%s,:]' % (table, n_), '%s[%s]' % (table, n_)):
                continue
            gs = util.guards_of(r_, g)
            if v_ == 'None' and gs <= {util.canon_test(ast.parse('%s is None' % table, mode='eval').body)} and gs:
                continue        # no table at all: nothing to hand out
            bad.append('returns %s%s' % (v_, (' when ' + ' and '.join(sorted(gs))) if gs else ''))
        ctx.ob('R15.4-trajectory-setup', mname, not bad, ctx.loc('inference', g),
               'trajectory n gets entry n of %s' % table, '; '.join(bad))


def eval_likelihood_function(cls, f, ll, log_space):
    """get_likelihood_function partially evaluated (templates.StrExec, methods of the class followed) on a sample: defaults {a, b, c},
    theta = (c: 0.0, a: 5.0).  -> (parameters in force when the likelihood is evaluated, returned value, problem)"""
    from ..templates import StrExec, Hole, UNKNOWN
    calls = []

    def hook(n, ex):
        if isinstance(n.func, ast.Attribute):
            recv = src(n.func.value).replace(' ', '')
            if recv == ll and n.func.attr == 'set_init_params' and len(n.args) == 1:
                v = ex.ev(n.args[0])
                calls.append(('set', dict(v) if isinstance(v, dict) else v))
                return 0
            if recv == ll and n.func.attr in ('py_log_likelihood', 'get_log_likelihood'):
                calls.append(('evaluate',))
                return Hole('COST')
            if recv == 'self' and n.func.attr == 'check_prior':
                return Hole('LP')
            nm = src(n.func)
            if nm in ('np.isfinite', 'numpy.isfinite', 'math.isfinite') and len(n.args) == 1:
                return True
            if nm in ('np.isnan', 'np.isinf', 'math.isnan', 'math.isinf') and len(n.args) == 1:
                return False
            if nm in ('np.exp', 'numpy.exp', 'math.exp') and len(n.args) == 1:
                v = ex.ev(n.args[0])
                return 'exp(%s)' % (v,) if v is not UNKNOWN else None      # (a positive number: plain text, not a hole)
        return None
    theta = [-0.5, 5.0] if log_space else [0.0, 5.0]
    base_env = {ll: Hole('LIKELIHOOD'), 'self.params_to_estimate': ['c', 'a'], 'self.log_space_parameters': log_space,
                'self.default_parameters': {'a': 1.0, 'b': 2.0, 'c': 3.0}, 'self.debug': False,
                'self.prior': {'a': ['uniform', 0, 10], 'c': ['gaussian', 0, 1, 'positive']}}
    methods = {m_.name: m_ for m_ in cls.body if isinstance(m_, ast.FunctionDef) and m_.name not in ('check_prior', 'get_likelihood_function')}
    # what setup_likelihood_function leaves in the object (two trajectories whose parameter conditions have different keys)
    env = dict(base_env)
    setup = [m_ for m_ in cls.body if isinstance(m_, ast.FunctionDef) and m_.name == 'setup_likelihood_function']
    if setup:
        sf = setup[-1]
        senv = dict(base_env)
        for a_ in sf.args.args[1:]:
            senv[a_.arg] = Hole(a_.arg.upper())
        for a_, dv in zip(sf.args.args[len(sf.args.args) - len(sf.args.defaults):], sf.args.defaults):
            if isinstance(dv, ast.Constant):
                senv[a_.arg] = dv.value
        if 'parameter_conditions' in senv:
            senv['parameter_conditions'] = [{}, {'b': 9.0}]
        sx = StrExec(senv, tracked=set(), frozen=set(a_.arg for a_ in sf.args.args[1:]))
        sx.methods = methods
        try:
            sx.run(sf.body)
        except AnalysisError:
            pass
        for k_, v_ in sx.env.items():
            if isinstance(k_, str) and k_.startswith('self.') and k_ not in base_env and v_ is not UNKNOWN:
                env[k_] = v_
    env[f.args.args[1].arg] = list(theta)
    ex = StrExec(env, tracked=set(), frozen={f.args.args[1].arg}, call_hook=hook)
    ex.methods = methods
    ex.run(f.body)
    if ex.aborted:
        return None, None, 'the method %s' % ex.aborted
    if ('evaluate',) not in calls:
        return None, None, 'the likelihood is not evaluated for an in-support theta'
    eff = {}
    for c_ in calls[:calls.index(('evaluate',))]:
        if not isinstance(c_[1], dict) or any(v is UNKNOWN for v in c_[1].values()):
            raise AnalysisError('get_likelihood_function: the parameters handed to set_init_params could not be evaluated (%r)' % (c_[1],))
        eff.update(c_[1])
    return eff, ex.returned, None


def check_evaluation(ctx):
    from ..templates import UNKNOWN
    for cname, ll in (('DeterministicInference', 'self.LL_det'), ('StochasticInference', 'self.LL_stoch')):
        cls = get_class(ctx, 'pid_interfaces', cname)
        base = get_class(ctx, 'pid_interfaces', 'PIDInterface')
        f = meth(cls, 'get_likelihood_function')
        ctx.functions.add('pid_interfaces:%s.get_likelihood_function' % cname)
        problems = []
        n_eval = 0
        both = ast.ClassDef(name=cname, bases=[], keywords=[], body=list(base.body) + list(cls.body), decorator_list=[])
        undecided = []
        for log_space in (False, True):
            try:
                eff, ret, prob = eval_likelihood_function(both, f, ll, log_space)
            except AnalysisError as e_:
                undecided.append(str(e_))     # this scenario is not evaluable; a violation found in the other one still stands
                continue
            if prob:
                problems.append(prob)
                continue
            n_eval += 1
            want = {'a': 'exp(5.0)', 'b': 2.0, 'c': 'exp(-0.5)'} if log_space else {'a': 5.0, 'b': 2.0, 'c': 0.0}
            if eff != want:
                problems.append('with defaults {a: 1, b: 2, c: 3} and theta (c = 0.0 / -0.5, a = 5.0)%s the likelihood is evaluated with %r: not the defaults '
                                'overridden by theta, name by name' % (' in log space' if log_space else '', eff))
            if ret is UNKNOWN or str(ret) not in ('LPCOST', 'COSTLP'):
                problems.append('the value returned is %r, not log-prior + cost' % (ret,))
        if undecided and not problems:
            raise AnalysisError(undecided[0])
        ctx.ob('R15.5-function-of-theta', cname, not problems and n_eval > 0, ctx.loc('pid_interfaces', f),
               'each evaluation: the likelihood sees the stored defaults overridden by theta (name by name, a zero included; exp(theta) in log space); '
               'value = log-prior + cost', '; '.join(sorted(set(problems))))
    cls = get_class(ctx, 'pid_interfaces', 'PIDInterface')
    f = meth(cls, '__init__')
    txt = [util.stmt_key(s).replace(' ', '') for s in ast.walk(f) if isinstance(s, ast.stmt)]
    ok = 'self.default_parameters=dict(M.get_parameter_dictionary())' in txt or 'self.default_parameters=dict(self.M.get_parameter_dictionary())' in txt
    ctx.ob('R15.5-function-of-theta', 'default-parameters-copy', ok, ctx.loc('pid_interfaces', f),
           "the defaults are a copy of the model's parameter dictionary taken at construction", '')
    cls = get_class(ctx, 'inference_setup', 'InferenceSetup')
    f = meth(cls, 'cost_function')
    txt = [util.stmt_key(s).replace(' ', '') for s in ast.walk(f) if isinstance(s, ast.stmt)]
    # every returned value is (a local that holds) the interface's value for the function's own argument, and nothing stores into it in between
    theta = f.args.args[1].arg
    defs = util.single_defs(f)
    rets = [n_ for n_ in ast.walk(f) if isinstance(n_, ast.Return)]
    ok = bool(rets)
    for r_ in rets:
        v_ = r_.value
        if isinstance(v_, ast.Name) and defs.get(v_.id) is not None:
            v_ = defs[v_.id]
        ok = ok and isinstance(v_, ast.Call) and src(v_.func).replace(' ', '') == 'self.pid_interface.get_likelihood_function' \
            and [src(a_) for a_ in v_.args] == [theta] and not v_.keywords
    ok = ok and not any(isinstance(n_, (ast.Assign, ast.AugAssign)) and any(isinstance(t_, ast.Name) and t_.id == theta
                        for t_ in (n_.targets if isinstance(n_, ast.Assign) else [n_.target])) for n_ in ast.walk(f))
    ctx.ob('R15.5-function-of-theta', 'cost_function', ok, ctx.loc('inference_setup', f), 'cost_function returns the interface value for theta unchanged', '')
    f = meth(cls, 'setup_cost_function')
    calls = util.calls_in(f, suffix='setup_likelihood_function')
    ok = len(calls) == 2 and all([src(a) for a in c.args] == ['self.LL_data', 'self.timepoints', 'self.measurements'] and
                                 {k.arg: src(k.value) for k in c.keywords if k.arg}.get('initial_conditions') == 'self.initial_conditions' and
                                 {k.arg: src(k.value) for k in c.keywords if k.arg}.get('parameter_conditions') == 'self.parameter_conditions' and
                                 {k.arg: src(k.value) for k in c.keywords if k.arg}.get('norm_order') == 'self.norm_order' for c in calls)
    ctx.ob('R15.2-name-alignment', 'setup_cost_function', ok, ctx.loc('inference_setup', f),
           'the data array, its time points and the same measurement-name list that ordered its columns are handed to the likelihood together', '')


def check_conditions_as_given(ctx):
    """Trajectory n is simulated under the initial condition and the parameter condition the user gave for it: the set-up methods of
    InferenceSetup that normalise the two arguments (one dictionary for all / one per trajectory) are evaluated (templates.StrExec) on
    sample arguments - a condition value that equals the model's own value included - and must hand on the dictionaries unchanged."""
    from ..templates import StrExec, UNKNOWN, EvalRaise
    m = ctx.prog.mod('inference_setup')
    cls = [n for n in m.tree.body if isinstance(n, ast.ClassDef) and n.name == 'InferenceSetup']
    if not cls:
        raise AnalysisError('anchor vanished: inference_setup:InferenceSetup')
    meths = {x.name: x for x in cls[0].body if isinstance(x, ast.FunctionDef)}
    model_params = {'d1': 0.5, 'k': 1.0, 'x0': 3.0}

    def hook(n, ex):
        if isinstance(n.func, ast.Attribute) and n.func.attr in ('get_parameter_dictionary', 'get_params', 'get_parameter_values') :
            return dict(model_params)
        if isinstance(n.func, ast.Attribute) and n.func.attr in ('get_species_dictionary',):
            return {'A': 0.0, 'B': 5.0}
        return None
    for mname, attr, samples in (
            ('prepare_parameter_conditions', 'self.parameter_conditions',
             [('one per trajectory', [{'d1': 2.0}, {'d1': 0.5, 'x0': 3.0}, {'d1': 0.1}], 3), ('one for all', {'d1': 0.5}, 3), ('none', None, 3),
              ('single trajectory', [{'d1': 0.5}], 1)]),
            ('prepare_initial_conditions', 'self.initial_conditions',
             [('one per trajectory', [{'A': 10.0}, {'A': 0.0, 'B': 5.0}, {'A': 3.0}], 3), ('one for all', {'A': 0.0}, 3), ('single trajectory', [{'B': 5.0}], 1)])):
        f = meths.get(mname)
        if f is None:
            raise AnalysisError('anchor vanished: InferenceSetup.%s' % mname)
        ctx.functions.add('inference_setup:InferenceSetup.%s' % mname)
        problems, undecided = [], []
        for label, given, n_traj in samples:
            want = None if given is None else ([dict(given) for _ in range(n_traj)] if isinstance(given, dict) else [dict(d_) for d_ in given])
            import copy
            ex = StrExec({attr: copy.deepcopy(given), 'self.exp_data': [{'t': float(i_)} for i_ in range(n_traj)] if n_traj > 1 else [{'t': 0.0}],
                          'self.params_to_estimate': ['k_est'], 'self.debug': False}, tracked=set(), call_hook=hook, is_sub=True)
            ex.methods = meths
            try:
                ex.run(f.body)
            except EvalRaise as e_:
                problems.append('%s: raises %s' % (label, e_.name))
                continue
            except AnalysisError as e_:
                undecided.append('%s: %s' % (label, e_))
                continue
            except Exception as e_:
                if type(e_).__name__ != '_Return':
                    raise
            got = ex.env.get(attr, UNKNOWN)
            if got is UNKNOWN or (isinstance(got, list) and any(x is UNKNOWN for x in got)):
                undecided.append('%s: the stored value could not be evaluated' % label)
            elif got != want:
                problems.append('%s: %r becomes %r (the model holds %r)' % (label, given, got, model_params if 'parameter' in mname else {'A': 0.0, 'B': 5.0}))
        if undecided and not problems:
            ctx.note('R15.4 conditions-as-given: %s not evaluated (%s)' % (mname, '; '.join(undecided[:2])))
            continue
        ctx.ob('R15.4-trajectory-setup', 'conditions-as-given/%s' % mname, not problems, ctx.loc('inference_setup', f),
               'every trajectory keeps the condition dictionary given for it, entry for entry (also entries equal to the model\'s current values)',
               '; '.join(problems[:2]))


def check(ctx):
    for m in ('inference_setup', 'pid_interfaces', 'inference', 'inference.pxd'):
        ctx.prog.mod(m)
    check_shapes(ctx)
    check_likelihood(ctx, 'DeterministicLikelihood', 'bd', False)
    check_likelihood(ctx, 'StochasticTrajectoriesLikelihood', 'sd', True)
    check_init_species(ctx)
    check_conditions_as_given(ctx)
    check_evaluation(ctx)
    # value = log-prior + cost and -inf outside the support: the prior sum and the rejection path (C16 R16.3 / R16.4) - re-emitted here
    from ..core import SubCtx
    from . import c16
    sub = SubCtx(ctx)
    cls = c16.find_class(sub)
    c16.check_aggregation(sub, cls)
    c16.check_rejection(sub)
    for rule, key, ok, where, what, detail in sub.got:
        ctx.ob('R15.5-prior-term', '%s/%s' % (rule, key), ok, where, what, detail)
    ctx.floor('R15.1-axis-alignment', 5)
    ctx.floor('R15.3-cost-formula', 2)
    ctx.floor('R15.5-function-of-theta', 4)
