"""C18 - reported Jacobians and parameter sensitivities match analytic derivatives.

R18.1 stencil consistency: for each difference scheme of compute_J and compute_Zj the assigned
expression is read as a linear form sum_k w_k f(x + d_k h e_j) / h; the offsets d_k come from the
definitions that reach each f symbol; the weights must satisfy sum w = 0, sum w d = 1 and
sum w d^q = 0 for q = 2..p (p = 4 fourth-order central, 2 central, 1 forward/backward, offsets
on the named side) - exact rational arithmetic, coefficients read from the code.
R18.2 orientation: the entry written is J[i, j] with i the component taken from the evaluated
derivative and j the perturbed coordinate; no stale perturbation in another coordinate.
R18.3 _evaluate_model applies the rules to and differentiates at the same state and time.
R18.4 parameter restore: on every path of compute_Zj the model's parameters and the working
dictionary are back at the original values when an iteration and the function end; compute_J
never writes parameters.
"""
import ast

import sympy as sp

from .. import paths, util
from ..front import AnalysisError, src

EXPLANATION = __doc__
ASSUMPTIONS = ['exact arithmetic: the order of a stencil is what is decided, not its rounding error for a given h']
METHODS = {'fourth_order_central_difference': 4, 'central_difference': 2, 'forward_difference': 1, 'backward_difference': 1}
H = sp.Symbol('h', positive=True)


def get_method(ctx, name):
    m = ctx.prog.mod('analysis')
    for n in m.tree.body:
        if isinstance(n, ast.ClassDef) and n.name == 'SensitivityAnalysis':
            for s in n.body:
                if isinstance(s, ast.FunctionDef) and s.name == name:
                    ctx.functions.add('analysis:SensitivityAnalysis.%s' % name)
                    return s
    raise AnalysisError('anchor vanished: analysis:SensitivityAnalysis.%s' % name)


def class_methods(ctx):
    m = ctx.prog.mod('analysis')
    for n in m.tree.body:
        if isinstance(n, ast.ClassDef) and n.name == 'SensitivityAnalysis':
            return {s.name: s for s in n.body if isinstance(s, ast.FunctionDef) and s.name not in ('_evaluate_model', 'compute_J', 'compute_Zj')}
    return {}


HMULT = {}      # locals of the analysed method that name a multiple of h (`two_h = 2*h`): name -> coefficient


def coef_of_h(node, hname='h'):
    """c such that node == c*h (sympy), else None"""
    try:
        loc = {hname: H}
        loc.update({n_: c_ * H for n_, c_ in HMULT.items()})
        e = sp.sympify(src(node), locals=loc)
    except Exception:
        return None
    c = sp.simplify(e / H)
    return c if c.is_number else None


class Interp:
    """tracks evaluation-point offsets through a sequence of executed statements"""

    def __init__(self, mode, coord=None, pname='param_name', methods=None):
        self.methods = methods or {}    # helper methods of the class (inlined when they build an evaluation point)
        self.n_inl = 0
        self.mode = mode            # 'J' or 'Z'
        self.xoff = {}              # array var -> {coord text: offset}
        self.poff = {}              # dict var -> offset of param_name
        self.model = 0              # offset of the model's parameter (None unknown)
        self.f = {}                 # f symbol -> dict(offset, comp, stale)
        self.arrays = {}            # name -> dict(offset) for un-indexed evaluations
        self.stencils = []          # (target node, expr node)
        self.pname = pname
        self.problems = []
        self.model_writes = 0

    def helper_offset(self, node):
        """`self.<helper>(param_name, c*h)` as the parameter set of an evaluation: the helper is evaluated (templates.StrExec) on a sample
        parameter dictionary whose names contain one another (k1, k10, kd, d) with a concrete shift; it must return the originals with
        exactly the named parameter moved by the shift.  Returns the offset (multiple of h), a problem text, or None if not a helper."""
        if not (isinstance(node, ast.Call) and isinstance(node.func, ast.Attribute) and src(node.func.value) == 'self' and node.func.attr in self.methods
                and len(node.args) == 2 and src(node.args[0]) == self.pname):
            return None
        c = coef_of_h(node.args[1])
        if c is None:
            return 'the helper %s is given a shift that is not a multiple of h' % src(node)
        from ..templates import StrExec, UNKNOWN
        m = self.methods[node.func.attr]
        names = [a.arg for a in m.args.args[1:]]
        sample = {'k1': 1.0, 'k10': 2.0, 'kd': 3.0, 'd': 4.0}
        for target in ('k10', 'kd'):
            ex = StrExec({names[0]: target, names[1]: 0.5, 'self.original_parameters': dict(sample)}, tracked=set(), is_sub=True)
            try:
                ex.run(m.body)
                got = UNKNOWN
            except Exception as e_:
                got = getattr(e_, 'value', UNKNOWN)
            want = dict(sample)
            want[target] = sample[target] + 0.5
            if got is UNKNOWN or not isinstance(got, dict):
                return 'the parameter set built by %s could not be evaluated' % src(node)
            if got != want:
                return ('%s(%r, 0.5) on %r gives %r: not the originals with %s alone moved by the shift' % (node.func.attr, target, sample, got, target))
        return c

    def step(self, s):
        if isinstance(s, ast.Expr) and isinstance(s.value, ast.Call):
            c = s.value
            if src(c.func) == 'self.M.set_params' and len(c.args) == 1:
                v = src(c.args[0])
                self.model_writes += 1
                self.model = self.poff.get(v) if v in self.poff else None
            return
        if isinstance(s, ast.AugAssign):
            s = ast.Assign(targets=[s.target], value=ast.BinOp(left=s.target, op=s.op, right=s.value))
        if not isinstance(s, ast.Assign) or len(s.targets) != 1:
            return
        t, v = s.targets[0], s.value
        tt = src(t)
        # a local that names a multiple of the step
        if isinstance(t, ast.Name) and t.id != 'h' and any(isinstance(n_, ast.Name) and (n_.id == 'h' or n_.id in HMULT) for n_ in ast.walk(v)):
            c_ = coef_of_h(v)
            if c_ is not None:
                HMULT[t.id] = c_
                return
        elif isinstance(t, ast.Name) and t.id in HMULT:
            del HMULT[t.id]
        # a parameter set built by a helper of the class and named before it is used
        if isinstance(t, ast.Name):
            ho = self.helper_offset(v)
            if ho is not None:
                if isinstance(ho, str):
                    self.problems.append(ho)
                    self.poff.pop(t.id, None)
                else:
                    self.poff[t.id] = ho
                return
        # a point built by a helper of the class from a tracked array and named before it is used
        if isinstance(t, ast.Name) and isinstance(v, ast.Call) and isinstance(v.func, ast.Attribute) and src(v.func.value) == 'self' \
                and v.func.attr in self.methods and v.func.attr != '_evaluate_model' \
                and any(isinstance(a_, ast.Name) and a_.id in self.xoff for a_ in list(v.args) + [k_.value for k_ in v.keywords]):
            xs = self.inline_point(v)
            if xs is not None:
                self.xoff[t.id] = dict(self.xoff[xs])
            else:
                self.xoff.pop(t.id, None)
            return
        # array copies
        if isinstance(t, ast.Name) and isinstance(v, ast.Call) and src(v.func) in ('np.array', 'np.copy', 'numpy.array') and v.args \
                and isinstance(v.args[0], ast.Name) and (v.args[0].id in self.xoff):
            self.xoff[t.id] = dict(self.xoff[v.args[0].id])
            return
        if isinstance(t, ast.Name) and isinstance(v, ast.Call) and isinstance(v.func, ast.Attribute) and v.func.attr == 'copy' \
                and isinstance(v.func.value, ast.Name) and v.func.value.id in self.xoff:
            self.xoff[t.id] = dict(self.xoff[v.func.value.id])
            return
        if isinstance(t, ast.Name) and isinstance(v, ast.Call) and src(v.func) == 'dict' and v.args and src(v.args[0]) == 'self.original_parameters':
            self.poff[t.id] = sp.Integer(0)
            return
        # perturbations
        if isinstance(t, ast.Subscript) and isinstance(t.value, ast.Name):
            base = t.value.id
            idx = src(t.slice)
            if base in self.xoff or base in self.poff:
                if isinstance(v, ast.BinOp) and isinstance(v.op, (ast.Add, ast.Sub)) and src(v.left) == tt:
                    c = coef_of_h(v.right)
                    if c is None:
                        self.problems.append('perturbation `%s` is not a multiple of h' % util.stmt_key(s))
                        return
                    if isinstance(v.op, ast.Sub):
                        c = -c
                    if base in self.xoff:
                        self.xoff[base][idx] = self.xoff[base].get(idx, 0) + c
                    else:
                        if idx != self.pname:
                            self.problems.append('perturbs dictionary entry %s' % idx)
                        self.poff[base] = self.poff[base] + c
                    return
                if base in ('J', 'Z'):
                    pass
                else:
                    self.problems.append('write `%s` into a tracked array is not a perturbation by a multiple of h' % util.stmt_key(s))
                    return
        # evaluations
        call = v
        comp = None
        if isinstance(v, ast.Subscript) and isinstance(v.value, ast.Call):
            call, comp = v.value, src(v.slice)
        if isinstance(call, ast.Call) and src(call.func) == 'self._evaluate_model' and isinstance(t, ast.Name):
            a0 = call.args[0]
            if isinstance(a0, ast.Call) and isinstance(a0.func, ast.Attribute) and src(a0.func.value) == 'self' and a0.func.attr in self.methods:
                xs = self.inline_point(a0)
                if xs is None:
                    return
            else:
                xs = src(a0)
            if xs not in self.xoff:
                self.problems.append('model evaluated at untracked point %s' % xs)
                return
            point = {k: o for k, o in self.xoff[xs].items() if o != 0}
            poffset = sp.Integer(0)
            if len(call.args) > 1 or any(k.arg == 'params' for k in call.keywords):
                pnode = call.args[1] if len(call.args) > 1 else [k.value for k in call.keywords if k.arg == 'params'][0]
                pv = src(pnode)
                helper = self.helper_offset(pnode)
                if helper is not None:
                    # a parameter set built by a helper of the class: evaluated on a sample (see helper_offset)
                    if isinstance(helper, str):
                        self.problems.append(helper)
                    else:
                        poffset = helper
                        self.model = poffset
                        self.model_writes += 1
                elif pv in self.poff:
                    poffset = self.poff[pv]
                    self.model = poffset
                    self.model_writes += 1
                else:
                    self.problems.append('model evaluated with untracked parameters %s' % pv)
            else:
                poffset = self.model
            tk = {k.arg: src(k.value) for k in call.keywords}
            if tk.get('time', 'time') != 'time':
                self.problems.append('evaluation at time %s' % tk.get('time'))
            rec = {'point': point, 'poff': poffset, 'comp': comp}
            if comp is None:
                self.arrays[t.id] = rec
            else:
                self.f[t.id] = rec
            return
        if isinstance(t, ast.Name) and isinstance(v, ast.Subscript) and isinstance(v.value, ast.Name) and v.value.id in self.arrays:
            rec = dict(self.arrays[v.value.id])
            rec['comp'] = src(v.slice)
            self.f[t.id] = rec
            return
        if isinstance(t, ast.Subscript) and isinstance(t.value, ast.Name) and t.value.id in ('J', 'Z'):
            self.stencils.append((t, v))
            return

    def inline_point(self, call):
        """`self.helper(args)` used as an evaluation point: interpret the helper's straight-line body with the arguments substituted;
        -> name of the (renamed) array it returns, or None after recording a problem"""
        import copy
        m = self.methods[call.func.attr]
        params = [a.arg for a in m.args.args[1:]]
        bind = dict(zip(params, call.args))
        for kw in call.keywords:
            bind[kw.arg] = kw.value
        if set(bind) != set(params) or len(call.args) > len(params):
            self.problems.append('helper %s called with arguments that do not match its parameters' % call.func.attr)
            return None
        self.n_inl += 1
        pre = '_inl%d_' % self.n_inl

        class Sub(ast.NodeTransformer):
            def visit_Name(sub, n):
                if n.id in bind and isinstance(n.ctx, ast.Load):
                    return copy.deepcopy(bind[n.id])
                if n.id in ('np', 'numpy', 'max', 'min', 'abs', 'self', 'float', 'int', 'len'):
                    return n
                return ast.copy_location(ast.Name(id=pre + n.id, ctx=n.ctx), n)
        body = [x for x in m.body if not (isinstance(x, ast.Expr) and isinstance(x.value, ast.Constant))]
        for st in body:
            st = ast.fix_missing_locations(Sub().visit(copy.deepcopy(st)))
            if isinstance(st, ast.Return):
                if isinstance(st.value, ast.Name) and st.value.id in self.xoff:
                    return st.value.id
                self.problems.append('helper %s does not return a tracked copy of the state' % call.func.attr)
                return None
            if not isinstance(st, (ast.Assign, ast.AugAssign)):
                self.problems.append('helper %s is not straight-line code (%s)' % (call.func.attr, type(st).__name__))
                return None
            self.step(st)
        self.problems.append('helper %s returns nothing' % call.func.attr)
        return None


def analyse_stencil(it, target, expr, mode, coord, comp_expected, p):
    """-> list of problems"""
    problems = []
    names = sorted({n.id for n in ast.walk(expr) if isinstance(n, ast.Name)} & set(it.f))
    syms = {n: sp.Symbol(n) for n in names}
    loc = dict(syms)
    loc['h'] = H
    try:
        e = sp.expand(sp.sympify(src(expr), locals=loc) * H)
    except Exception as ex:
        return ['stencil expression not understood: %s (%s)' % (src(expr), ex)]
    rest = e
    w = {}
    for n, s_ in syms.items():
        c = e.coeff(s_, 1)
        w[n] = sp.simplify(c)
        rest = rest - c * s_
        if not w[n].is_number:
            problems.append('weight of %s is %s (not a constant multiple of 1/h)' % (n, w[n] / H))
    if sp.simplify(rest) != 0:
        problems.append('stencil has a non-linear or constant part %s' % sp.simplify(rest))
    if problems:
        return problems
    offs = {}
    for n in names:
        rec = it.f[n]
        if mode == 'J':
            pt = rec['point']
            stale = {k: v for k, v in pt.items() if k != coord}
            if stale:
                problems.append('%s is evaluated with a stale perturbation in coordinate %s' % (n, sorted(stale)))
            offs[n] = pt.get(coord, sp.Integer(0))
            if rec['poff'] not in (0, sp.Integer(0)):
                problems.append('%s is evaluated with perturbed parameters' % n)
        else:
            if rec['point']:
                problems.append('%s is evaluated at a perturbed state' % n)
            if rec['poff'] is None:
                problems.append('%s is evaluated with parameters in an unknown state' % n)
                offs[n] = sp.Integer(0)
            else:
                offs[n] = rec['poff']
        if rec['comp'] != comp_expected:
            problems.append('%s takes component %s of the derivative, the entry written is for component %s' % (n, rec['comp'], comp_expected))
    m0 = sum(w[n] for n in names)
    m1 = sum(w[n] * offs[n] for n in names)
    if sp.simplify(m0) != 0:
        problems.append('weights sum to %s (a constant function would get a non-zero derivative)' % m0)
    if sp.simplify(m1 - 1) != 0:
        problems.append('sum w*d = %s, must be 1 (weights %s at offsets %s)' % (m1, {n: str(w[n]) for n in names}, {n: str(offs[n]) for n in names}))
    for q in range(2, p + 1):
        mq = sum(w[n] * offs[n] ** q for n in names)
        if sp.simplify(mq) != 0:
            problems.append('moment %d is %s: the scheme is not of order %d' % (q, mq, p))
    return problems, offs


def run_method(ctx, fname, mode):
    HMULT.clear()
    f = get_method(ctx, fname)
    where = ctx.loc('analysis', f)
    # locate the loops
    if mode == 'J':
        outer = [s for s in f.body if isinstance(s, ast.For)]
        if len(outer) != 1:
            raise AnalysisError('compute_J: outer loop not found')
        comp = src(outer[0].target)
        inner = [s for s in outer[0].body if isinstance(s, ast.For)]
        if len(inner) != 1:
            raise AnalysisError('compute_J: inner loop not found')
        coord = src(inner[0].target)
        pre = [s for s in f.body[:f.body.index(outer[0])]] + [s for s in outer[0].body if s is not inner[0]]
        body = inner[0].body
        arrays0 = {'x': {}, 'state_input': {}}
    else:
        loops = [s for s in f.body if isinstance(s, ast.For)]
        if len(loops) != 1:
            raise AnalysisError('compute_Zj: loop not found')
        comp = src(loops[0].target)
        coord = None
        pre = f.body[:f.body.index(loops[0])]
        body = loops[0].body
        arrays0 = {'x': {}}
    # every component of the rate equations and (for the Jacobian) every coordinate is differenced: the loops run over range(n) with n
    # the length of the state - not over a subset chosen from the stoichiometry or anything else
    defs_ = {n_: v_ for n_, v_ in util.single_defs(f).items() if v_ is not None}
    xarg = f.args.args[1].arg
    full = ('range(len(%s))' % xarg, 'range(len(state_input))', 'range(len(x))', 'range(self.num_equations)', 'range(np.size(%s))' % xarg, 'range(%s.shape[0])' % xarg)
    lps = [outer[0], inner[0]] if mode == 'J' else [loops[0]]
    bad_iter = []
    for lp_ in lps:
        it_ = lp_.iter
        if isinstance(it_, ast.Call) and src(it_.func) == 'range' and len(it_.args) == 1 and isinstance(it_.args[0], ast.Name) and it_.args[0].id in defs_:
            it_ = ast.Call(func=it_.func, args=[defs_[it_.args[0].id]], keywords=[])       # range(n) with n = len(x): one step, not recursively
        if src(it_).replace(' ', '') not in full:
            bad_iter.append('loop over %s' % src(lp_.iter))
    ctx.ob('R18.2-coverage', fname, not bad_iter, where,
           'the %s loop%s over all n = len(state) indices' % ('row and column' if mode == 'J' else 'row', 's run' if mode == 'J' else ' runs'),
           '; '.join(bad_iter))
    for method, p in METHODS.items():
        # the scheme name as the dispatch sees it: re-bindings of `method` before the loops (`method = method.lower()`) are applied
        mval = method
        for s_ in f.body:
            if isinstance(s_, (ast.For, ast.While)):
                break
            if isinstance(s_, ast.Assign) and len(s_.targets) == 1 and src(s_.targets[0]) == 'method' and \
                    {n_.id for n_ in ast.walk(s_.value) if isinstance(n_, ast.Name)} == {'method'}:
                try:
                    mval = eval(compile(ast.Expression(body=s_.value), '<method>', 'eval'), {'__builtins__': {}}, {'method': mval})
                except Exception as e:
                    raise AnalysisError('%s: cannot evaluate %s' % (fname, src(s_)))

        def cond(test, st, en, method=method, mval=mval):
            t = src(test).replace(' ', '')
            if t.startswith('method=='):
                return test.comparators[0].value == mval
            names_ = {n_.id for n_ in ast.walk(test) if isinstance(n_, ast.Name)}
            if names_ == {'method'} and t != 'methodisNone':
                try:
                    return bool(eval(compile(ast.Expression(body=test), '<test>', 'eval'), {'__builtins__': {}}, {'method': mval}))
                except Exception:
                    return NotImplemented
            if t == 'methodisNone':
                return False
            if t == 'h==0':
                return False
            if t.endswith('==np.inf') or t.endswith('==np.nan'):
                return False
            return NotImplemented
        en = paths.Enumerator(cond_hook=cond)
        ps = en.run(body, paths.State())
        ctx.paths += len(ps)
        ps = [q for q in ps if q.exit == 'fall']
        if len(ps) != 1:
            raise AnalysisError('%s/%s: expected one path through the loop body, found %d' % (fname, method, len(ps)))
        it = Interp(mode, methods=class_methods(ctx))
        it.xoff = {k: dict(v) for k, v in arrays0.items()}
        for s in pre:
            if isinstance(s, (ast.Assign, ast.AugAssign, ast.Expr)):
                it.step(s)
        it.stencils = []
        pre_writes = it.model_writes
        for e in ps[0].stmts():
            it.step(e.node)
        problems = list(dict.fromkeys(it.problems))      # (each text once, in order)
        if not it.stencils:
            problems.append('no stencil assignment for method %s' % method)
            offs = {}
            ctx.ob('R18.2-orientation', '%s/%s' % (fname, method), False, where,
                   'the entry written is derivative component x perturbed coordinate', 'nothing is written for this scheme')
        else:
            # several assignments on the path: the last one is what is reported
            if len(it.stencils) > 1:
                ctx.note('%s/%s: %d assignments to the result entry on the path, the last one is analysed' % (fname, method, len(it.stencils)))
            tgt, expr = it.stencils[-1]
            res = analyse_stencil(it, tgt, expr, mode, coord, comp, p)
            if isinstance(res, tuple):
                pr, offs = res
                problems += pr
            else:
                problems += res
                offs = {}
            # sidedness
            if method == 'forward_difference' and any(o < 0 for o in offs.values()):
                problems.append('a forward difference uses a backward point')
            if method == 'backward_difference' and any(o > 0 for o in offs.values()):
                problems.append('a backward difference uses a forward point')
            # orientation
            idx = [src(e) for e in tgt.slice.elts] if isinstance(tgt.slice, ast.Tuple) else [src(tgt.slice)]
            want = [comp, coord] if mode == 'J' else [comp]
            ctx.ob('R18.2-orientation', '%s/%s' % (fname, method), idx == want, where,
                   'the entry written is %s[%s]: derivative component x perturbed coordinate' % ('J' if mode == 'J' else 'Z', ', '.join(want)),
                   'writes [%s]' % ', '.join(idx))
        ctx.ob('R18.1-stencil', '%s/%s' % (fname, method), not problems, where,
               '%s is a consistent difference scheme of order %d (moment conditions on the weights and offsets read from the code)' % (method, p),
               '; '.join(problems[:3]) or 'offsets %s' % {k: str(v) for k, v in offs.items()})
        if mode == 'Z':
            bad = []
            if it.model is None or sp.simplify(it.model) != 0:
                bad.append("the model's parameter is left at offset %s*h after an iteration" % it.model)
            if any(sp.simplify(v) != 0 for v in it.poff.values()):
                bad.append('the working dictionary is left perturbed (%s) for the next iteration' % {k: str(v) for k, v in it.poff.items()})
            ctx.ob('R18.4-restore', '%s/%s' % (fname, method), not bad, where,
                   'after every iteration (and hence at return) the model parameters and the working dictionary are the originals', '; '.join(bad))
        else:
            writes = it.model_writes
            ctx.ob('R18.4-restore', '%s/%s' % (fname, method), writes == 0, where, 'compute_J never writes model parameters', '%d writes' % writes)
    return f


def check_evaluate(ctx):
    f = get_method(ctx, '_evaluate_model')
    a = [x.arg for x in f.args.args[1:]]
    txt = [util.stmt_key(s).replace(' ', '') for s in ast.walk(f) if isinstance(s, ast.stmt)]
    st, pa, tm = a[0], a[1], a[2]
    # structural: on the interface of this model (self.sim_interface, possibly through a local), the rules at (states, time, True), the
    # derivative at (states, <local buffer>, time), the buffer returned; the parameter set handed in goes through self.M.set_params
    defs_ = util.single_defs(f)
    kk = lambda n_: src(n_).replace(' ', '')

    def on_iface(c_):
        b_ = util.resolve_alias(c_.func.value, defs_)
        return kk(b_) == 'self.sim_interface'
    miss = []
    rc_ = [c_ for c_ in ast.walk(f) if isinstance(c_, ast.Call) and isinstance(c_.func, ast.Attribute) and c_.func.attr == 'py_apply_repeated_rules']
    dc_ = [c_ for c_ in ast.walk(f) if isinstance(c_, ast.Call) and isinstance(c_.func, ast.Attribute) and c_.func.attr == 'py_calculate_deterministic_derivative']
    sp_ = [c_ for c_ in ast.walk(f) if isinstance(c_, ast.Call) and kk(c_.func) == 'self.M.set_params']
    if len(rc_) != 1 or not on_iface(rc_[0]) or [kk(a_) for a_ in rc_[0].args] != [st, tm, 'True'] or rc_[0].keywords:
        miss.append('the rules are not applied as <interface>.py_apply_repeated_rules(%s, %s, True): %s' % (st, tm, [src(c_) for c_ in rc_]))
    buf = None
    if len(dc_) != 1 or not on_iface(dc_[0]) or len(dc_[0].args) != 3 or dc_[0].keywords or [kk(dc_[0].args[0]), kk(dc_[0].args[2])] != [st, tm] \
            or not isinstance(dc_[0].args[1], ast.Name):
        miss.append('the derivative is not taken as <interface>.py_calculate_deterministic_derivative(%s, buffer, %s): %s' % (st, tm, [src(c_) for c_ in dc_]))
    else:
        buf = dc_[0].args[1].id
        rets_ = [r_ for r_ in ast.walk(f) if isinstance(r_, ast.Return)]
        if [kk(r_.value) if r_.value is not None else None for r_ in rets_] != [buf]:
            miss.append('the value returned is not the derivative buffer %s' % buf)
        bd_ = defs_.get(buf)
        if bd_ is None or not (isinstance(bd_, ast.Call) and kk(bd_.func) in ('np.zeros', 'np.empty', 'numpy.zeros', 'numpy.empty')):
            miss.append('the derivative buffer %s is not a fresh local array' % buf)
    # the interface wrappers read `<double*> x.data` and ignore strides: the state they are given must be a fresh C-contiguous float64
    # array made in this function (np.array copies; np.asarray would hand a caller's strided view straight through)
    fresh = [n_ for n_ in f.body if isinstance(n_, ast.Assign) and len(n_.targets) == 1 and kk(n_.targets[0]) == st and isinstance(n_.value, ast.Call)]
    ok_fresh = False
    if len(fresh) == 1:
        c_ = fresh[0].value
        kw_ = {k_.arg: kk(k_.value) for k_ in c_.keywords}
        dt_ok = kw_.get('dtype') in ("'float64'", 'np.float64', 'float', 'np.double', "'double'", "'float'", 'numpy.float64') or \
            (len(c_.args) >= 2 and kk(c_.args[1]) in ("'float64'", 'np.float64', 'float', 'np.double'))
        fn_ = kk(c_.func)
        if fn_ in ('np.array', 'numpy.array') and dt_ok and kw_.get('copy', 'True') == 'True' and kw_.get('order', "'C'") in ("'C'", "'K'") and kk(c_.args[0]) == st:
            ok_fresh = kw_.get('order', "'C'") == "'C'" or 'order' not in kw_
        elif fn_ in ('np.ascontiguousarray', 'numpy.ascontiguousarray') and dt_ok and kk(c_.args[0]) == st:
            ok_fresh = True
        first_use = min([c2.lineno for c2 in rc_ + dc_] or [0])
        ok_fresh = ok_fresh and fresh[0].lineno < first_use
    if not ok_fresh:
        miss.append('the state handed to the interface (which reads the raw buffer) is not a fresh C-contiguous float64 copy made here: %s'
                    % [util.stmt_key(n_) for n_ in fresh])
    if len(sp_) != 1 or [kk(a_) for a_ in sp_[0].args] != [pa] or sp_[0].keywords:
        miss.append('the parameter set handed in does not reach self.M.set_params(%s): %s' % (pa, [src(c_) for c_ in sp_]))
    # on every path: the parameter set that was handed in is in the model before the rules run (rules read parameters), and the rules
    # run before the derivative is taken
    order_ok = not miss
    ps_ = paths.Enumerator().run(f.body, paths.State())
    ctx.paths += len(ps_)
    for p_ in ps_:
        if p_.exit == 'raise':
            continue
        i_set = paths.index_of(p_, lambda e: e.kind == 'stmt' and paths.stmt_calls(e.node, 'set_params'))
        i_rul = paths.index_of(p_, lambda e: e.kind == 'stmt' and paths.stmt_calls(e.node, 'py_apply_repeated_rules'))
        i_der = paths.index_of(p_, lambda e: e.kind == 'stmt' and paths.stmt_calls(e.node, 'py_calculate_deterministic_derivative'))
        given = [e.info for e in p_.events if e.kind == 'test' and util.canon_test(e.node).replace(' ', '') in ('%sisnotNone' % pa, '%s!=None' % pa, 'None!=%s' % pa)]
        absent = [e.info for e in p_.events if e.kind == 'test' and util.canon_test(e.node).replace(' ', '') in ('%sisNone' % pa, '%s==None' % pa, 'None==%s' % pa)]
        has_params = (given and given[0]) or (absent and not absent[0]) or (not given and not absent)
        if not (0 <= i_rul < i_der):
            order_ok = False
            miss.append('a path takes the derivative without applying the rules first')
        elif has_params and not (0 <= i_set < i_rul):
            order_ok = False
            miss.append('the parameter set handed in is not in the model when the rules are applied [%s]' % paths.describe(p_, 3))
    ctx.ob('R18.3-evaluation-point', '_evaluate_model', not miss and order_ok, ctx.loc('analysis', f),
           'the rules are applied to, and the derivative is taken at, the same state array and time on the interface of this model', str(miss) if miss else '')
    # the rules _evaluate_model asks for are the interface's repeated rules at that state and time (the wrapper only forwards)
    ctx.prog.mod('simulator')
    w = ctx.fn('simulator:CSimInterface.py_apply_repeated_rules')
    ok_w, det_w = util.delegation(w, 'apply_repeated_rules')
    ctx.ob('R18.3-evaluation-point', 'py_apply_repeated_rules', ok_w, ctx.loc('simulator', w),
           'py_apply_repeated_rules forwards (state, time, rule_step) to apply_repeated_rules', det_w)
    m = ctx.prog.mod('analysis')
    init = get_method(ctx, '__init__')
    txt = [util.stmt_key(s).replace(' ', '') for s in init.body]
    # (the model may be named by the constructor argument it was stored from; the interface local may have any name)
    marg = init.args.args[1].arg
    model_names = {'self.M'} | ({marg} if 'self.M=%s' % marg in txt else set())
    ok = any(('self.original_parameters=dict(%s.get_parameter_dictionary())' % m_) in txt for m_ in model_names)
    ifaces = [s_.targets[0].id for s_ in init.body if isinstance(s_, ast.Assign) and isinstance(s_.targets[0], ast.Name) and isinstance(s_.value, ast.Call)
              and src(s_.value.func) == 'ModelCSimInterface' and len(s_.value.args) == 1 and src(s_.value.args[0]) in model_names]
    ok = ok and len(ifaces) == 1 and ('%s.py_prep_deterministic_simulation()' % ifaces[0]) in txt and ('self.sim_interface=%s' % ifaces[0]) in txt
    ctx.ob('R18.4-restore', 'original-parameters-copy', ok, ctx.loc('analysis', init),
           'the original parameters are a copy taken at construction; the interface is prepared for derivative evaluation', '')
    # entry points
    for fn, callee in (('py_get_jacobian', 'compute_J'), ('py_get_sensitivity_to_parameter', 'compute_Zj')):
        g = [n for n in m.tree.body if isinstance(n, ast.FunctionDef) and n.name == fn]
        if not g:
            raise AnalysisError('anchor vanished: analysis:%s' % fn)
        rets = [s for s in g[0].body if isinstance(s, ast.Return)]
        want = 'SensitivityAnalysis(model).%s(state,**kwargs)' % callee if callee == 'compute_J' else 'SensitivityAnalysis(model).%s(state,param_name,**kwargs)' % callee
        # a helper object named by a local defined once in this function is read through; a module-level / cached object is not
        defs = {n_: v_ for n_, v_ in util.single_defs(g[0]).items() if v_ is not None}
        got = src(util.inline(rets[0].value, defs)).replace(' ', '') if len(rets) == 1 else None
        ctx.ob('R18.3-evaluation-point', fn, got == want, ctx.loc('analysis', g[0]),
               '%s evaluates %s of a helper built for this model in this call, at the given state' % (fn, callee), 'returns %s' % got)


def check(ctx):
    ctx.prog.mod('analysis')
    run_method(ctx, 'compute_J', 'J')
    run_method(ctx, 'compute_Zj', 'Z')
    check_evaluate(ctx)
    # the function that is differenced is the model's rate equation S_net * rate (C03 R3.4) - re-emitted here
    from ..core import SubCtx
    from . import c03
    for m in ('simulator', 'simulator.pxd'):
        ctx.prog.mod(m)
    sub = SubCtx(ctx)
    c03.check_derivative(sub)
    for rule, key, ok, where, what, detail in sub.got:
        ctx.ob('R18.3-rate-equations', '%s/%s' % (rule, key), ok, where, what, detail)
    # ... with rate(x, t) the documented closed forms (C01, deterministic mode), evaluated without hidden state: a stencil evaluates the
    # model repeatedly at one state with different parameters, so a memo keyed on the state alone freezes the derivative (C08 R8.7)
    from . import c01, c08
    for m_ in ('types', 'types.pxd', 'random', 'lineage', 'lineage.pxd', 'inference'):
        ctx.prog.mod(m_)
    c01.reemit(ctx, 'R18.3-rate-equations', 'deterministic', ('compute_propensities',))
    sub = SubCtx(ctx)
    c08.check_pure_evaluation(sub)
    for rule, key, ok, where, what, detail in sub.got:
        if rule == 'R8.7-pure-evaluation' and key in ('methods', 'module-state'):
            ctx.ob('R18.3-rate-equations', '%s/%s' % (rule, key), ok, where, what, detail)
    # ... and, for 'general' rates, with the expression the user wrote: every name of the string stays a symbol while it is parsed (a
    # parameter called E is not Euler's number) and the tree is translated node by node (C02 R2.3-parse-neutral, R2.2) - re-emitted
    from . import c02
    sub = SubCtx(ctx)
    c02.check_translation(sub)
    for rule, key, ok, where, what, detail in sub.got:
        if rule in ('R2.3-parse-neutral', 'R2.2-translation'):
            ctx.ob('R18.3-rate-equations', '%s/%s' % (rule, key), ok, where, what, detail)
    ctx.floor('R18.1-stencil', 8)
    ctx.floor('R18.2-orientation', 8)
    ctx.floor('R18.4-restore', 8)
